// shim std_extra: specifications of std functions that vstd does not provide (DESIGN §2.2).  Trusted.
use std::collections::HashMap;
use std::collections::HashSet;
use std::hash::{Hash, BuildHasher};
use std::borrow::Borrow;
use std::alloc::Allocator;
use std::sync::Arc;
use vstd::std_specs::hash::*;

verus! {

/// `kk.borrow() == k` (uninterpreted; axiomatised for Q == K)
pub uninterp spec fn hm_key_is<K, Q: ?Sized>(kk: K, k: &Q) -> bool;

pub broadcast axiom fn axiom_hm_key_is_same<K>(kk: K, k: &K)
    ensures #[trigger] hm_key_is::<K, K>(kk, k) <==> kk == *k;

/// HashMap::get_mut: the returned reference aliases exactly the entry of the looked-up key
pub assume_specification<'a, K: Eq + Hash + Borrow<Q>, V, S: BuildHasher, A: Allocator, Q: Hash + Eq + ?Sized>[ HashMap::<K, V, S, A>::get_mut::<Q> ](m: &'a mut HashMap<K, V, S, A>, k: &Q) -> (r: Option<&'a mut V>)
    ensures
        obeys_key_model::<K>() && builds_valid_hashers::<S>() ==> (match r {
            Some(v) => exists|kk: K| #[trigger] hm_key_is(kk, k) && old(m)@.contains_key(kk) && old(m)@[kk] == mut_ref_current(v)
                && final(m)@ == old(m)@.insert(kk, mut_ref_future(v)),
            None => final(m)@ == old(m)@ && forall|kk: K| #[trigger] old(m)@.contains_key(kk) ==> !hm_key_is(kk, k),
        });

/// A-KEY: derived / std Hash + Eq of these key types are lawful (hash-table key model)
pub broadcast axiom fn axiom_arc_string_key_model()
    ensures #[trigger] obeys_key_model::<Arc<String>>();

pub assume_specification<T: ?Sized, A: Allocator>[ <Arc<T, A> as AsRef<T>>::as_ref ](a: &Arc<T, A>) -> (r: &T)
    ensures r == &**a;

pub assume_specification<T: ?Sized, A: Allocator>[ <Box<T, A> as AsRef<T>>::as_ref ](a: &Box<T, A>) -> (r: &T)
    ensures r == &**a;

/// Option::map_or: the default for None, the closure's result for Some
#[verifier::allow(undeclared_external_trait)]
pub assume_specification<T, U, F: FnOnce(T) -> U>[ Option::<T>::map_or::<U, F> ](o: Option<T>, default: U, f: F) -> (r: U)
    where T: core::marker::Destruct, U: core::marker::Destruct, F: core::marker::Destruct
    requires o is Some ==> f.requires((o.unwrap(),))
    ensures o is None ==> r == default, o is Some ==> f.ensures((o.unwrap(),), r);

#[verifier::allow(undeclared_external_trait)]
pub assume_specification<T, E>[ Result::<T, E>::unwrap_or ](r: Result<T, E>, d: T) -> (v: T)
    where E: core::marker::Destruct, T: core::marker::Destruct
    ensures v == (match r { Ok(x) => x, Err(_) => d });

/// core::cmp::{max, min}: uninterpreted for a general Ord, axiomatised for u64
pub uninterp spec fn spec_cmp_max<T>(a: T, b: T) -> T;
pub uninterp spec fn spec_cmp_min<T>(a: T, b: T) -> T;
pub broadcast axiom fn axiom_cmp_max_u64(a: u64, b: u64)
    ensures #[trigger] spec_cmp_max::<u64>(a, b) == (if b >= a { b } else { a });
pub broadcast axiom fn axiom_cmp_min_u64(a: u64, b: u64)
    ensures #[trigger] spec_cmp_min::<u64>(a, b) == (if b < a { b } else { a });
#[verifier::allow(undeclared_external_trait)]
pub assume_specification<T: Ord + core::marker::Destruct>[ core::cmp::max::<T> ](a: T, b: T) -> (r: T)
    ensures r == spec_cmp_max::<T>(a, b);
#[verifier::allow(undeclared_external_trait)]
pub assume_specification<T: Ord + core::marker::Destruct>[ core::cmp::min::<T> ](a: T, b: T) -> (r: T)
    ensures r == spec_cmp_min::<T>(a, b);

/// `ToOwned for T: Clone` is defined in std as `self.clone()` / `*target = self.clone()`
pub assume_specification<T: Clone>[ <T as std::borrow::ToOwned>::to_owned ](x: &T) -> (r: T)
    ensures cloned::<T>(*x, r);

pub assume_specification<T: Clone>[ <T as std::borrow::ToOwned>::clone_into ](x: &T, target: &mut T)
    ensures cloned::<T>(*x, *final(target));

pub assume_specification<'a>[ <&'a str as PartialEq<String>>::eq ](a: &&'a str, b: &String) -> (r: bool)
    ensures r == ((*a)@ == b@);

pub assume_specification[ <str as PartialEq<String>>::eq ](a: &str, b: &String) -> (r: bool)
    ensures r == (a@ == b@);

pub assume_specification[ <String as PartialEq<str>>::eq ](a: &String, b: &str) -> (r: bool)
    ensures r == (a@ == b@);

/// `String: Borrow<str>` preserves Eq/Hash (std contract): looking up by &str finds the String key with the same characters
pub broadcast axiom fn axiom_str_borrowed_key<V>(m: Map<String, V>, k: &str)
    ensures #[trigger] contains_borrowed_key::<String, V, str>(m, k) <==> exists|kk: String| kk@ == k@ && m.contains_key(kk);

pub broadcast axiom fn axiom_str_borrowed_value<V>(m: Map<String, V>, k: &str, v: V)
    ensures #[trigger] maps_borrowed_key_to_value::<String, V, str>(m, k, v) <==> exists|kk: String| kk@ == k@ && m.contains_key(kk) && m[kk] == v;

pub broadcast axiom fn axiom_string_view_injective(a: String, b: String)
    ensures (#[trigger] a@ == #[trigger] b@) ==> a == b;

pub broadcast axiom fn axiom_string_key_model()
    ensures #[trigger] obeys_key_model::<String>();

/// `PartialEq for Arc<T>` compares the pointees with T's `eq` (std); uninterpreted for a general T, axiomatised for String
pub uninterp spec fn pointee_eq<T: ?Sized>(a: &T, b: &T) -> bool;
pub broadcast axiom fn axiom_pointee_eq_string(a: &String, b: &String)
    ensures #[trigger] pointee_eq::<String>(a, b) <==> a@ == b@;
pub assume_specification<T: ?Sized + PartialEq, A: Allocator>[ <Arc<T, A> as PartialEq>::ne ](a: &Arc<T, A>, b: &Arc<T, A>) -> (r: bool)
    ensures r == !pointee_eq::<T>(&**a, &**b);
pub assume_specification<T: ?Sized + PartialEq, A: Allocator>[ <Arc<T, A> as PartialEq>::eq ](a: &Arc<T, A>, b: &Arc<T, A>) -> (r: bool)
    ensures r == pointee_eq::<T>(&**a, &**b);

/// Arc::clone returns a handle to the same value (vstd specifies `Arc::clone` itself this way; this lifts it to `cloned`, which is
/// what `Option<Arc<T>>::clone` is specified with)
pub broadcast axiom fn axiom_arc_cloned<T>(a: Arc<T>, b: Arc<T>)
    requires #[trigger] cloned::<Arc<T>>(a, b)
    ensures a == b;

/// a str / String is determined by its characters
pub broadcast axiom fn axiom_str_view_injective(a: &str, b: &str)
    ensures (#[trigger] a@ == #[trigger] b@) ==> a == b;

/// `for x in set` over an OWNED HashSet (std::collections::hash_set::IntoIter): vstd models `iter()` only.  The iterator hands out
/// every element of the set exactly once, in some order (`hs_rest` = the elements not yet handed out).  Trusted std model.
#[verifier::external_type_specification]
#[verifier::external_body]
#[verifier::accept_recursive_types(K)]
#[verifier::reject_recursive_types(A)]
pub struct ExHashSetIntoIter<K, A: Allocator>(std::collections::hash_set::IntoIter<K, A>);

pub uninterp spec fn hs_rest<K, A: Allocator>(it: std::collections::hash_set::IntoIter<K, A>) -> Seq<K>;

pub assume_specification<K, S, A: Allocator>[ <std::collections::HashSet<K, S, A> as IntoIterator>::into_iter ](s: std::collections::HashSet<K, S, A>) -> (it: std::collections::hash_set::IntoIter<K, A>)
    ensures hs_rest(it).no_duplicates(), forall|k: K| #[trigger] hs_rest(it).contains(k) <==> s@.contains(k);

pub assume_specification<K, A: Allocator>[ <std::collections::hash_set::IntoIter<K, A> as Iterator>::next ](it: &mut std::collections::hash_set::IntoIter<K, A>) -> (r: Option<K>)
    ensures match r {
        None => hs_rest(*old(it)).len() == 0 && hs_rest(*final(it)).len() == 0,
        Some(k) => hs_rest(*old(it)).len() > 0 && k == hs_rest(*old(it))[0] && hs_rest(*final(it)) == hs_rest(*old(it)).skip(1),
    };


pub broadcast group group_std_extra {
    axiom_hm_key_is_same,
    axiom_arc_string_key_model,
    axiom_str_view_injective,
    axiom_str_borrowed_key,
    axiom_str_borrowed_value,
    axiom_string_view_injective,
    axiom_string_key_model,
    axiom_pointee_eq_string,
    axiom_arc_cloned,
    axiom_cmp_max_u64,
    axiom_cmp_min_u64,
}

} // verus!
