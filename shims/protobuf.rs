// shim protobuf: model of quick_protobuf::{Writer, BytesReader} and of the generated message types (DESIGN §2.2).  Trusted.
// The wire format itself is NOT verified (generated code, external crate): a message has an uninterpreted byte image
// `pb_bytes()`, `write_message` appends the length-prefixed image, `read_message` returns a message whose length-prefixed
// image is a prefix of the input, and framed images are uniquely decodable (dec . enc = id).
pub mod pb_shim {
    use vstd::prelude::*;
    verus! {
    #[derive(Debug)]
    pub struct PbError { pub vx_opaque: u8 }
    }
}
impl From<crate::pb_shim::PbError> for crate::anyhow::Error {
    fn from(_e: crate::pb_shim::PbError) -> Self { crate::anyhow::Error { vx_opaque: 0 } }
}

verus! {

pub assume_specification[ <crate::anyhow::Error as From<crate::pb_shim::PbError>>::from ](e: crate::pb_shim::PbError) -> (r: crate::anyhow::Error);

pub trait PbMessage: Sized {
    /// protobuf encoding of the message (uninterpreted)
    spec fn pb_bytes(&self) -> Seq<u8>;
}

/// length-prefixed image: varint(|bytes|) ++ bytes
pub open spec fn pb_frame<M: PbMessage>(m: M) -> Seq<u8> {
    enc(m.pb_bytes().len() as nat).add(m.pb_bytes())
}

/// dec . enc = id, and varint length prefixes are prefix-free: a byte string starts with at most one framed message
pub axiom fn axiom_pb_frame_unique<M: PbMessage>(a: M, b: M, s: Seq<u8>)
    requires
        pb_frame(a).len() <= s.len(), s.take(pb_frame(a).len() as int) == pb_frame(a),
        pb_frame(b).len() <= s.len(), s.take(pb_frame(b).len() as int) == pb_frame(b),
    ensures a == b;

/// the same fact in a form the solver can instantiate by itself
pub broadcast axiom fn axiom_pb_frame_unique_auto<M: PbMessage>(a: M, b: M, s: Seq<u8>)
    ensures (pb_frame(a).len() <= s.len() && #[trigger] s.take(pb_frame(a).len() as int) == pb_frame(a)
        && pb_frame(b).len() <= s.len() && #[trigger] s.take(pb_frame(b).len() as int) == pb_frame(b)) ==> a == b;

pub struct Writer<'a> { pub b: &'a mut Vec<u8> }

impl<'a> Writer<'a> {
    #[verifier::external_body]
    pub fn new(b: &'a mut Vec<u8>) -> (r: Writer<'a>)
        ensures mut_ref_current(r.b) == mut_ref_current(b), mut_ref_future(r.b) == mut_ref_future(b)
    { Writer { b } }

    #[verifier::external_body]
    pub fn write_message<M: PbMessage>(&mut self, m: &M) -> (r: Result<(), crate::pb_shim::PbError>)
        ensures
            mut_ref_future(final(self).b) == mut_ref_future(old(self).b),
            // A-VECWRITE: the backend is a Vec<u8> (`pb_write_all` of a Vec cannot fail) and messages have no failing encoder
            r is Ok,
            r is Ok ==> mut_ref_current(final(self).b)@ == mut_ref_current(old(self).b)@.add(pb_frame(*m)),
    { unimplemented!() }

    /// length-prefixed raw bytes
    #[verifier::external_body]
    pub fn write_bytes(&mut self, bytes: &[u8]) -> (r: Result<(), crate::pb_shim::PbError>)
        ensures
            mut_ref_future(final(self).b) == mut_ref_future(old(self).b),
            r is Ok ==> mut_ref_current(final(self).b)@ == mut_ref_current(old(self).b)@.add(enc(bytes@.len() as nat)).add(bytes@),
    { unimplemented!() }
}

pub uninterp spec fn pb_decodes<M: PbMessage>(bytes: Seq<u8>) -> bool;
pub struct BytesReader { pub vx: u8 }
impl BytesReader {
    #[verifier::external_body]
    pub fn from_bytes(bytes: &[u8]) -> BytesReader { unimplemented!() }

    /// reads one length-prefixed message from the start of `bytes`
    #[verifier::external_body]
    pub fn read_message<M: PbMessage>(&mut self, bytes: &[u8]) -> (r: Result<M, crate::pb_shim::PbError>)
        ensures r is Ok ==> pb_frame(r.unwrap()).len() <= bytes@.len() && bytes@.take(pb_frame(r.unwrap()).len() as int) == pb_frame(r.unwrap()),
            // whether the bytes decode as an M is a function of the bytes (uninterpreted)
            r is Ok <==> pb_decodes::<M>(bytes@),
    { unimplemented!() }
}

} // verus!
