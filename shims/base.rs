// shim base: global settings + logging + anyhow (DESIGN §2.2).  Trusted.
verus! {
global size_of usize == 8;
/// T20: the result of a unit handler that was made `async` (Verus keeps an async fn's contract only for a non-unit result)
pub enum VxDone { Done }
/// ... and one that carries, as a GHOST value, what the handler's waited future resolved to (None: the handler returned before it)
pub struct VxOut<T> { pub chain: Ghost<Option<T>> }
}

#[allow(unused_macros)]
macro_rules! vx_log_nop { ($($t:tt)*) => { () } }
pub mod log {
    pub(crate) use vx_log_nop as info;
    pub(crate) use vx_log_nop as warn;
    pub(crate) use vx_log_nop as error;
    pub(crate) use vx_log_nop as debug;
    pub(crate) use vx_log_nop as trace;
}

#[allow(unused_macros)]
macro_rules! vx_anyhow { ($($t:tt)*) => { crate::anyhow::vx_mk_err() } }
pub mod anyhow {
    use vstd::prelude::*;
    pub(crate) use vx_anyhow as anyhow;
    verus! {
    /// opaque error value: payloads of errors are not part of any property (T5)
    #[derive(Debug)]
    pub struct Error { pub vx_opaque: u8 }
    pub type Result<T> = core::result::Result<T, Error>;
    #[verifier::external_body]
    pub fn vx_mk_err() -> Error { Error { vx_opaque: 0 } }
    }
}
