// shim tokio_fs: model of tokio::fs::{File, OpenOptions} + the AsyncRead/Write/Seek extension methods used by r-nacos
// (DESIGN §2.2).  Trusted.  A file is a byte sequence plus a cursor; `read` returns an ARBITRARY chunk (1..=buf.len()
// bytes unless at EOF) — that is what makes the record-stream proofs hold for every chunking.  Every call may fail;
// a failed read/seek leaves the file unchanged; after a failed write the contents are unspecified.
pub mod std_io_shim {
    use vstd::prelude::*;
    verus! {
    #[derive(Debug)]
    pub struct IoError { pub vx_opaque: u8 }
    }
}
impl From<crate::std_io_shim::IoError> for crate::anyhow::Error {
    fn from(_e: crate::std_io_shim::IoError) -> Self { crate::anyhow::Error { vx_opaque: 0 } }
}

verus! {

pub assume_specification[ <crate::anyhow::Error as From<crate::std_io_shim::IoError>>::from ](e: crate::std_io_shim::IoError) -> (r: crate::anyhow::Error);

#[verifier::external_type_specification]
pub struct ExSeekFrom(std::io::SeekFrom);

/// contents of the file at `path` at the moment it is opened (one constant per path: a function contract talks about one open)
pub uninterp spec fn disk_at_open(path: Seq<char>) -> Seq<u8>;

/// assumption A-FULLREAD (only where a contract `requires full_read_model()`): `read` on a regular file is short only at EOF
pub uninterp spec fn full_read_model() -> bool;

} // verus!

pub mod tokio {
    pub mod fs {
        use vstd::prelude::*;
        use crate::std_io_shim::IoError;
        use std::io::SeekFrom;
        verus! {

        #[verifier::external_body]
        pub struct File { vx: u8 }

        pub struct Metadata { pub vx_len: u64 }
        impl Metadata {
            pub fn len(&self) -> (r: u64) ensures r == self.vx_len { self.vx_len }
        }

        impl File {
            pub uninterp spec fn contents(&self) -> Seq<u8>;
            pub uninterp spec fn pos(&self) -> nat;
            /// "an I/O operation on this handle can fail": a read or seek that answers Err says so; uninterpreted, never changed by
            /// an operation (a handle either is on a faulty device or it is not) — lets a contract say what happens when nothing fails
            pub uninterp spec fn io_faulty(&self) -> bool;

            /// any chunking: returns 1..=buf.len() bytes unless at EOF (or buf empty)
            #[verifier::external_body]
            pub async fn read(&mut self, buf: &mut [u8]) -> (r: Result<usize, IoError>)
                ensures final(self).contents() == old(self).contents(), final(buf)@.len() == old(buf)@.len(),
                    final(self).io_faulty() == old(self).io_faulty(), r is Err ==> old(self).io_faulty(),
                    r is Err ==> final(self).pos() == old(self).pos() && final(buf)@ == old(buf)@,
                    r is Ok ==> ({ let n = r.unwrap() as int;
                        &&& 0 <= n <= old(buf)@.len()
                        &&& (n > 0 ==> old(self).pos() + n <= old(self).contents().len())
                        &&& (n == 0 ==> (old(self).pos() >= old(self).contents().len() || old(buf)@.len() == 0))
                        &&& final(self).pos() == old(self).pos() + n
                        &&& (n > 0 ==> final(buf)@.take(n) == old(self).contents().subrange(old(self).pos() as int, old(self).pos() + n))
                        &&& final(buf)@.skip(n) == old(buf)@.skip(n)
                        &&& (crate::full_read_model() ==> n == (if old(self).pos() >= old(self).contents().len() { 0int }
                                else if old(self).contents().len() - old(self).pos() < old(buf)@.len() { old(self).contents().len() - old(self).pos() }
                                else { old(buf)@.len() as int }))
                    }),
            { unimplemented!() }

            /// fills the whole buffer or fails
            #[verifier::external_body]
            pub async fn read_exact(&mut self, buf: &mut [u8]) -> (r: Result<usize, IoError>)
                ensures final(self).contents() == old(self).contents(), final(buf)@.len() == old(buf)@.len(),
                    final(self).io_faulty() == old(self).io_faulty(),
                    r is Ok ==> ({ let n = old(buf)@.len() as int;
                        &&& old(self).pos() + n <= old(self).contents().len()
                        &&& final(self).pos() == old(self).pos() + n
                        &&& final(buf)@ == old(self).contents().subrange(old(self).pos() as int, old(self).pos() + n)
                    }),
            { unimplemented!() }

            #[verifier::external_body]
            pub async fn seek(&mut self, to: SeekFrom) -> (r: Result<u64, IoError>)
                ensures final(self).contents() == old(self).contents(),
                    final(self).io_faulty() == old(self).io_faulty(), r is Err ==> old(self).io_faulty(),
                    r is Err ==> final(self).pos() == old(self).pos(),
                    r is Ok ==> (match to { SeekFrom::Start(p) => final(self).pos() == p && r.unwrap() == p, _ => true }),
            { unimplemented!() }

            /// overwrites / extends at the cursor
            #[verifier::external_body]
            pub async fn write_all(&mut self, data: &[u8]) -> (r: Result<(), IoError>)
                ensures final(self).io_faulty() == old(self).io_faulty(), r is Err ==> old(self).io_faulty(),
                    r is Ok ==> ({
                        let p = old(self).pos() as int;
                        let c = old(self).contents();
                        let n = data@.len() as int;
                        &&& final(self).pos() == p + n
                        &&& final(self).contents().len() == (if c.len() >= p + n { c.len() as int } else { p + n })
                        &&& final(self).contents().subrange(p, p + n) == data@
                        &&& forall|i: int| 0 <= i < p && i < c.len() ==> final(self).contents()[i] == c[i]
                        &&& forall|i: int| p + n <= i < c.len() ==> final(self).contents()[i] == c[i]
                        &&& forall|i: int| c.len() <= i < p ==> final(self).contents()[i] == 0u8
                    }),
            { unimplemented!() }

            /// truncates or zero-extends
            #[verifier::external_body]
            pub async fn set_len(&mut self, size: u64) -> (r: Result<(), IoError>)
                ensures final(self).io_faulty() == old(self).io_faulty(), r is Err ==> old(self).io_faulty(),
                    r is Ok ==> ({
                        let c = old(self).contents();
                        &&& final(self).pos() == old(self).pos()
                        &&& final(self).contents().len() == size
                        &&& forall|i: int| 0 <= i < size && i < c.len() ==> final(self).contents()[i] == c[i]
                        &&& forall|i: int| c.len() <= i < size ==> final(self).contents()[i] == 0u8
                    }),
            { unimplemented!() }

            /// durability barrier: no effect on the byte sequence (crash model is out of scope)
            #[verifier::external_body]
            pub async fn flush(&mut self) -> (r: Result<(), IoError>)
                ensures final(self).contents() == old(self).contents(), final(self).pos() == old(self).pos(),
                    final(self).io_faulty() == old(self).io_faulty(), r is Err ==> old(self).io_faulty(),
            { unimplemented!() }

            #[verifier::external_body]
            pub async fn metadata(&self) -> (r: Result<Metadata, IoError>)
                ensures r is Ok ==> r.unwrap().vx_len == self.contents().len(),
            { unimplemented!() }

            /// a second handle on the same file: same bytes at the time of the call, own cursor semantics are NOT modelled
            /// (shares the OS cursor in reality; users re-seek before use)
            #[verifier::external_body]
            pub async fn try_clone(&self) -> (r: Result<File, IoError>)
                ensures r is Ok ==> r.unwrap().contents() == self.contents() && r.unwrap().pos() == self.pos(),
            { unimplemented!() }
        }

        pub struct OpenOptions { pub r: bool, pub w: bool, pub c: bool, pub t: bool }
        impl OpenOptions {
            pub fn new() -> (o: Self) ensures !o.t { OpenOptions { r: false, w: false, c: false, t: false } }
            pub fn read(self, v: bool) -> (o: Self) ensures o.t == self.t { OpenOptions { r: v, w: self.w, c: self.c, t: self.t } }
            pub fn write(self, v: bool) -> (o: Self) ensures o.t == self.t { OpenOptions { r: self.r, w: v, c: self.c, t: self.t } }
            pub fn create(self, v: bool) -> (o: Self) ensures o.t == self.t { OpenOptions { r: self.r, w: self.w, c: v, t: self.t } }
            pub fn truncate(self, v: bool) -> (o: Self) ensures o.t == v { OpenOptions { r: self.r, w: self.w, c: self.c, t: v } }
            /// opens (creating an empty file if absent): the handle sees the file's bytes — none when the file is opened with
            /// `truncate(true)` — cursor at 0
            #[verifier::external_body]
            pub async fn open<P: VxPath>(self, path: P) -> (r: Result<File, IoError>)
                ensures r is Ok ==> r.unwrap().pos() == 0
                    && r.unwrap().contents() == (if self.t { Seq::<u8>::empty() } else { crate::disk_at_open(path.vx_path()) }),
            { unimplemented!() }
        }

        pub trait VxPath { spec fn vx_path(&self) -> Seq<char>; }
        impl VxPath for &String { open spec fn vx_path(&self) -> Seq<char> { (**self)@ } }
        impl VxPath for &&str { open spec fn vx_path(&self) -> Seq<char> { (***self)@ } }
        impl VxPath for &str { open spec fn vx_path(&self) -> Seq<char> { (**self)@ } }
        }
    }
}
