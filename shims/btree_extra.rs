// shim btree_extra: what vstd leaves open about BTreeMap / BTreeSet with Arc<String> keys.  Trusted.
//  A-ORD:          `Ord for Arc<String>` (= String's lexicographic order through Arc's forwarding impl) is lawful for the B-tree
//                  key model and is a strict total order whose `Equal` is equality of the strings.
//  A-BTSET-ORDER:  a BTreeSet iterator yields its elements in increasing order (vstd specifies this for BTreeMap::iter keys
//                  but, in this version, not for BTreeSet::iter: only `no_duplicates` and `to_set() == s@`).
verus! {

pub open spec fn ord_lawful<K: Ord>() -> bool {
    &&& vstd::std_specs::btree::key_obeys_cmp_spec::<K>()
    &&& forall|a: K| (#[trigger] a.cmp_spec(&a)) == core::cmp::Ordering::Equal
    &&& forall|a: K, b: K| (#[trigger] a.cmp_spec(&b)) == core::cmp::Ordering::Equal ==> a == b
    &&& forall|a: K, b: K| (#[trigger] a.cmp_spec(&b)) == core::cmp::Ordering::Less ==> b.cmp_spec(&a) == core::cmp::Ordering::Greater
    &&& forall|a: K, b: K| (#[trigger] a.cmp_spec(&b)) == core::cmp::Ordering::Greater ==> b.cmp_spec(&a) == core::cmp::Ordering::Less
    &&& forall|a: K, b: K, c: K| (#[trigger] a.cmp_spec(&b)) == core::cmp::Ordering::Less && (#[trigger] b.cmp_spec(&c)) == core::cmp::Ordering::Less
            ==> a.cmp_spec(&c) == core::cmp::Ordering::Less
}

pub axiom fn axiom_arc_string_ord()
    ensures ord_lawful::<Arc<String>>();

pub broadcast axiom fn axiom_btree_set_iter_increasing<'a, T>(it: std::collections::btree_set::Iter<'a, T>)
    ensures vstd::std_specs::btree::increasing_seq(#[trigger] it.remaining().unref());

} // verus!
