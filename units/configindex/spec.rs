verus! {

pub type GD = (Arc<String>, Arc<String>);   // (group, data_id)

impl ConfigIndex {
    /// the (group, data_id) pairs the index holds
    pub open spec fn view(&self) -> ISet<GD> {
        ISet::new(|p: GD| self.group_data@.contains_key(p.0) && self.group_data@[p.0]@.contains(p.1))
    }
    /// no group is kept without a data id (a group entry disappears with its last member)
    pub open spec fn wf(&self) -> bool {
        forall|g: Arc<String>| #[trigger] self.group_data@.contains_key(g) ==> self.group_data@[g]@.len() > 0
    }
}

impl TenantIndex {
    /// the keys the listing index holds
    pub open spec fn view(&self) -> ISet<ConfigKey> {
        ISet::new(|k: ConfigKey| self.tenant_group@.contains_key(k.tenant) && self.tenant_group@[k.tenant]@.contains((k.group, k.data_id)))
    }
    /// no tenant is kept without a config; every per-tenant index is well formed
    pub open spec fn wf(&self) -> bool {
        &&& forall|t: Arc<String>| #[trigger] self.tenant_group@.contains_key(t) ==> self.tenant_group@[t].wf() && self.tenant_group@[t].group_data@.dom().len() > 0
    }
}


// ------------------------------------------------------------------ paged listing (C09: exactly once, correct totals; C18: permitted tenants only)
pub type K = Arc<String>;

/// the search predicates of a query (what "matches" means — exact / substring — is not decided here; see unit.toml)
pub uninterp spec fn grp_match(p: ConfigQueryParam, g: K) -> bool;
pub uninterp spec fn did_match(p: ConfigQueryParam, d: K) -> bool;

/// THE increasing enumeration of a finite set of keys (unique: lemma_sorted_unique)
pub open spec fn sorted_seq(s: Set<K>) -> Seq<K> { choose|q: Seq<K>| increasing_seq(q) && q.to_set() == s }

/// matching members of group g among the first n of its member list ds, in list order
pub open spec fn grp_hits(p: ConfigQueryParam, g: K, ds: Seq<K>, n: int) -> Seq<GD>
    decreases n
{
    if n <= 0 { Seq::empty() } else {
        let prev = grp_hits(p, g, ds, n - 1);
        if did_match(p, ds[n - 1]) { prev.push((g, ds[n - 1])) } else { prev }
    }
}

/// matching (group, data id) pairs of the first n groups of gs, groups in list order, members in increasing order
pub open spec fn idx_hits(p: ConfigQueryParam, m: Map<K, BTreeSet<K>>, gs: Seq<K>, n: int) -> Seq<GD>
    decreases n
{
    if n <= 0 { Seq::empty() } else {
        let prev = idx_hits(p, m, gs, n - 1);
        let g = gs[n - 1];
        if grp_match(p, g) { prev + grp_hits(p, g, sorted_seq(m[g]@), m[g]@.len() as int) } else { prev }
    }
}

impl ConfigIndex {
    /// the canonical result list of a search: groups in increasing order, data ids in increasing order inside a group
    pub open spec fn hits(&self, p: ConfigQueryParam) -> Seq<GD> {
        idx_hits(p, self.group_data@, sorted_seq(self.group_data@.dom()), self.group_data@.dom().len() as int)
    }
}

pub open spec fn imin(a: int, b: int) -> int { if a < b { a } else { b } }

/// the window [off, off+lim) of a list
pub open spec fn page<T>(s: Seq<T>, off: int, lim: int) -> Seq<T> { s.subrange(imin(off, s.len() as int), imin(off + lim, s.len() as int)) }

pub open spec fn to_key(x: GD, tenant: K) -> ConfigKey { ConfigKey { data_id: x.1, group: x.0, tenant } }
pub open spec fn to_keys(s: Seq<GD>, tenant: K) -> Seq<ConfigKey> { s.map_values(|x: GD| to_key(x, tenant)) }

pub proof fn lemma_page_push<T>(s: Seq<T>, x: T, off: int, lim: int)
    requires 0 <= off, 0 <= lim
    ensures page(s.push(x), off, lim) == (if off <= s.len() < off + lim { page(s, off, lim).push(x) } else { page(s, off, lim) })
{
    let n = s.len() as int;
    if off <= n < off + lim {
        assert(page(s.push(x), off, lim) =~= page(s, off, lim).push(x));
    } else {
        assert(page(s.push(x), off, lim) =~= page(s, off, lim));
    }
}

pub proof fn lemma_to_keys_push(s: Seq<GD>, x: GD, tenant: K)
    ensures to_keys(s.push(x), tenant) == to_keys(s, tenant).push(to_key(x, tenant))
{
    assert(to_keys(s.push(x), tenant) =~= to_keys(s, tenant).push(to_key(x, tenant)));
}

/// two increasing enumerations of the same set are the same list
pub proof fn lemma_sorted_unique(a: Seq<K>, b: Seq<K>)
    requires ord_lawful::<K>(), increasing_seq(a), increasing_seq(b), a.to_set() == b.to_set()
    ensures a == b
    decreases a.len()
{
    broadcast use group_btree_axioms;
    lemma_increasing_nodup(a);
    lemma_increasing_nodup(b);
    a.unique_seq_to_set();
    b.unique_seq_to_set();
    assert(a.len() == b.len());
    if a.len() == 0 {
        assert(a =~= b);
    } else {
        let x = a.last();
        let y = b.last();
        assert(a.to_set().contains(x));
        assert(b.to_set().contains(y));
        let j = choose|j: int| 0 <= j < b.len() && b[j] == x;
        let i = choose|i: int| 0 <= i < a.len() && a[i] == y;
        if j < b.len() - 1 {
            assert(x.cmp_spec(&y) == core::cmp::Ordering::Less);
            if i < a.len() - 1 { assert(y.cmp_spec(&x) == core::cmp::Ordering::Less); }
        }
        assert(x == y);
        let a1 = a.drop_last();
        let b1 = b.drop_last();
        assert(increasing_seq(a1)) by { assert forall|p: int, q: int| 0 <= p < q < a1.len() implies a1[p].cmp_spec(&a1[q]) == core::cmp::Ordering::Less by { assert(a1[p] == a[p] && a1[q] == a[q]); } }
        assert(increasing_seq(b1)) by { assert forall|p: int, q: int| 0 <= p < q < b1.len() implies b1[p].cmp_spec(&b1[q]) == core::cmp::Ordering::Less by { assert(b1[p] == b[p] && b1[q] == b[q]); } }
        assert(a1.to_set() =~= a.to_set().remove(x)) by {
            assert forall|e: K| a1.to_set().contains(e) <==> a.to_set().remove(x).contains(e) by {
                if a1.contains(e) { let p = choose|p: int| 0 <= p < a1.len() && a1[p] == e; assert(a[p] == e); }
                if a.contains(e) && e != x { let p = choose|p: int| 0 <= p < a.len() && a[p] == e; assert(a1[p] == e); }
            }
        }
        assert(b1.to_set() =~= b.to_set().remove(y)) by {
            assert forall|e: K| b1.to_set().contains(e) <==> b.to_set().remove(y).contains(e) by {
                if b1.contains(e) { let p = choose|p: int| 0 <= p < b1.len() && b1[p] == e; assert(b[p] == e); }
                if b.contains(e) && e != y { let p = choose|p: int| 0 <= p < b.len() && b[p] == e; assert(b1[p] == e); }
            }
        }
        lemma_sorted_unique(a1, b1);
        assert(a =~= a1.push(x));
        assert(b =~= b1.push(y));
    }
}

pub proof fn lemma_increasing_nodup(a: Seq<K>)
    requires ord_lawful::<K>(), increasing_seq(a)
    ensures a.no_duplicates()
{
    broadcast use group_btree_axioms;
    assert forall|i: int, j: int| 0 <= i < a.len() && 0 <= j < a.len() && i != j implies a[i] != a[j] by {
        if i < j { assert(a[i].cmp_spec(&a[j]) == core::cmp::Ordering::Less); } else { assert(a[j].cmp_spec(&a[i]) == core::cmp::Ordering::Less); }
    }
}

/// an increasing enumeration of s IS sorted_seq(s)
pub proof fn lemma_is_sorted_seq(q: Seq<K>, s: Set<K>)
    requires ord_lawful::<K>(), increasing_seq(q), q.to_set() == s
    ensures q == sorted_seq(s), sorted_seq(s).len() == s.len(), q.no_duplicates()
{
    let w = sorted_seq(s);
    assert(increasing_seq(w) && w.to_set() == s);
    lemma_sorted_unique(q, w);
    lemma_increasing_nodup(q);
    q.unique_seq_to_set();
}

} // verus!
