@@ ConfigIndex::new external
@@ ConfigIndex::new skip_body
@@ ConfigIndex::new spec
    ensures r.group_data@ == Map::<Arc<String>, BTreeSet<Arc<String>>>::empty()
@@ ConfigIndex::insert_config spec
    requires key_obeys_cmp_spec::<Arc<String>>(), old(self).wf()
    // C09: the index gains exactly this (group, data id); the answer says whether it was new
    ensures final(self).wf(), final(self)@ == old(self)@.insert((group, config)), r == !old(self)@.contains((group, config)),
        final(self).group_data@.dom() == old(self).group_data@.dom().insert(group),
@@ ConfigIndex::remove_config spec
    requires key_obeys_cmp_spec::<Arc<String>>(), old(self).wf()
    ensures final(self).wf(), final(self)@ == old(self)@.remove((*group, *config)), r.0 == old(self)@.contains((*group, *config)),
        r.1 == final(self).group_data@.dom().len(),
@@ TenantIndex::notify_namespace_change external
@@ TenantIndex::notify_namespace_change skip_body
@@ TenantIndex::notify_namespace_change spec
@@ TenantIndex::do_insert_config spec
    requires key_obeys_cmp_spec::<Arc<String>>(), old(self).wf(), old(self).size < usize::MAX
    ensures final(self).wf(), final(self)@ == old(self)@.insert(ConfigKey { data_id, group, tenant }),
        r == !old(self)@.contains(ConfigKey { data_id, group, tenant }),
        final(self).size == old(self).size + (if r { 1int } else { 0int }),
@@ TenantIndex::do_remove_config spec
    requires key_obeys_cmp_spec::<Arc<String>>(), old(self).wf(), old(self).size > 0 || !old(self)@.contains(ConfigKey { data_id: *data_id, group: *group, tenant: *tenant })
    ensures final(self).wf(), final(self)@ == old(self)@.remove(ConfigKey { data_id: *data_id, group: *group, tenant: *tenant }),
        r == old(self)@.contains(ConfigKey { data_id: *data_id, group: *group, tenant: *tenant }),
        final(self).size == old(self).size - (if r { 1int } else { 0int }),
@@ TenantIndex::insert_config spec
    requires key_obeys_cmp_spec::<Arc<String>>(), old(self).wf(), old(self).size < usize::MAX
    // C09 (this is the contract unit config assumes): the listing index gains exactly this key
    ensures final(self).wf(), final(self)@ == old(self)@.insert(key), r == !old(self)@.contains(key),
        final(self).size == old(self).size + (if r { 1int } else { 0int }),
@@ TenantIndex::remove_config spec
    requires key_obeys_cmp_spec::<Arc<String>>(), old(self).wf(), old(self).size > 0 || !old(self)@.contains(*key)
    ensures final(self).wf(), final(self)@ == old(self)@.remove(*key), r == old(self)@.contains(*key),
        final(self).size == old(self).size - (if r { 1int } else { 0int }),
@@ TenantIndex::do_remove_config entry
    let ghost k0 = ConfigKey { data_id: *data_id, group: *group, tenant: *tenant };
    let ghost v0 = self@;
    let ghost m0 = self.tenant_group@;
@@ TenantIndex::do_remove_config after_call remove_config 1
            proof {
                assert(m0.contains_key(*tenant));
                assert(config_index@ =~= m0[*tenant]@.remove((*group, *data_id)));
                if group_size == 0 { assert(forall|p: GD| !config_index@.contains(p)); }
            }
@@ TenantIndex::do_remove_config before_tail
    proof {
        let mf = self.tenant_group@;
        assert forall|k: ConfigKey| self@.contains(k) <==> v0.remove(k0).contains(k) by {
            assert(self@.contains(k) == (mf.contains_key(k.tenant) && mf[k.tenant]@.contains((k.group, k.data_id))));
            assert(v0.contains(k) == (m0.contains_key(k.tenant) && m0[k.tenant]@.contains((k.group, k.data_id))));
            assert(v0.remove(k0).contains(k) == (v0.contains(k) && k != k0));
            if k.tenant == *tenant {
                assert(k == k0 <==> (k.group, k.data_id) == (*group, *data_id));
                if m0.contains_key(*tenant) && !mf.contains_key(*tenant) {
                    assert(!m0[*tenant]@.remove((*group, *data_id)).contains((k.group, k.data_id)));
                }
            }
        }
        assert(self@ =~= v0.remove(k0));
    }
@@ ConfigQueryParam::match_group external
@@ ConfigQueryParam::match_group skip_body
@@ ConfigQueryParam::match_group spec
    // assumed (T7): deref coercions &Arc<String> -> &str, str::rfind; only "a deterministic predicate of (query, group)" is used
    ensures r == grp_match(*self, *g)
@@ ConfigQueryParam::match_data_id external
@@ ConfigQueryParam::match_data_id skip_body
@@ ConfigQueryParam::match_data_id spec
    ensures r == did_match(*self, *s)
@@ ConfigIndex::query_config_page t8 1
@@ ConfigIndex::query_config_page t8p 2
@@ ConfigIndex::query_config_page foriter 1 it
@@ ConfigIndex::query_config_page foriter 2 it2
@@ ConfigIndex::query_config_page spec
    requires offset + limit <= usize::MAX, self.hits(*param).len() <= usize::MAX
    // C09: the total is the number of stored (group, data id) pairs that match; the page is the window [offset, offset+limit)
    // of THE canonical list of matches (groups increasing, data ids increasing) — so pages of one search tile it exactly
    ensures r.0 == self.hits(*param).len(),
        r.1@ == to_keys(page(self.hits(*param), offset as int, limit as int), *tenant),
@@ ConfigIndex::query_config_page entry
    broadcast use group_btree_axioms;
    broadcast use axiom_btree_set_iter_increasing;
    proof { axiom_arc_string_ord(); }
    let ghost m = self.group_data@;
    let ghost gs = sorted_seq(m.dom());
    let ghost p = *param;
    let ghost off = offset as int;
    let ghost lim = limit as int;
    let ghost nall = m.dom().len() as int;
@@ ConfigIndex::query_config_page before_loop 1
    proof {
        if m.dom().len() == 0 { assert(m.dom() =~= Set::<K>::empty()); lemma_sorted_empty(); }
    }
@@ ConfigIndex::query_config_page loop 1
    invariant ord_lawful::<K>(), m == self.group_data@, gs == sorted_seq(m.dom()), p == *param, off == offset, lim == limit,
        end_index == off + lim, nall == m.dom().len(),
        it.seq().len() == nall,
        increasing_seq(keys_of(it.seq())),
        forall|i: int| 0 <= i < it.seq().len() ==> m.contains_key(*(#[trigger] it.seq()[i]).0) && *it.seq()[i].1 == m[*it.seq()[i].0],
        forall|k: K| m.contains_key(k) ==> exists|i: int| 0 <= i < it.seq().len() && *(#[trigger] it.seq()[i]).0 == k,
        nall == 0 ==> gs.len() == 0,
        it.index@ > 0 ==> keys_of(it.seq()) == gs,
        index == idx_hits(p, m, gs, it.index@).len(),
        rlist@ == to_keys(page(idx_hits(p, m, gs, it.index@), off, lim), *tenant),
        idx_hits(p, m, gs, nall).len() <= usize::MAX,
@@ ConfigIndex::query_config_page loop 1 body_entry
    broadcast use group_btree_axioms;
    broadcast use axiom_btree_set_iter_increasing;
    proof {
        lemma_iter_keys_sorted(it.seq(), m);
        assert(keys_of(it.seq())[it.index@] == *it.seq()[it.index@].0);
        lemma_idx_hits_mono(p, m, gs, it.index@ + 1, nall);
    }
    let ghost gi = it.index@;
    let ghost hprev = idx_hits(p, m, gs, gi);
    let ghost ds = sorted_seq(m[*g]@);
@@ ConfigIndex::query_config_page loop 2
    invariant ord_lawful::<K>(), m == self.group_data@, gs == sorted_seq(m.dom()), p == *param, off == offset, lim == limit,
        end_index == off + lim,
        hprev == idx_hits(p, m, gs, gi), 0 <= gi < gs.len(), *g == gs[gi], grp_match(p, *g), m.contains_key(*g), *set == m[*g],
        ds == sorted_seq(m[*g]@),
        it2.seq().unref().to_set() == set@, it2.seq().len() == set@.len(), increasing_seq(it2.seq().unref()),
        it2.index@ > 0 ==> it2.seq().unref() == ds,
        index == (hprev + grp_hits(p, *g, ds, it2.index@)).len(),
        rlist@ == to_keys(page(hprev + grp_hits(p, *g, ds, it2.index@), off, lim), *tenant),
        (hprev + grp_hits(p, *g, ds, set@.len() as int)).len() <= usize::MAX,
@@ ConfigIndex::query_config_page loop 2 body_entry
    proof {
        lemma_is_sorted_seq(it2.seq().unref(), set@);
        assert(it2.seq().unref()[it2.index@] == *it2.seq()[it2.index@]);
        lemma_grp_hits_mono(p, *g, ds, it2.index@ + 1, set@.len() as int);
        let h = hprev + grp_hits(p, *g, ds, it2.index@);
        if did_match(p, *s) {
            assert(hprev + grp_hits(p, *g, ds, it2.index@ + 1) =~= h.push((*g, *s)));
            lemma_page_push(h, (*g, *s), off, lim);
            lemma_to_keys_push(page(h, off, lim), (*g, *s), *tenant);
        }
    }
@@ ConfigIndex::query_config_page before_loop 2
                proof {
                    assert(hprev + grp_hits(p, *g, ds, 0) =~= hprev);
                }
@@ ConfigIndex::query_config_page after_loop 2
                proof {
                    if set@.len() == 0 { }
                }
@@ ConfigKey::new_by_arc spec
    ensures r == (ConfigKey { data_id, group, tenant })
@@ TenantIndex::query_config_page t8 1
@@ TenantIndex::query_config_page foriter 1 it
@@ TenantIndex::query_config_page spec
    requires param.offset + param.limit <= usize::MAX, self.result_list(*param).len() <= usize::MAX,
        forall|t: K| #[trigger] self.tenant_group@.contains_key(t) ==> self.tenant_group@[t].hits(*param).len() <= usize::MAX,
    // C09: total = number of matches in the permitted namespaces; page = window [offset, offset+limit) of THE canonical list
    // C18: a namespace the privilege does not permit contributes nothing (result_list skips it)
    ensures ({
        // <<abstract:tenant_page   (unit config assumes exactly this text for its callee contract: [[same_block]])
        &&& r.0 == self.result_list(*param).len()
        &&& r.1@ == page(self.result_list(*param), param.offset as int, param.limit as int)
        // >>abstract
    }),
@@ TenantIndex::query_config_page entry
    broadcast use group_btree_axioms;
    broadcast use group_std_extra;
    proof { axiom_arc_string_ord(); reveal_strlit(""); }
    let ghost tm = self.tenant_group@;
    let ghost ts = sorted_seq(tm.dom());
    let ghost p = *param;
    let ghost off = param.offset as int;
    let ghost lim0 = param.limit as int;
    let ghost nall = tm.dom().len() as int;
@@ TenantIndex::query_config_page before_loop 1
    proof {
        if tm.dom().len() == 0 { assert(tm.dom() =~= Set::<K>::empty()); lemma_sorted_empty(); }
    }
@@ TenantIndex::query_config_page loop 1
    invariant ord_lawful::<K>(), tm == self.tenant_group@, ts == sorted_seq(tm.dom()), p == *param, off == param.offset, lim0 == param.limit,
        nall == tm.dom().len(), param.tenant is None, off + lim0 <= usize::MAX,
        it.seq().len() == nall,
        increasing_seq(keys_of(it.seq())),
        forall|i: int| 0 <= i < it.seq().len() ==> tm.contains_key(*(#[trigger] it.seq()[i]).0) && *it.seq()[i].1 == tm[*it.seq()[i].0],
        forall|k: K| tm.contains_key(k) ==> exists|i: int| 0 <= i < it.seq().len() && *(#[trigger] it.seq()[i]).0 == k,
        nall == 0 ==> ts.len() == 0,
        it.index@ > 0 ==> keys_of(it.seq()) == ts,
        size == ten_hits(p, tm, ts, it.index@).len(),
        rlist@ == page(ten_hits(p, tm, ts, it.index@), off, lim0),
        limit == lim0 - rlist@.len(),
        offset == off - imin(off, ten_hits(p, tm, ts, it.index@).len() as int),
        ten_hits(p, tm, ts, nall).len() <= usize::MAX,
        forall|t: K| #[trigger] tm.contains_key(t) ==> tm[t].hits(p).len() <= usize::MAX,
@@ TenantIndex::query_config_page loop 1 body_entry
    broadcast use group_btree_axioms;
    broadcast use group_std_extra;
    proof {
        reveal_strlit("");
        lemma_iter_keys_sorted(it.seq(), tm);
        assert(keys_of(it.seq())[it.index@] == *it.seq()[it.index@].0);
        lemma_ten_hits_mono(p, tm, ts, it.index@ + 1, nall);
        let prev = ten_hits(p, tm, ts, it.index@);
        lemma_page_concat(prev, to_keys(tm[*tenant].hits(p), *tenant), off, lim0);
    }
