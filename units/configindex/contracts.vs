@@ ConfigIndex::new external
@@ ConfigIndex::new skip_body
@@ ConfigIndex::new spec
    ensures r.group_data@ == Map::<Arc<String>, BTreeSet<Arc<String>>>::empty()
@@ ConfigIndex::insert_config spec
    requires key_obeys_cmp_spec::<Arc<String>>(), old(self).wf()
    // C09: the index gains exactly this (group, data id); the answer says whether it was new
    ensures final(self).wf(), final(self)@ == old(self)@.insert((group, config)), r == !old(self)@.contains((group, config)),
        final(self).group_data@.dom() == old(self).group_data@.dom().insert(group),
@@ ConfigIndex::remove_config spec
    requires key_obeys_cmp_spec::<Arc<String>>(), old(self).wf()
    ensures final(self).wf(), final(self)@ == old(self)@.remove((*group, *config)), r.0 == old(self)@.contains((*group, *config)),
        r.1 == final(self).group_data@.dom().len(),
@@ TenantIndex::notify_namespace_change external
@@ TenantIndex::notify_namespace_change skip_body
@@ TenantIndex::notify_namespace_change spec
@@ TenantIndex::do_insert_config spec
    requires key_obeys_cmp_spec::<Arc<String>>(), old(self).wf(), old(self).size < usize::MAX
    ensures final(self).wf(), final(self)@ == old(self)@.insert(ConfigKey { data_id, group, tenant }),
        r == !old(self)@.contains(ConfigKey { data_id, group, tenant }),
        final(self).size == old(self).size + (if r { 1int } else { 0int }),
@@ TenantIndex::do_remove_config spec
    requires key_obeys_cmp_spec::<Arc<String>>(), old(self).wf(), old(self).size > 0 || !old(self)@.contains(ConfigKey { data_id: *data_id, group: *group, tenant: *tenant })
    ensures final(self).wf(), final(self)@ == old(self)@.remove(ConfigKey { data_id: *data_id, group: *group, tenant: *tenant }),
        r == old(self)@.contains(ConfigKey { data_id: *data_id, group: *group, tenant: *tenant }),
        final(self).size == old(self).size - (if r { 1int } else { 0int }),
@@ TenantIndex::insert_config spec
    requires key_obeys_cmp_spec::<Arc<String>>(), old(self).wf(), old(self).size < usize::MAX
    // C09 (this is the contract unit config assumes): the listing index gains exactly this key
    ensures final(self).wf(), final(self)@ == old(self)@.insert(key), r == !old(self)@.contains(key),
        final(self).size == old(self).size + (if r { 1int } else { 0int }),
@@ TenantIndex::remove_config spec
    requires key_obeys_cmp_spec::<Arc<String>>(), old(self).wf(), old(self).size > 0 || !old(self)@.contains(*key)
    ensures final(self).wf(), final(self)@ == old(self)@.remove(*key), r == old(self)@.contains(*key),
        final(self).size == old(self).size - (if r { 1int } else { 0int }),
@@ TenantIndex::do_remove_config entry
    let ghost k0 = ConfigKey { data_id: *data_id, group: *group, tenant: *tenant };
    let ghost v0 = self@;
    let ghost m0 = self.tenant_group@;
@@ TenantIndex::do_remove_config after_call remove_config 1
            proof {
                assert(m0.contains_key(*tenant));
                assert(config_index@ =~= m0[*tenant]@.remove((*group, *data_id)));
                if group_size == 0 { assert(forall|p: GD| !config_index@.contains(p)); }
            }
@@ TenantIndex::do_remove_config before_tail
    proof {
        let mf = self.tenant_group@;
        assert forall|k: ConfigKey| self@.contains(k) <==> v0.remove(k0).contains(k) by {
            assert(self@.contains(k) == (mf.contains_key(k.tenant) && mf[k.tenant]@.contains((k.group, k.data_id))));
            assert(v0.contains(k) == (m0.contains_key(k.tenant) && m0[k.tenant]@.contains((k.group, k.data_id))));
            assert(v0.remove(k0).contains(k) == (v0.contains(k) && k != k0));
            if k.tenant == *tenant {
                assert(k == k0 <==> (k.group, k.data_id) == (*group, *data_id));
                if m0.contains_key(*tenant) && !mf.contains_key(*tenant) {
                    assert(!m0[*tenant]@.remove((*group, *data_id)).contains((k.group, k.data_id)));
                }
            }
        }
        assert(self@ =~= v0.remove(k0));
    }
@@ ConfigQueryParam::match_group external
@@ ConfigQueryParam::match_group skip_body
@@ ConfigQueryParam::match_group spec
    // assumed (T7): deref coercions &Arc<String> -> &str, str::rfind; only "a deterministic predicate of (query, group)" is used
    ensures r == grp_match(*self, *g)
@@ ConfigQueryParam::match_data_id external
@@ ConfigQueryParam::match_data_id skip_body
@@ ConfigQueryParam::match_data_id spec
    ensures r == did_match(*self, *s)
@@ ConfigIndex::query_config_page t8 1
@@ ConfigIndex::query_config_page t8p 2
@@ ConfigIndex::query_config_page foriter 1 it
@@ ConfigIndex::query_config_page foriter 2 it2
@@ ConfigIndex::query_config_page spec
    requires param.offset + limit <= usize::MAX, self.hits(*param).len() <= usize::MAX
    // C09: the total is the number of stored (group, data id) pairs that match; the page is the window [offset, offset+limit)
    // of THE canonical list of matches (groups increasing, data ids increasing) — so pages of one search tile it exactly
    ensures r.0 == self.hits(*param).len(),
        r.1@ == to_keys(page(self.hits(*param), param.offset as int, limit as int), *tenant),
@@ ConfigIndex::query_config_page entry
    broadcast use group_btree_axioms;
    proof { axiom_arc_string_ord(); }
    let ghost m = self.group_data@;
    let ghost gs = sorted_seq(m.dom());
    let ghost p = *param;
    let ghost off = param.offset as int;
    let ghost lim = limit as int;
@@ ConfigIndex::query_config_page loop 1
    invariant ord_lawful::<K>(), m == self.group_data@, gs == sorted_seq(m.dom()), p == *param, off == param.offset, lim == limit,
        end_index == off + lim,
        it.seq().len() == gs.len(), gs.len() == m.dom().len(),
        forall|i: int| 0 <= i < gs.len() ==> *(#[trigger] it.seq()[i]).0 == gs[i] && m.contains_key(gs[i]) && *it.seq()[i].1 == m[gs[i]],
        index == idx_hits(p, m, gs, it.index@).len(),
        rlist@ == to_keys(page(idx_hits(p, m, gs, it.index@), off, lim), *tenant),
        idx_hits(p, m, gs, gs.len() as int).len() <= usize::MAX,
@@ ConfigIndex::query_config_page loop 2
    invariant ord_lawful::<K>(), m == self.group_data@, gs == sorted_seq(m.dom()), p == *param, off == param.offset, lim == limit,
        end_index == off + lim,
        hprev == idx_hits(p, m, gs, gi), 0 <= gi < gs.len(), *g == gs[gi], grp_match(p, *g),
        ds == sorted_seq(m[*g]@), it2.seq().unref() == ds, ds.len() == m[*g]@.len(),
        index == (hprev + grp_hits(p, *g, ds, it2.index@)).len(),
        rlist@ == to_keys(page(hprev + grp_hits(p, *g, ds, it2.index@), off, lim), *tenant),
        (hprev + grp_hits(p, *g, ds, ds.len() as int)).len() <= usize::MAX,
