verus! {
pub struct NamespaceActor {}
#[verifier::external_body]
#[verifier::reject_recursive_types(A)]
pub struct Addr<A> { inner: core::marker::PhantomData<A> }
} // verus!
