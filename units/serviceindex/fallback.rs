// Bounded stand-in for unit serviceindex (C09 / C18): the unit's contracts replayed natively on the real code over a bounded
// input space.  Runs only when the deductive check is undecided on the current source (and in the thorough tier).
// Never counted as proved.
use super::*;
use crate::common::model::privilege::PrivilegeGroup;
use std::collections::HashSet;

fn all_keys() -> Vec<ServiceKey> {
    let mut v = vec![];
    for t in ["public", "tb"] { for g in ["ga", "gb"] { for d in ["app1", "app2", "web1"] { v.push(ServiceKey::new(t, g, d)); } } }
    v
}

/// the canonical list: tenants, groups, data ids in increasing order; filtered by the real match functions and the privilege
fn reference(stored: &[ServiceKey], q: &ServiceQueryParam) -> Vec<ServiceKey> {
    let mut s: Vec<ServiceKey> = stored.to_vec();
    s.sort_by(|a, b| (a.namespace_id.as_str(), a.group_name.as_str(), a.service_name.as_str()).cmp(&(b.namespace_id.as_str(), b.group_name.as_str(), b.service_name.as_str())));
    s.into_iter()
        .filter(|k| match &q.namespace_id { Some(t) => &k.namespace_id == t, None => true })
        .filter(|k| q.namespace_privilege.check_permission(&k.namespace_id))
        .filter(|k| q.match_group(&k.group_name) && q.match_service(&k.service_name))
        .collect()
}

fn privileges() -> Vec<NamespacePrivilegeGroup> {
    let set = |v: &[&str]| -> Option<Arc<HashSet<Arc<String>>>> { Some(Arc::new(v.iter().map(|s| Arc::new(s.to_string())).collect())) };
    vec![
        NamespacePrivilegeGroup::new(PrivilegeGroup::all()),
        NamespacePrivilegeGroup::new(PrivilegeGroup::new(1, set(&["tb"]), None)),        // whitelist {tb}
        NamespacePrivilegeGroup::new(PrivilegeGroup::new(1 | 2, None, set(&["tb"]))),    // everything but tb
        NamespacePrivilegeGroup::new(PrivilegeGroup::new(1 | 2, None, set(&[""]))),      // everything but the default namespace
    ]
}

#[test]
fn vx_fallback_serviceindex() {
    let keys = all_keys();
    let n = keys.len();
    let privs = privileges();
    let mut checked = 0u64;
    // every subset of the 12 keys with at most 7 members (3302 index states), built by inserts (+ a remove/re-insert pass)
    for mask in 0u32..(1u32 << n) {
        if mask.count_ones() > 7 { continue; }
        let mut index = NamespaceIndex::new();
        let mut stored = vec![];
        for (i, k) in keys.iter().enumerate() {
            if mask & (1 << i) != 0 {
                assert!(index.insert_service(k.clone()), "VX-FALLBACK insert of a new key {:?} answered false", k);
                assert!(!index.insert_service(k.clone()), "VX-FALLBACK second insert of {:?} answered true", k);
                stored.push(k.clone());
            }
        }
        if mask % 5 == 0 {
            for k in keys.iter() {
                let had = stored.contains(k);
                assert!(index.remove_service(k) == had, "VX-FALLBACK remove_service({:?}) answer", k);
                if had { assert!(index.insert_service(k.clone())); }
            }
        }
        assert!(index.service_size == stored.len(), "VX-FALLBACK size {} for {} stored keys", index.service_size, stored.len());
        let filters: Vec<(Option<&str>, Option<&str>, Option<&str>, Option<&str>)> = vec![
            (None, None, None, None), (None, None, None, Some("app")), (None, None, Some("ga"), Some("1")), (Some("gb"), None, None, None), (None, Some("app1"), None, None),
        ];
        for (pi, pr) in privs.iter().enumerate() {
            if pi > 0 && mask % 3 != 0 { continue; }
            for tenant in [None, Some("public"), Some("tb")] {
                for (g, d, lg, ld) in filters.iter() {
                    for limit in [1usize, 2, 3, 100] {
                        let mut pages: Vec<ServiceKey> = vec![];
                        let mut offset = 0usize;
                        loop {
                            let q = ServiceQueryParam {
                                namespace_id: tenant.map(|t| Arc::new(t.to_string())), group: g.map(|s| Arc::new(s.to_string())), service: d.map(|s| Arc::new(s.to_string())),
                                like_group: lg.map(|s| s.to_string()), like_service: ld.map(|s| s.to_string()),
                                namespace_privilege: pr.clone(), offset, limit,
                            };
                            let want_all = reference(&stored, &q);
                            let (total, page) = index.query_service_page(&q);
                            checked += 1;
                            assert!(total == want_all.len(), "VX-FALLBACK total {} != {} for stored={:?} query={:?}", total, want_all.len(), stored, q);
                            let lo = offset.min(want_all.len());
                            let hi = (offset + limit).min(want_all.len());
                            assert!(page == want_all[lo..hi].to_vec(), "VX-FALLBACK page {:?} != window [{}, {}) of {:?} for query={:?}", page, lo, hi, want_all, q);
                            pages.extend(page);
                            offset += limit;
                            if offset >= want_all.len() + limit { break; }
                        }
                    }
                }
            }
        }
    }
    assert!(checked > 100_000, "only {} queries checked", checked);
}
