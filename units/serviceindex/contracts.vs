@@ ServiceIndex::new external
@@ ServiceIndex::new skip_body
@@ ServiceIndex::new spec
    ensures r.group_service@ == Map::<Arc<String>, BTreeSet<Arc<String>>>::empty(), r.service_size == 0
@@ ServiceIndex::insert_service spec
    requires key_obeys_cmp_spec::<Arc<String>>(), old(self).wf(), old(self).service_size < usize::MAX
    // C09: the index gains exactly this (group, data id); the answer says whether it was new
    ensures final(self).wf(), final(self)@ == old(self)@.insert((group, service)), r == !old(self)@.contains((group, service)),
        final(self).group_service@.dom() == old(self).group_service@.dom().insert(group),
@@ ServiceIndex::remove_service spec
    requires key_obeys_cmp_spec::<Arc<String>>(), old(self).wf(), old(self).service_size > 0 || !old(self)@.contains((*group, *service))
    ensures final(self).wf(), final(self)@ == old(self)@.remove((*group, *service)), r.0 == old(self)@.contains((*group, *service)),
        r.1 == final(self).group_service@.dom().len(),
@@ NamespaceIndex::notify_namespace_change external
@@ NamespaceIndex::notify_namespace_change skip_body
@@ NamespaceIndex::notify_namespace_change spec
@@ NamespaceIndex::do_insert_service spec
    requires key_obeys_cmp_spec::<Arc<String>>(), old(self).wf(), old(self).service_size < usize::MAX,
        old(self).namespace_group@.contains_key(namespace_id) ==> old(self).namespace_group@[namespace_id].service_size < usize::MAX,
    ensures final(self).wf(), final(self)@ == old(self)@.insert(ServiceKey { namespace_id, group_name: group, service_name: service }),
        r == !old(self)@.contains(ServiceKey { namespace_id, group_name: group, service_name: service }),
        final(self).service_size == old(self).service_size + (if r { 1int } else { 0int }),
@@ NamespaceIndex::do_remove_service spec
    requires key_obeys_cmp_spec::<Arc<String>>(), old(self).wf(), old(self).service_size > 0 || !old(self)@.contains(ServiceKey { namespace_id: *namespace_id, group_name: *group, service_name: *service }),
        old(self).namespace_group@.contains_key(*namespace_id) ==> (old(self).namespace_group@[*namespace_id].service_size > 0
            || !old(self).namespace_group@[*namespace_id]@.contains((*group, *service))),
    ensures final(self).wf(), final(self)@ == old(self)@.remove(ServiceKey { namespace_id: *namespace_id, group_name: *group, service_name: *service }),
        r == old(self)@.contains(ServiceKey { namespace_id: *namespace_id, group_name: *group, service_name: *service }),
        final(self).service_size == old(self).service_size - (if r { 1int } else { 0int }),
@@ NamespaceIndex::insert_service spec
    requires key_obeys_cmp_spec::<Arc<String>>(), old(self).wf(), old(self).service_size < usize::MAX,
        old(self).namespace_group@.contains_key(key.namespace_id) ==> old(self).namespace_group@[key.namespace_id].service_size < usize::MAX,
    // C09 (this is the contract unit config assumes): the listing index gains exactly this key
    ensures final(self).wf(), final(self)@ == old(self)@.insert(key), r == !old(self)@.contains(key),
        final(self).service_size == old(self).service_size + (if r { 1int } else { 0int }),
@@ NamespaceIndex::remove_service spec
    requires key_obeys_cmp_spec::<Arc<String>>(), old(self).wf(), old(self).service_size > 0 || !old(self)@.contains(*key),
        old(self).namespace_group@.contains_key(key.namespace_id) ==> (old(self).namespace_group@[key.namespace_id].service_size > 0
            || !old(self).namespace_group@[key.namespace_id]@.contains((key.group_name, key.service_name))),
    ensures final(self).wf(), final(self)@ == old(self)@.remove(*key), r == old(self)@.contains(*key),
        final(self).service_size == old(self).service_size - (if r { 1int } else { 0int }),
@@ NamespaceIndex::do_remove_service entry
    let ghost k0 = ServiceKey { namespace_id: *namespace_id, group_name: *group, service_name: *service };
    let ghost v0 = self@;
    let ghost m0 = self.namespace_group@;
@@ NamespaceIndex::do_remove_service after_call remove_service 1
            proof {
                assert(m0.contains_key(*namespace_id));
                assert(service_index@ =~= m0[*namespace_id]@.remove((*group, *service)));
                if group_size == 0 { assert(forall|p: GD| !service_index@.contains(p)); }
            }
@@ NamespaceIndex::do_remove_service before_tail
    proof {
        let mf = self.namespace_group@;
        assert forall|k: ServiceKey| self@.contains(k) <==> v0.remove(k0).contains(k) by {
            assert(self@.contains(k) == (mf.contains_key(k.namespace_id) && mf[k.namespace_id]@.contains((k.group_name, k.service_name))));
            assert(v0.contains(k) == (m0.contains_key(k.namespace_id) && m0[k.namespace_id]@.contains((k.group_name, k.service_name))));
            assert(v0.remove(k0).contains(k) == (v0.contains(k) && k != k0));
            if k.namespace_id == *namespace_id {
                assert(k == k0 <==> (k.group_name, k.service_name) == (*group, *service));
                if m0.contains_key(*namespace_id) && !mf.contains_key(*namespace_id) {
                    assert(!m0[*namespace_id]@.remove((*group, *service)).contains((k.group_name, k.service_name)));
                }
            }
        }
        assert(self@ =~= v0.remove(k0));
    }
@@ ServiceQueryParam::match_group external
@@ ServiceQueryParam::match_group skip_body
@@ ServiceQueryParam::match_group spec
    // assumed (T7): deref coercions &Arc<String> -> &str, str::rfind; only "a deterministic predicate of (query, group)" is used
    ensures r == grp_match(*self, *g)
@@ ServiceQueryParam::match_service external
@@ ServiceQueryParam::match_service skip_body
@@ ServiceQueryParam::match_service spec
    ensures r == svc_match(*self, *s)
@@ ServiceIndex::query_service_page t8 1
@@ ServiceIndex::query_service_page t8p 2
@@ ServiceIndex::query_service_page foriter 1 it
@@ ServiceIndex::query_service_page foriter 2 it2
@@ ServiceIndex::query_service_page spec
    requires offset + limit <= usize::MAX, self.hits(*param).len() <= usize::MAX
    // C09: the total is the number of stored (group, data id) pairs that match; the page is the window [offset, offset+limit)
    // of THE canonical list of matches (groups increasing, data ids increasing) — so pages of one search tile it exactly
    ensures r.0 == self.hits(*param).len(),
        r.1@ == to_keys(page(self.hits(*param), offset as int, limit as int), *namespace_id),
@@ ServiceIndex::query_service_page entry
    broadcast use group_btree_axioms;
    broadcast use axiom_btree_set_iter_increasing;
    proof { axiom_arc_string_ord(); }
    let ghost m = self.group_service@;
    let ghost gs = sorted_seq(m.dom());
    let ghost p = *param;
    let ghost off = offset as int;
    let ghost lim = limit as int;
    let ghost nall = m.dom().len() as int;
@@ ServiceIndex::query_service_page before_loop 1
    proof {
        if m.dom().len() == 0 { assert(m.dom() =~= Set::<K>::empty()); lemma_sorted_empty(); }
    }
@@ ServiceIndex::query_service_page loop 1
    invariant ord_lawful::<K>(), m == self.group_service@, gs == sorted_seq(m.dom()), p == *param, off == offset, lim == limit,
        end_index == off + lim, nall == m.dom().len(),
        it.seq().len() == nall,
        increasing_seq(keys_of(it.seq())),
        forall|i: int| 0 <= i < it.seq().len() ==> m.contains_key(*(#[trigger] it.seq()[i]).0) && *it.seq()[i].1 == m[*it.seq()[i].0],
        forall|k: K| m.contains_key(k) ==> exists|i: int| 0 <= i < it.seq().len() && *(#[trigger] it.seq()[i]).0 == k,
        nall == 0 ==> gs.len() == 0,
        it.index@ > 0 ==> keys_of(it.seq()) == gs,
        index == idx_hits(p, m, gs, it.index@).len(),
        rlist@ == to_keys(page(idx_hits(p, m, gs, it.index@), off, lim), *namespace_id),
        idx_hits(p, m, gs, nall).len() <= usize::MAX,
@@ ServiceIndex::query_service_page loop 1 body_entry
    broadcast use group_btree_axioms;
    broadcast use axiom_btree_set_iter_increasing;
    proof {
        lemma_iter_keys_sorted(it.seq(), m);
        assert(keys_of(it.seq())[it.index@] == *it.seq()[it.index@].0);
        lemma_idx_hits_mono(p, m, gs, it.index@ + 1, nall);
    }
    let ghost gi = it.index@;
    let ghost hprev = idx_hits(p, m, gs, gi);
    let ghost ds = sorted_seq(m[*g]@);
@@ ServiceIndex::query_service_page loop 2
    invariant ord_lawful::<K>(), m == self.group_service@, gs == sorted_seq(m.dom()), p == *param, off == offset, lim == limit,
        end_index == off + lim,
        hprev == idx_hits(p, m, gs, gi), 0 <= gi < gs.len(), *g == gs[gi], grp_match(p, *g), m.contains_key(*g), *set == m[*g],
        ds == sorted_seq(m[*g]@),
        it2.seq().unref().to_set() == set@, it2.seq().len() == set@.len(), increasing_seq(it2.seq().unref()),
        it2.index@ > 0 ==> it2.seq().unref() == ds,
        index == (hprev + grp_hits(p, *g, ds, it2.index@)).len(),
        rlist@ == to_keys(page(hprev + grp_hits(p, *g, ds, it2.index@), off, lim), *namespace_id),
        (hprev + grp_hits(p, *g, ds, set@.len() as int)).len() <= usize::MAX,
@@ ServiceIndex::query_service_page loop 2 body_entry
    proof {
        lemma_is_sorted_seq(it2.seq().unref(), set@);
        assert(it2.seq().unref()[it2.index@] == *it2.seq()[it2.index@]);
        lemma_grp_hits_mono(p, *g, ds, it2.index@ + 1, set@.len() as int);
        let h = hprev + grp_hits(p, *g, ds, it2.index@);
        if svc_match(p, *s) {
            assert(hprev + grp_hits(p, *g, ds, it2.index@ + 1) =~= h.push((*g, *s)));
            lemma_page_push(h, (*g, *s), off, lim);
            lemma_to_keys_push(page(h, off, lim), (*g, *s), *namespace_id);
        }
    }
@@ ServiceIndex::query_service_page before_loop 2
                proof {
                    assert(hprev + grp_hits(p, *g, ds, 0) =~= hprev);
                }
@@ ServiceIndex::query_service_page after_loop 2
                proof {
                    if set@.len() == 0 { }
                }
@@ ServiceKey::new_by_arc spec
    ensures r == (ServiceKey { namespace_id, group_name, service_name })
@@ NamespaceIndex::query_service_page t8 1
@@ NamespaceIndex::query_service_page foriter 1 it
@@ NamespaceIndex::query_service_page spec
    requires param.offset + param.limit <= usize::MAX, self.result_list(*param).len() <= usize::MAX,
        forall|t: K| #[trigger] self.namespace_group@.contains_key(t) ==> self.namespace_group@[t].hits(*param).len() <= usize::MAX,
    // C09: total = number of matches in the permitted namespaces; page = window [offset, offset+limit) of THE canonical list
    // C18: a namespace the privilege does not permit contributes nothing (result_list skips it)
    ensures r.0 == self.result_list(*param).len(),
        r.1@ == page(self.result_list(*param), param.offset as int, param.limit as int),
@@ NamespaceIndex::query_service_page entry
    broadcast use group_btree_axioms;
    broadcast use group_std_extra;
    proof { axiom_arc_string_ord(); reveal_strlit(""); }
    let ghost tm = self.namespace_group@;
    let ghost ts = sorted_seq(tm.dom());
    let ghost p = *param;
    let ghost off = param.offset as int;
    let ghost lim0 = param.limit as int;
    let ghost nall = tm.dom().len() as int;
@@ NamespaceIndex::query_service_page before_loop 1
    proof {
        if tm.dom().len() == 0 { assert(tm.dom() =~= Set::<K>::empty()); lemma_sorted_empty(); }
    }
@@ NamespaceIndex::query_service_page loop 1
    invariant ord_lawful::<K>(), tm == self.namespace_group@, ts == sorted_seq(tm.dom()), p == *param, off == param.offset, lim0 == param.limit,
        nall == tm.dom().len(), param.namespace_id is None, off + lim0 <= usize::MAX,
        it.seq().len() == nall,
        increasing_seq(keys_of(it.seq())),
        forall|i: int| 0 <= i < it.seq().len() ==> tm.contains_key(*(#[trigger] it.seq()[i]).0) && *it.seq()[i].1 == tm[*it.seq()[i].0],
        forall|k: K| tm.contains_key(k) ==> exists|i: int| 0 <= i < it.seq().len() && *(#[trigger] it.seq()[i]).0 == k,
        nall == 0 ==> ts.len() == 0,
        it.index@ > 0 ==> keys_of(it.seq()) == ts,
        size == ten_hits(p, tm, ts, it.index@).len(),
        rlist@ == page(ten_hits(p, tm, ts, it.index@), off, lim0),
        limit == lim0 - rlist@.len(),
        offset == off - imin(off, ten_hits(p, tm, ts, it.index@).len() as int),
        ten_hits(p, tm, ts, nall).len() <= usize::MAX,
        forall|t: K| #[trigger] tm.contains_key(t) ==> tm[t].hits(p).len() <= usize::MAX,
@@ NamespaceIndex::query_service_page loop 1 body_entry
    broadcast use group_btree_axioms;
    broadcast use group_std_extra;
    proof {
        reveal_strlit("");
        lemma_iter_keys_sorted(it.seq(), tm);
        assert(keys_of(it.seq())[it.index@] == *it.seq()[it.index@].0);
        lemma_ten_hits_mono(p, tm, ts, it.index@ + 1, nall);
        let prev = ten_hits(p, tm, ts, it.index@);
        lemma_page_concat(prev, to_keys(tm[*namespace_id].hits(p), *namespace_id), off, lim0);
    }
