verus! {

pub type GD = (Arc<String>, Arc<String>);   // (group, data_id)

impl ServiceIndex {
    /// the (group, data_id) pairs the index holds
    pub open spec fn view(&self) -> ISet<GD> {
        ISet::new(|p: GD| self.group_service@.contains_key(p.0) && self.group_service@[p.0]@.contains(p.1))
    }
    /// no group is kept without a data id (a group entry disappears with its last member)
    pub open spec fn wf(&self) -> bool {
        forall|g: Arc<String>| #[trigger] self.group_service@.contains_key(g) ==> self.group_service@[g]@.len() > 0
    }
}

impl NamespaceIndex {
    /// the keys the listing index holds
    pub open spec fn view(&self) -> ISet<ServiceKey> {
        ISet::new(|k: ServiceKey| self.namespace_group@.contains_key(k.namespace_id) && self.namespace_group@[k.namespace_id]@.contains((k.group_name, k.service_name)))
    }
    /// no tenant is kept without a config; every per-tenant index is well formed
    pub open spec fn wf(&self) -> bool {
        &&& forall|t: Arc<String>| #[trigger] self.namespace_group@.contains_key(t) ==> self.namespace_group@[t].wf() && self.namespace_group@[t].group_service@.dom().len() > 0
    }
}


// ------------------------------------------------------------------ paged listing (C09: exactly once, correct totals; C18: permitted tenants only)
pub type K = Arc<String>;

/// the search predicates of a query (what "matches" means — exact / substring — is not decided here; see unit.toml)
pub uninterp spec fn grp_match(p: ServiceQueryParam, g: K) -> bool;
pub uninterp spec fn svc_match(p: ServiceQueryParam, d: K) -> bool;

/// THE increasing enumeration of a finite set of keys (unique: lemma_sorted_unique)
pub open spec fn sorted_seq(s: Set<K>) -> Seq<K> { choose|q: Seq<K>| increasing_seq(q) && q.to_set() == s }

/// matching members of group g among the first n of its member list ds, in list order
pub open spec fn grp_hits(p: ServiceQueryParam, g: K, ds: Seq<K>, n: int) -> Seq<GD>
    decreases n
{
    if n <= 0 { Seq::empty() } else {
        let prev = grp_hits(p, g, ds, n - 1);
        if svc_match(p, ds[n - 1]) { prev.push((g, ds[n - 1])) } else { prev }
    }
}

/// matching (group, data id) pairs of the first n groups of gs, groups in list order, members in increasing order
pub open spec fn idx_hits(p: ServiceQueryParam, m: Map<K, BTreeSet<K>>, gs: Seq<K>, n: int) -> Seq<GD>
    decreases n
{
    if n <= 0 { Seq::empty() } else {
        let prev = idx_hits(p, m, gs, n - 1);
        let g = gs[n - 1];
        if grp_match(p, g) { prev + grp_hits(p, g, sorted_seq(m[g]@), m[g]@.len() as int) } else { prev }
    }
}

impl ServiceIndex {
    /// the canonical result list of a search: groups in increasing order, data ids in increasing order inside a group
    pub open spec fn hits(&self, p: ServiceQueryParam) -> Seq<GD> {
        idx_hits(p, self.group_service@, sorted_seq(self.group_service@.dom()), self.group_service@.dom().len() as int)
    }
}

/// keys of a BTreeMap iterator's (key, value) sequence
pub open spec fn keys_of<V>(s: Seq<(&K, &V)>) -> Seq<K> { s.map_values(|p: (&K, &V)| *p.0) }

/// a BTreeMap iterator's key sequence IS sorted_seq(dom)
pub proof fn lemma_iter_keys_sorted<V>(s: Seq<(&K, &V)>, m: Map<K, V>)
    requires ord_lawful::<K>(), increasing_seq(keys_of(s)), s.len() == m.dom().len(),
        forall|i: int| 0 <= i < s.len() ==> m.contains_key(*(#[trigger] s[i]).0),
        forall|k: K| m.contains_key(k) ==> exists|i: int| 0 <= i < s.len() && *(#[trigger] s[i]).0 == k,
    ensures keys_of(s) == sorted_seq(m.dom()), sorted_seq(m.dom()).len() == m.dom().len(),
{
    let q = keys_of(s);
    assert(q.to_set() =~= m.dom()) by {
        assert forall|k: K| q.to_set().contains(k) <==> m.dom().contains(k) by {
            if q.contains(k) { let i = choose|i: int| 0 <= i < q.len() && q[i] == k; assert(*s[i].0 == k); }
            if m.contains_key(k) { let i = choose|i: int| 0 <= i < s.len() && *(#[trigger] s[i]).0 == k; assert(q[i] == k); }
        }
    }
    lemma_is_sorted_seq(q, m.dom());
}

pub proof fn lemma_sorted_empty()
    requires ord_lawful::<K>()
    ensures sorted_seq(Set::<K>::empty()) == Seq::<K>::empty()
{
    broadcast use group_btree_axioms;
    let e = Seq::<K>::empty();
    assert(increasing_seq(e));
    assert(e.to_set() =~= Set::<K>::empty());
    lemma_is_sorted_seq(e, Set::<K>::empty());
}

pub proof fn lemma_grp_hits_mono(p: ServiceQueryParam, g: K, ds: Seq<K>, a: int, b: int)
    requires a <= b
    ensures grp_hits(p, g, ds, a).len() <= grp_hits(p, g, ds, b).len()
    decreases b - a
{
    if a < b { lemma_grp_hits_mono(p, g, ds, a, b - 1); }
}

pub proof fn lemma_idx_hits_mono(p: ServiceQueryParam, m: Map<K, BTreeSet<K>>, gs: Seq<K>, a: int, b: int)
    requires a <= b
    ensures idx_hits(p, m, gs, a).len() <= idx_hits(p, m, gs, b).len()
    decreases b - a
{
    if a < b { lemma_idx_hits_mono(p, m, gs, a, b - 1); }
}

// ------------------------------------------------------------------ across tenants
pub open spec fn the_default_key() -> K { choose|dk: K| (#[trigger] (*dk)@) == ""@ }

/// C18: the namespace privilege decision for a tenant (both spellings of the default namespace are the one default key)
pub open spec fn ns_ok(npg: NamespacePrivilegeGroup, t: K) -> bool {
    if is_def_ns((*t)@) { npg.0.permits(the_default_key()) } else { npg.0.permits(t) }
}

/// matching keys of the permitted ones among the first n tenants of ts
pub open spec fn ten_hits(p: ServiceQueryParam, tm: Map<K, ServiceIndex>, ts: Seq<K>, n: int) -> Seq<ServiceKey>
    decreases n
{
    if n <= 0 { Seq::empty() } else {
        let prev = ten_hits(p, tm, ts, n - 1);
        let t = ts[n - 1];
        if ns_ok(p.namespace_privilege, t) { prev + to_keys(tm[t].hits(p), t) } else { prev }
    }
}

impl NamespaceIndex {
    /// the canonical result list of a search over all tenants: permitted tenants in increasing order, then ServiceIndex::hits
    pub open spec fn all_hits(&self, p: ServiceQueryParam) -> Seq<ServiceKey> {
        ten_hits(p, self.namespace_group@, sorted_seq(self.namespace_group@.dom()), self.namespace_group@.dom().len() as int)
    }
    /// the canonical result list of a search: one tenant if the query names one, all permitted tenants otherwise
    pub open spec fn result_list(&self, p: ServiceQueryParam) -> Seq<ServiceKey> {
        match p.namespace_id {
            Some(t) => if ns_ok(p.namespace_privilege, t) && self.namespace_group@.contains_key(t) { to_keys(self.namespace_group@[t].hits(p), t) } else { Seq::empty() },
            None => self.all_hits(p),
        }
    }
}

pub proof fn lemma_ten_hits_mono(p: ServiceQueryParam, tm: Map<K, ServiceIndex>, ts: Seq<K>, a: int, b: int)
    requires a <= b
    ensures ten_hits(p, tm, ts, a).len() <= ten_hits(p, tm, ts, b).len()
    decreases b - a
{
    if a < b { lemma_ten_hits_mono(p, tm, ts, a, b - 1); }
}

/// the window of a concatenation: what is left of the offset / of the limit after the first part goes to the second
pub proof fn lemma_page_concat<T>(a: Seq<T>, b: Seq<T>, off: int, lim: int)
    requires 0 <= off, 0 <= lim
    ensures page(a + b, off, lim) == page(a, off, lim) + page(b, off - imin(off, a.len() as int), lim - page(a, off, lim).len())
{
    assert(page(a + b, off, lim) =~= page(a, off, lim) + page(b, off - imin(off, a.len() as int), lim - page(a, off, lim).len()));
}


// ------------------------------------------------------------------ what the canonical lists mean (C09 "exactly once", C18 "never from a forbidden namespace")
pub open spec fn kleq(a: K, b: K) -> bool { a.cmp_spec(&b) != core::cmp::Ordering::Greater }

/// every finite set of keys has an increasing enumeration, so sorted_seq(s) is one
pub proof fn lemma_sorted_exists(s: Set<K>)
    requires ord_lawful::<K>()
    ensures increasing_seq(sorted_seq(s)), sorted_seq(s).to_set() == s, sorted_seq(s).no_duplicates(), sorted_seq(s).len() == s.len()
{
    broadcast use group_btree_axioms;
    let leq = |a: K, b: K| kleq(a, b);
    let q0 = s.to_seq();
    s.lemma_to_seq_to_set_id();
    s.lemma_to_seq_no_duplicates();
    assert(vstd::relations::total_ordering(leq)) by {
        assert(vstd::relations::reflexive(leq));
        assert(vstd::relations::antisymmetric(leq)) by {
            assert forall|x: K, y: K| #[trigger] leq(x, y) && #[trigger] leq(y, x) implies x == y by {
                if x.cmp_spec(&y) == core::cmp::Ordering::Less { assert(y.cmp_spec(&x) == core::cmp::Ordering::Greater); }
            }
        }
        assert(vstd::relations::transitive(leq)) by {
            assert forall|x: K, y: K, z: K| #[trigger] leq(x, y) && #[trigger] leq(y, z) implies leq(x, z) by {
                if x.cmp_spec(&y) == core::cmp::Ordering::Equal { assert(x == y); }
                else if y.cmp_spec(&z) == core::cmp::Ordering::Equal { assert(y == z); }
                else { assert(x.cmp_spec(&z) == core::cmp::Ordering::Less); }
            }
        }
        assert(vstd::relations::strongly_connected(leq)) by {
            assert forall|x: K, y: K| #[trigger] leq(x, y) || #[trigger] leq(y, x) by {
                if x.cmp_spec(&y) == core::cmp::Ordering::Greater { assert(y.cmp_spec(&x) == core::cmp::Ordering::Less); }
            }
        }
    }
    let q = q0.sort_by(leq);
    q0.lemma_sort_by_ensures(leq);
    assert(q.to_set() =~= s) by {
        assert forall|x: K| q.to_set().contains(x) <==> s.contains(x) by {
            broadcast use vstd::seq_lib::group_to_multiset_ensures;
            assert(q.contains(x) <==> q.to_multiset().count(x) > 0);
            assert(q0.contains(x) <==> q0.to_multiset().count(x) > 0);
        }
    }
    assert(q.no_duplicates()) by {
        q0.lemma_multiset_has_no_duplicates();
        q.lemma_multiset_has_no_duplicates_conv();
    }
    assert(increasing_seq(q)) by {
        assert forall|i: int, j: int| 0 <= i < j < q.len() implies q[i].cmp_spec(&q[j]) == core::cmp::Ordering::Less by {
            assert(leq(q[i], q[j]));
            assert(q[i] != q[j]);
            if q[i].cmp_spec(&q[j]) == core::cmp::Ordering::Equal { assert(q[i] == q[j]); }
        }
    }
    lemma_is_sorted_seq(q, s);
}

pub open spec fn gd_match(p: ServiceQueryParam, x: GD) -> bool { grp_match(p, x.0) && svc_match(p, x.1) }

pub proof fn lemma_grp_hits(p: ServiceQueryParam, g: K, ds: Seq<K>, n: int)
    requires ds.no_duplicates(), 0 <= n <= ds.len()
    ensures grp_hits(p, g, ds, n).no_duplicates(),
        forall|x: GD| #[trigger] grp_hits(p, g, ds, n).contains(x) <==> (x.0 == g && svc_match(p, x.1) && exists|i: int| 0 <= i < n && ds[i] == x.1),
    decreases n
{
    if n > 0 {
        lemma_grp_hits(p, g, ds, n - 1);
        let prev = grp_hits(p, g, ds, n - 1);
        let y = (g, ds[n - 1]);
        if svc_match(p, ds[n - 1]) {
            let cur = prev.push(y);
            assert(!prev.contains(y)) by {
                if prev.contains(y) { let i = choose|i: int| 0 <= i < n - 1 && ds[i] == y.1; assert(ds[i] == ds[n - 1]); }
            }
            assert(cur.no_duplicates()) by {
                assert forall|a: int, b: int| 0 <= a < cur.len() && 0 <= b < cur.len() && a != b implies cur[a] != cur[b] by {
                    if a < prev.len() && b < prev.len() { assert(prev[a] != prev[b]); }
                    else if a < prev.len() { assert(prev.contains(prev[a])); }
                    else { assert(prev.contains(prev[b])); }
                }
            }
            assert forall|x: GD| #[trigger] cur.contains(x) <==> (x.0 == g && svc_match(p, x.1) && exists|i: int| 0 <= i < n && ds[i] == x.1) by {
                if cur.contains(x) {
                    let k = choose|k: int| 0 <= k < cur.len() && cur[k] == x;
                    if k < prev.len() { assert(prev.contains(x)); let i = choose|i: int| 0 <= i < n - 1 && ds[i] == x.1; assert(0 <= i < n && ds[i] == x.1); }
                    else { assert(x == y); assert(ds[n - 1] == x.1); }
                }
                if x.0 == g && svc_match(p, x.1) && exists|i: int| 0 <= i < n && ds[i] == x.1 {
                    let i = choose|i: int| 0 <= i < n && ds[i] == x.1;
                    if i < n - 1 { assert(prev.contains(x)); let k = choose|k: int| 0 <= k < prev.len() && prev[k] == x; assert(cur[k] == x); }
                    else { assert(x == y); assert(cur[prev.len() as int] == x); }
                }
            }
        } else {
            assert forall|x: GD| #[trigger] prev.contains(x) <==> (x.0 == g && svc_match(p, x.1) && exists|i: int| 0 <= i < n && ds[i] == x.1) by {
                if x.0 == g && svc_match(p, x.1) && exists|i: int| 0 <= i < n && ds[i] == x.1 {
                    let i = choose|i: int| 0 <= i < n && ds[i] == x.1;
                    assert(i < n - 1);
                }
                if prev.contains(x) { let i = choose|i: int| 0 <= i < n - 1 && ds[i] == x.1; assert(0 <= i < n && ds[i] == x.1); }
            }
        }
    } else {
        assert forall|x: GD| !(#[trigger] grp_hits(p, g, ds, n).contains(x)) by {}
    }
}

/// concatenation of two duplicate-free lists without a common element is duplicate free
pub proof fn lemma_concat_nodup<T>(a: Seq<T>, b: Seq<T>)
    requires a.no_duplicates(), b.no_duplicates(), forall|x: T| a.contains(x) ==> !b.contains(x)
    ensures (a + b).no_duplicates(), forall|x: T| #[trigger] (a + b).contains(x) <==> (a.contains(x) || b.contains(x))
{
    let c = a + b;
    assert forall|i: int, j: int| 0 <= i < c.len() && 0 <= j < c.len() && i != j implies c[i] != c[j] by {
        if i < a.len() && j >= a.len() { assert(a.contains(a[i])); assert(b.contains(b[j - a.len()])); }
        if j < a.len() && i >= a.len() { assert(a.contains(a[j])); assert(b.contains(b[i - a.len()])); }
    }
    assert forall|x: T| #[trigger] c.contains(x) <==> (a.contains(x) || b.contains(x)) by {
        if c.contains(x) { let k = choose|k: int| 0 <= k < c.len() && c[k] == x; if k < a.len() { assert(a[k] == x); } else { assert(b[k - a.len()] == x); } }
        if a.contains(x) { let k = choose|k: int| 0 <= k < a.len() && a[k] == x; assert(c[k] == x); }
        if b.contains(x) { let k = choose|k: int| 0 <= k < b.len() && b[k] == x; assert(c[k + a.len()] == x); }
    }
}

pub proof fn lemma_idx_hits(p: ServiceQueryParam, m: Map<K, BTreeSet<K>>, gs: Seq<K>, n: int)
    requires ord_lawful::<K>(), gs.no_duplicates(), 0 <= n <= gs.len()
    ensures idx_hits(p, m, gs, n).no_duplicates(),
        forall|x: GD| #[trigger] idx_hits(p, m, gs, n).contains(x) <==> (gd_match(p, x) && m[x.0]@.contains(x.1) && exists|i: int| 0 <= i < n && gs[i] == x.0),
    decreases n
{
    if n > 0 {
        lemma_idx_hits(p, m, gs, n - 1);
        let prev = idx_hits(p, m, gs, n - 1);
        let g = gs[n - 1];
        if grp_match(p, g) {
            let ds = sorted_seq(m[g]@);
            lemma_sorted_exists(m[g]@);
            let part = grp_hits(p, g, ds, m[g]@.len() as int);
            lemma_grp_hits(p, g, ds, ds.len() as int);
            assert forall|x: GD| prev.contains(x) implies !part.contains(x) by {
                if part.contains(x) { let i = choose|i: int| 0 <= i < n - 1 && gs[i] == x.0; assert(gs[i] == gs[n - 1]); }
            }
            lemma_concat_nodup(prev, part);
            assert forall|x: GD| #[trigger] (prev + part).contains(x) <==> (gd_match(p, x) && m[x.0]@.contains(x.1) && exists|i: int| 0 <= i < n && gs[i] == x.0) by {
                if part.contains(x) {
                    let i = choose|i: int| 0 <= i < ds.len() && ds[i] == x.1;
                    assert(ds.to_set().contains(ds[i]));
                    assert(gs[n - 1] == x.0);
                }
                if prev.contains(x) { let i = choose|i: int| 0 <= i < n - 1 && gs[i] == x.0; assert(0 <= i < n && gs[i] == x.0); }
                if gd_match(p, x) && m[x.0]@.contains(x.1) && exists|i: int| 0 <= i < n && gs[i] == x.0 {
                    let i = choose|i: int| 0 <= i < n && gs[i] == x.0;
                    if i < n - 1 { assert(prev.contains(x)); }
                    else {
                        assert(ds.to_set().contains(x.1));
                        let j = choose|j: int| 0 <= j < ds.len() && ds[j] == x.1;
                        assert(part.contains(x));
                    }
                }
            }
        } else {
            assert forall|x: GD| #[trigger] prev.contains(x) <==> (gd_match(p, x) && m[x.0]@.contains(x.1) && exists|i: int| 0 <= i < n && gs[i] == x.0) by {
                if gd_match(p, x) && m[x.0]@.contains(x.1) && exists|i: int| 0 <= i < n && gs[i] == x.0 {
                    let i = choose|i: int| 0 <= i < n && gs[i] == x.0;
                    assert(i < n - 1);
                }
                if prev.contains(x) { let i = choose|i: int| 0 <= i < n - 1 && gs[i] == x.0; assert(0 <= i < n && gs[i] == x.0); }
            }
        }
    } else {
        assert forall|x: GD| !(#[trigger] idx_hits(p, m, gs, n).contains(x)) by {}
    }
}

impl ServiceIndex {
    /// C09: the canonical list of a search holds every stored (group, data id) that matches, each exactly once, and nothing else
    pub proof fn lemma_hits_exactly_once(&self, p: ServiceQueryParam)
        ensures self.hits(p).no_duplicates(),
            forall|x: GD| #[trigger] self.hits(p).contains(x) <==> (self@.contains(x) && gd_match(p, x)),
    {
        axiom_arc_string_ord();
        let m = self.group_service@;
        lemma_sorted_exists(m.dom());
        let gs = sorted_seq(m.dom());
        lemma_idx_hits(p, m, gs, gs.len() as int);
        assert forall|x: GD| #[trigger] self.hits(p).contains(x) <==> (self@.contains(x) && gd_match(p, x)) by {
            if self.hits(p).contains(x) { let i = choose|i: int| 0 <= i < gs.len() && gs[i] == x.0; assert(gs.to_set().contains(gs[i])); }
            if self@.contains(x) && gd_match(p, x) { assert(gs.to_set().contains(x.0)); let i = choose|i: int| 0 <= i < gs.len() && gs[i] == x.0; }
        }
    }
}


pub proof fn lemma_to_keys(s: Seq<GD>, t: K)
    requires s.no_duplicates()
    ensures to_keys(s, t).no_duplicates(),
        forall|k: ServiceKey| #[trigger] to_keys(s, t).contains(k) <==> (k.namespace_id == t && s.contains((k.group_name, k.service_name))),
{
    let q = to_keys(s, t);
    assert forall|i: int, j: int| 0 <= i < q.len() && 0 <= j < q.len() && i != j implies q[i] != q[j] by {
        assert(s[i] != s[j]);
    }
    assert forall|k: ServiceKey| #[trigger] q.contains(k) <==> (k.namespace_id == t && s.contains((k.group_name, k.service_name))) by {
        if q.contains(k) { let i = choose|i: int| 0 <= i < q.len() && q[i] == k; assert(s[i] == (k.group_name, k.service_name)); }
        if k.namespace_id == t && s.contains((k.group_name, k.service_name)) { let i = choose|i: int| 0 <= i < s.len() && s[i] == (k.group_name, k.service_name); assert(q[i] == k); }
    }
}

pub open spec fn key_match(p: ServiceQueryParam, k: ServiceKey) -> bool { gd_match(p, (k.group_name, k.service_name)) }

pub proof fn lemma_ten_hits(p: ServiceQueryParam, tm: Map<K, ServiceIndex>, ts: Seq<K>, n: int)
    requires ord_lawful::<K>(), ts.no_duplicates(), 0 <= n <= ts.len()
    ensures ten_hits(p, tm, ts, n).no_duplicates(),
        forall|k: ServiceKey| #[trigger] ten_hits(p, tm, ts, n).contains(k) <==> (ns_ok(p.namespace_privilege, k.namespace_id) && key_match(p, k)
            && tm[k.namespace_id]@.contains((k.group_name, k.service_name)) && exists|i: int| 0 <= i < n && ts[i] == k.namespace_id),
    decreases n
{
    if n > 0 {
        lemma_ten_hits(p, tm, ts, n - 1);
        let prev = ten_hits(p, tm, ts, n - 1);
        let t = ts[n - 1];
        if ns_ok(p.namespace_privilege, t) {
            tm[t].lemma_hits_exactly_once(p);
            lemma_to_keys(tm[t].hits(p), t);
            let part = to_keys(tm[t].hits(p), t);
            assert forall|k: ServiceKey| prev.contains(k) implies !part.contains(k) by {
                if part.contains(k) { let i = choose|i: int| 0 <= i < n - 1 && ts[i] == k.namespace_id; assert(ts[i] == ts[n - 1]); }
            }
            lemma_concat_nodup(prev, part);
            assert forall|k: ServiceKey| #[trigger] (prev + part).contains(k) <==> (ns_ok(p.namespace_privilege, k.namespace_id) && key_match(p, k)
                    && tm[k.namespace_id]@.contains((k.group_name, k.service_name)) && exists|i: int| 0 <= i < n && ts[i] == k.namespace_id) by {
                if part.contains(k) { assert(ts[n - 1] == k.namespace_id); }
                if prev.contains(k) { let i = choose|i: int| 0 <= i < n - 1 && ts[i] == k.namespace_id; assert(0 <= i < n && ts[i] == k.namespace_id); }
                if ns_ok(p.namespace_privilege, k.namespace_id) && key_match(p, k) && tm[k.namespace_id]@.contains((k.group_name, k.service_name)) && exists|i: int| 0 <= i < n && ts[i] == k.namespace_id {
                    let i = choose|i: int| 0 <= i < n && ts[i] == k.namespace_id;
                    if i < n - 1 { assert(prev.contains(k)); } else { assert(tm[t].hits(p).contains((k.group_name, k.service_name))); assert(part.contains(k)); }
                }
            }
        } else {
            assert forall|k: ServiceKey| #[trigger] prev.contains(k) <==> (ns_ok(p.namespace_privilege, k.namespace_id) && key_match(p, k)
                    && tm[k.namespace_id]@.contains((k.group_name, k.service_name)) && exists|i: int| 0 <= i < n && ts[i] == k.namespace_id) by {
                if ns_ok(p.namespace_privilege, k.namespace_id) && exists|i: int| 0 <= i < n && ts[i] == k.namespace_id {
                    let i = choose|i: int| 0 <= i < n && ts[i] == k.namespace_id;
                    assert(i < n - 1);
                }
                if prev.contains(k) { let i = choose|i: int| 0 <= i < n - 1 && ts[i] == k.namespace_id; assert(0 <= i < n && ts[i] == k.namespace_id); }
            }
        }
    } else {
        assert forall|k: ServiceKey| !(#[trigger] ten_hits(p, tm, ts, n).contains(k)) by {}
    }
}

impl NamespaceIndex {
    /// C09 + C18: the canonical result list of a search holds every stored key that matches the search and lies in a namespace
    /// the privilege permits (and is the named one, if the query names one) — each exactly once — and nothing else
    pub proof fn lemma_result_exactly_once(&self, p: ServiceQueryParam)
        ensures self.result_list(p).no_duplicates(),
            forall|k: ServiceKey| #[trigger] self.result_list(p).contains(k) <==> (self@.contains(k) && key_match(p, k) && ns_ok(p.namespace_privilege, k.namespace_id)
                && (p.namespace_id is Some ==> k.namespace_id == p.namespace_id.unwrap())),
    {
        axiom_arc_string_ord();
        let tm = self.namespace_group@;
        let r = self.result_list(p);
        match p.namespace_id {
            Some(t) => {
                if ns_ok(p.namespace_privilege, t) && tm.contains_key(t) {
                    tm[t].lemma_hits_exactly_once(p);
                    lemma_to_keys(tm[t].hits(p), t);
                    assert forall|k: ServiceKey| #[trigger] r.contains(k) <==> (self@.contains(k) && key_match(p, k) && ns_ok(p.namespace_privilege, k.namespace_id) && k.namespace_id == t) by {}
                } else {
                    assert forall|k: ServiceKey| !(#[trigger] r.contains(k)) by {}
                }
            }
            None => {
                lemma_sorted_exists(tm.dom());
                let ts = sorted_seq(tm.dom());
                lemma_ten_hits(p, tm, ts, ts.len() as int);
                assert forall|k: ServiceKey| #[trigger] r.contains(k) <==> (self@.contains(k) && key_match(p, k) && ns_ok(p.namespace_privilege, k.namespace_id)) by {
                    if r.contains(k) { let i = choose|i: int| 0 <= i < ts.len() && ts[i] == k.namespace_id; assert(ts.to_set().contains(ts[i])); }
                    if self@.contains(k) { assert(ts.to_set().contains(k.namespace_id)); let i = choose|i: int| 0 <= i < ts.len() && ts[i] == k.namespace_id; }
                }
            }
        }
    }
}

/// the windows of one list tile it: consecutive pages concatenate to the bigger window, and the window [0, len) is the list
pub proof fn lemma_page_tile<T>(s: Seq<T>, off: int, a: int, b: int)
    requires 0 <= off, 0 <= a, 0 <= b
    ensures page(s, off, a) + page(s, off + a, b) == page(s, off, a + b), page(s, 0, s.len() as int) == s
{
    assert(page(s, off, a) + page(s, off + a, b) =~= page(s, off, a + b));
    assert(page(s, 0, s.len() as int) =~= s);
}

pub open spec fn imin(a: int, b: int) -> int { if a < b { a } else { b } }

/// the window [off, off+lim) of a list
pub open spec fn page<T>(s: Seq<T>, off: int, lim: int) -> Seq<T> { s.subrange(imin(off, s.len() as int), imin(off + lim, s.len() as int)) }

pub open spec fn to_key(x: GD, tenant: K) -> ServiceKey { ServiceKey { namespace_id: tenant, group_name: x.0, service_name: x.1 } }
pub open spec fn to_keys(s: Seq<GD>, tenant: K) -> Seq<ServiceKey> { s.map_values(|x: GD| to_key(x, tenant)) }

pub proof fn lemma_page_push<T>(s: Seq<T>, x: T, off: int, lim: int)
    requires 0 <= off, 0 <= lim
    ensures page(s.push(x), off, lim) == (if off <= s.len() < off + lim { page(s, off, lim).push(x) } else { page(s, off, lim) })
{
    let n = s.len() as int;
    if off <= n < off + lim {
        assert(page(s.push(x), off, lim) =~= page(s, off, lim).push(x));
    } else {
        assert(page(s.push(x), off, lim) =~= page(s, off, lim));
    }
}

pub proof fn lemma_to_keys_push(s: Seq<GD>, x: GD, tenant: K)
    ensures to_keys(s.push(x), tenant) == to_keys(s, tenant).push(to_key(x, tenant))
{
    assert(to_keys(s.push(x), tenant) =~= to_keys(s, tenant).push(to_key(x, tenant)));
}

/// two increasing enumerations of the same set are the same list
pub proof fn lemma_sorted_unique(a: Seq<K>, b: Seq<K>)
    requires ord_lawful::<K>(), increasing_seq(a), increasing_seq(b), a.to_set() == b.to_set()
    ensures a == b
    decreases a.len()
{
    broadcast use group_btree_axioms;
    lemma_increasing_nodup(a);
    lemma_increasing_nodup(b);
    a.unique_seq_to_set();
    b.unique_seq_to_set();
    assert(a.len() == b.len());
    if a.len() == 0 {
        assert(a =~= b);
    } else {
        let x = a.last();
        let y = b.last();
        assert(a.to_set().contains(x));
        assert(b.to_set().contains(y));
        let j = choose|j: int| 0 <= j < b.len() && b[j] == x;
        let i = choose|i: int| 0 <= i < a.len() && a[i] == y;
        if j < b.len() - 1 {
            assert(x.cmp_spec(&y) == core::cmp::Ordering::Less);
            if i < a.len() - 1 { assert(y.cmp_spec(&x) == core::cmp::Ordering::Less); }
        }
        assert(x == y);
        let a1 = a.drop_last();
        let b1 = b.drop_last();
        assert(increasing_seq(a1)) by { assert forall|p: int, q: int| 0 <= p < q < a1.len() implies a1[p].cmp_spec(&a1[q]) == core::cmp::Ordering::Less by { assert(a1[p] == a[p] && a1[q] == a[q]); } }
        assert(increasing_seq(b1)) by { assert forall|p: int, q: int| 0 <= p < q < b1.len() implies b1[p].cmp_spec(&b1[q]) == core::cmp::Ordering::Less by { assert(b1[p] == b[p] && b1[q] == b[q]); } }
        assert(a1.to_set() =~= a.to_set().remove(x)) by {
            assert forall|e: K| a1.to_set().contains(e) <==> a.to_set().remove(x).contains(e) by {
                if a1.contains(e) { let p = choose|p: int| 0 <= p < a1.len() && a1[p] == e; assert(a[p] == e); }
                if a.contains(e) && e != x { let p = choose|p: int| 0 <= p < a.len() && a[p] == e; assert(a1[p] == e); }
            }
        }
        assert(b1.to_set() =~= b.to_set().remove(y)) by {
            assert forall|e: K| b1.to_set().contains(e) <==> b.to_set().remove(y).contains(e) by {
                if b1.contains(e) { let p = choose|p: int| 0 <= p < b1.len() && b1[p] == e; assert(b[p] == e); }
                if b.contains(e) && e != y { let p = choose|p: int| 0 <= p < b.len() && b[p] == e; assert(b1[p] == e); }
            }
        }
        lemma_sorted_unique(a1, b1);
        assert(a =~= a1.push(x));
        assert(b =~= b1.push(y));
    }
}

pub proof fn lemma_increasing_nodup(a: Seq<K>)
    requires ord_lawful::<K>(), increasing_seq(a)
    ensures a.no_duplicates()
{
    broadcast use group_btree_axioms;
    assert forall|i: int, j: int| 0 <= i < a.len() && 0 <= j < a.len() && i != j implies a[i] != a[j] by {
        if i < j { assert(a[i].cmp_spec(&a[j]) == core::cmp::Ordering::Less); } else { assert(a[j].cmp_spec(&a[i]) == core::cmp::Ordering::Less); }
    }
}

/// an increasing enumeration of s IS sorted_seq(s)
pub proof fn lemma_is_sorted_seq(q: Seq<K>, s: Set<K>)
    requires ord_lawful::<K>(), increasing_seq(q), q.to_set() == s
    ensures q == sorted_seq(s), sorted_seq(s).len() == s.len(), q.no_duplicates()
{
    let w = sorted_seq(s);
    assert(increasing_seq(w) && w.to_set() == s);
    lemma_sorted_unique(q, w);
    lemma_increasing_nodup(q);
    q.unique_seq_to_set();
}

} // verus!
