// Bounded stand-in (always run, labelled bounded, never counted as proved) for the HANDLER half of C18:
// the console handlers are actix extractor functions built around macros (user_namespace_privilege!, user_no_namespace_permission!)
// — outside Verus.  The REAL console route table (web_config::console_config) is mounted on an actix test service behind a
// stub login layer that attaches the session of a namespace-restricted user (what CheckLoginMiddleware does after a login).
// Every namespace-scoped route x method x way of naming a forbidden namespace must be REFUSED before any data is touched.
use super::*;
use crate::common::model::privilege::PrivilegeGroup;
use crate::common::model::UserSession;
use crate::common::AppSysConfig;
use crate::starter::{build_share_data, config_factory};
use crate::web_config::console_config;
use actix_web::dev::Service;
use actix_web::http::StatusCode;
use actix_web::test as atest;
use actix_web::{web::Data, App, HttpMessage};
use std::collections::HashSet;

fn console_routes() -> Vec<String> {
    let text = include_str!(concat!(env!("CARGO_MANIFEST_DIR"), "/src/console/api.rs"));
    let scope_re = regex::Regex::new(r#"web::scope\("([^"]*)"\)"#).unwrap();
    let res_re = regex::Regex::new(r#"web::resource\("([^"]*)"\)"#).unwrap();
    let mut scope = String::new();
    let mut out = vec![];
    for line in text.lines() {
        if let Some(c) = scope_re.captures(line) { scope = c[1].to_string(); }
        for c in res_re.captures_iter(line) { out.push(format!("{}{}", scope, &c[1])); }
    }
    out
}

/// routes whose operations are about configurations, services, instances, namespaces or MCP entries of ONE namespace
fn namespace_scoped(route: &str) -> bool {
    let r = &route["/rnacos/api/console".len()..];
    let r = r.strip_prefix("/v2").unwrap_or(r);
    ["/cs/", "/ns/", "/config", "/service", "/instance", "/namespaces", "/mcp"].iter().any(|p| r.starts_with(p))
        && !r.starts_with("/namespaces/list") && r != "/namespaces"   // namespace LIST endpoints answer with the filtered list (checked below)
}

#[test]
fn vx_bounded_c18_handlers() {
    let dir = tempfile::tempdir().unwrap();
    let mut cfg = AppSysConfig::init_from_env();
    cfg.local_db_dir = dir.path().join("nacos_db").to_string_lossy().to_string();
    cfg.raft_auto_init = false;
    cfg.metrics_enable = false;
    cfg.naming_instance_metadata_persistence_enable = false;
    let cfg = Arc::new(cfg);
    let routes: Vec<String> = console_routes().into_iter().filter(|r| namespace_scoped(r)).collect();
    assert!(routes.len() >= 25, "only {} namespace-scoped console routes recognised", routes.len());
    let failures: Vec<String> = actix_rt::System::new().block_on(async move {
        let factory_data = config_factory(cfg.clone()).await.unwrap();
        let app_data = build_share_data(factory_data).unwrap();
        let set = |v: &[&str]| -> Option<Arc<HashSet<Arc<String>>>> { Some(Arc::new(v.iter().map(|s| Arc::new(s.to_string())).collect())) };
        // (privilege of the user, a namespace it must not touch)
        let users: Vec<(&str, PrivilegeGroup<Arc<String>>, &str)> = vec![
            ("whitelist {ns-a}", PrivilegeGroup::new(1, set(&["ns-a"]), None), "ns-b"),
            ("all but {ns-b}", PrivilegeGroup::new(1 | 2, None, set(&["ns-b"])), "ns-b"),
            ("whitelist {ns-a, ns-b}, blacklist {ns-b}", PrivilegeGroup::new(1, set(&["ns-a", "ns-b"]), set(&["ns-b"])), "ns-b"),
        ];
        let mut bad = vec![];
        let mut probes = 0usize;
        let mut refused_pairs: HashSet<String> = HashSet::new();
        let mut skipped_pairs: HashSet<String> = HashSet::new();
        for (who, privilege, forbidden) in users.iter() {
            let session = Arc::new(UserSession { username: Arc::new("dev".to_string()), nickname: None, roles: vec![Arc::new("1".to_string())],
                namespace_privilege: Some(privilege.clone()), extend_infos: Default::default(), refresh_time: 0 });
            let app = atest::init_service(
                App::new()
                    .app_data(Data::new(app_data.clone()))
                    .app_data(Data::new(app_data.config_addr.clone()))
                    .app_data(Data::new(app_data.naming_addr.clone()))
                    .app_data(Data::new(app_data.bi_stream_manage.clone()))
                    .wrap_fn(move |req, srv| { req.extensions_mut().insert(session.clone()); srv.call(req) })
                    .configure(console_config),
            )
            .await;
            for route in routes.iter() {
                for method in ["GET", "POST", "PUT", "DELETE"] {
                    let ns = *forbidden;
                    let pairs = format!("tenant={ns}&namespaceId={ns}&namespace_id={ns}&namespace={ns}&dataId=d&group=g&serviceName=s&groupName=g&ip=1.1.1.1&port=80&content=c&namespaceName=n&pageNo=1&pageSize=10&id=1&serverKey=k&toolKey=t&toolName=t&toolVersion=1");
                    let json = format!("{{\"tenant\":\"{ns}\",\"namespaceId\":\"{ns}\",\"namespace\":\"{ns}\",\"dataId\":\"d\",\"group\":\"g\",\"serviceName\":\"s\",\"groupName\":\"g\",\"ip\":\"1.1.1.1\",\"port\":80,\"content\":\"c\",\"namespaceName\":\"n\",\"id\":1,\"toolKey\":\"t\",\"toolName\":\"t\",\"toolVersion\":1,\"serverKey\":\"k\",\"name\":\"n\"}}");
                    // a request that names NO namespace is about the default namespace (listing routes excepted: they answer with the
                    // permitted part): a user who may not touch the default namespace must be refused there as well
                    let listing = route.ends_with("/list") || route.ends_with("/configs") || route.ends_with("/ns/services") || route.ends_with("/download") || route.ends_with("/history");
                    let default_forbidden = who.starts_with("whitelist {ns-a}");
                    let bare = "dataId=d&group=g&serviceName=s&groupName=g&ip=1.1.1.1&port=80&content=c&namespaceName=n&pageNo=1&pageSize=10&id=1&serverKey=k&toolKey=t&toolName=t&toolVersion=1";
                    for how in ["query", "form", "json", "omitted"] {
                        if how == "omitted" && (listing || !default_forbidden) { continue; }
                        let mut req = match method { "GET" => atest::TestRequest::get(), "POST" => atest::TestRequest::post(), "PUT" => atest::TestRequest::put(), _ => atest::TestRequest::delete() };
                        req = match how {
                            "query" => req.uri(&format!("{}?{}", route, pairs)),
                            "form" => req.uri(&format!("{}?{}", route, pairs)).insert_header(("Content-Type", "application/x-www-form-urlencoded")).set_payload(pairs.clone()),
                            "omitted" => req.uri(&format!("{}?{}", route, bare)).insert_header(("Content-Type", "application/x-www-form-urlencoded")).set_payload(bare.to_string()),
                            _ => req.uri(&format!("{}?{}", route, pairs)).insert_header(("Content-Type", "application/json")).set_payload(json.clone()),
                        };
                        let resp = atest::call_service(&app, req.to_request()).await;
                        let status = resp.status();
                        let body = String::from_utf8_lossy(&atest::read_body(resp).await).to_string();
                        probes += 1;
                        let refused = body.contains("NO_NAMESPACE_PERMISSION") || body.contains("no such namespace permission");
                        let absent = (status == StatusCode::NOT_FOUND && body.is_empty()) || status == StatusCode::METHOD_NOT_ALLOWED;
                        // the request never reached the handler body: actix extractor rejected this encoding (another encoding of the same route is tried too)
                        let not_exercised = status == StatusCode::BAD_REQUEST && ["Content type error", "deserialize error", "Multipart boundary", "No Content-Type", "Query deserialize", "Parse error"].iter().any(|m| body.contains(m));
                        if refused { refused_pairs.insert(format!("{} {}", method, route)); }
                        if not_exercised { skipped_pairs.insert(format!("{} {}", method, route)); }
                        if !(refused || absent || not_exercised) {
                            bad.push(format!("VX-BOUNDED-FAIL {} {} [{} via {}; user: {}] answered {} {:?}", method, route, ns, how, who, status, &body[..body.len().min(90)]));
                        }
                    }
                }
            }
        }
        if probes < 1500 { bad.push(format!("VX-BOUNDED only {} probes", probes)); }
        if refused_pairs.len() < 15 { bad.push(format!("VX-BOUNDED only {} (method, route) pairs were seen to refuse: the sweep does not exercise the checks", refused_pairs.len())); }
        let never: Vec<&String> = skipped_pairs.iter().filter(|p| !refused_pairs.contains(*p) && !bad.iter().any(|b: &String| b.contains(p.as_str()))).collect();
        println!("VX-BOUNDED-INFO {} probes, {} pairs refused, {} pairs only ever rejected by the extractors (not exercised): {:?}", probes, refused_pairs.len(), never.len(), never);
        bad
    });
    // one line per (method, route): the same gap shows up for every user / encoding
    let mut keys: Vec<String> = failures.iter().map(|l| l.split(" [").next().unwrap_or(l).to_string()).collect();
    keys.sort(); keys.dedup();
    let mut detail: Vec<String> = vec![];
    for k in keys.iter() {
        let mut answers: Vec<String> = failures.iter().filter(|l| l.starts_with(k.as_str())).map(|l| l.split("] answered ").nth(1).unwrap_or("").to_string()).collect();
        answers.sort(); answers.dedup();
        detail.push(format!("{}  =>  {}", k, answers.join(" | ")));
    }
    assert!(failures.is_empty(), "{} failing request(s) on {} (method, route) pairs:\n{}", failures.len(), keys.len(), detail.join("\n"));
}
