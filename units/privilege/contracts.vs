@@ is_default_namespace spec
    ensures r == is_def_ns(namespace@)
@@ is_default_namespace entry
    proof { reveal_strlit("public"); reveal_strlit(""); assert(namespace@.len() == 0 <==> namespace@ =~= ""@); }
@@ PrivilegeGroup::new spec
    ensures r.enabled == (flags & 1 != 0), r.whitelist_is_all == (flags & 2 != 0), r.blacklist_is_all == (flags & 4 != 0),
        r.whitelist == whitelist, r.blacklist == blacklist,
@@ PrivilegeGroup::empty spec
    ensures forall|k: T| !r.permits(k)
@@ PrivilegeGroup::all spec
    ensures forall|k: T| r.permits(k)
@@ PrivilegeGroup::get_flags spec
    ensures r == self.flags(), r < 8,
        (r & 1 != 0) == self.enabled, (r & 2 != 0) == self.whitelist_is_all, (r & 4 != 0) == self.blacklist_is_all,
@@ PrivilegeGroup::set_flags spec
    ensures final(self).enabled == (flags & 1 != 0), final(self).whitelist_is_all == (flags & 2 != 0), final(self).blacklist_is_all == (flags & 4 != 0),
        final(self).whitelist == old(self).whitelist, final(self).blacklist == old(self).blacklist,
@@ PrivilegeGroup::at_whitelist spec
    requires vstd::std_specs::hash::obeys_key_model::<T>()
    ensures r == self.whitelisted(*key)
@@ PrivilegeGroup::at_blacklist spec
    requires vstd::std_specs::hash::obeys_key_model::<T>()
    ensures r == self.blacklisted(*key)
@@ PrivilegeGroup::check_permission spec
    requires vstd::std_specs::hash::obeys_key_model::<T>()
    ensures r == self.permits(*key)
@@ PrivilegeGroup::check_option_value_permission spec
    requires vstd::std_specs::hash::obeys_key_model::<T>()
    ensures r == (match key { Some(k) => self.permits(*k), None => empty_default })
@@ PrivilegeGroup::blacklist_is_empty spec
    ensures r ==> forall|k: T| !#[trigger] self.blacklisted(k)
@@ PrivilegeGroup::blacklist_is_empty entry
    proof { if self.blacklist is Some { lemma_len0_no_member(self.blacklist.unwrap()@); } }
@@ PrivilegeGroup::get_flags entry
    proof {
        assert(0u8 | 1 == 1 && 0u8 | 2 == 2 && 1u8 | 2 == 3 && 0u8 | 4 == 4 && 1u8 | 4 == 5 && 2u8 | 4 == 6 && 3u8 | 4 == 7) by(bit_vector);
        assert(0u8 & 1 == 0 && 1u8 & 1 != 0 && 2u8 & 1 == 0 && 3u8 & 1 != 0 && 4u8 & 1 == 0 && 5u8 & 1 != 0 && 6u8 & 1 == 0 && 7u8 & 1 != 0) by(bit_vector);
        assert(0u8 & 2 == 0 && 1u8 & 2 == 0 && 2u8 & 2 != 0 && 3u8 & 2 != 0 && 4u8 & 2 == 0 && 5u8 & 2 == 0 && 6u8 & 2 != 0 && 7u8 & 2 != 0) by(bit_vector);
        assert(0u8 & 4 == 0 && 1u8 & 4 == 0 && 2u8 & 4 == 0 && 3u8 & 4 == 0 && 4u8 & 4 != 0 && 5u8 & 4 != 0 && 6u8 & 4 != 0 && 7u8 & 4 != 0) by(bit_vector);
    }
@@ PrivilegeGroup::is_all spec
    ensures r ==> forall|k: T| #[trigger] self.permits(k)
@@ NamespacePrivilegeGroup::new spec
    ensures r.0 == inner
@@ NamespacePrivilegeGroup::check_permission spec
    // the default namespace ("" or "public") is mapped to the one default key, then treated like any other
    ensures
        !is_def_ns((**key)@) ==> r == self.0.permits(*key),
        is_def_ns((**key)@) ==> exists|dk: Arc<String>| (*dk)@ == ""@ && r == self.0.permits(dk),
@@ NamespacePrivilegeGroup::check_permission entry
    broadcast use group_std_extra;
    proof { reveal_strlit(""); }
@@ NamespacePrivilegeGroup::check_option_value_permission spec
    ensures match key {
            Some(k) => (!is_def_ns((**k)@) ==> r == self.0.permits(*k))
                && (is_def_ns((**k)@) ==> exists|dk: Arc<String>| (*dk)@ == ""@ && r == self.0.permits(dk)),
            None => r == empty_default,
        }
@@ NamespacePrivilegeGroup::is_all spec
    ensures r ==> forall|k: Arc<String>| self.0.permits(k)
