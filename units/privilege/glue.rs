// model of `bitflags! { pub struct PrivilegeGroupFlags: u8 { ENABLE=1; WHILE_LIST_IS_ALL=2; BLACK_LIST_IS_ALL=4 } }`
verus! {
#[derive(Clone, Copy)]
pub struct PrivilegeGroupFlags { pub v: u8 }
impl PrivilegeGroupFlags {
    pub const ENABLE: PrivilegeGroupFlags = PrivilegeGroupFlags { v: 0b00000001 };
    pub const WHILE_LIST_IS_ALL: PrivilegeGroupFlags = PrivilegeGroupFlags { v: 0b00000010 };
    pub const BLACK_LIST_IS_ALL: PrivilegeGroupFlags = PrivilegeGroupFlags { v: 0b00000100 };
    pub const fn bits(&self) -> (r: u8) ensures r == self.v { self.v }
}
}
