// Bounded stand-in (always run, labelled bounded, never counted as proved) for the way a namespace privilege reaches a console
// request (C18): the admin's privilege parameter is stored in the user record (flags + two string lists, prost round trip), the
// login builds the session from the stored record (UserDo -> UserDto::namespace_privilege -> UserSession), the handlers read it
// through user_namespace_privilege!.  The checks themselves (PrivilegeGroup / NamespacePrivilegeGroup::check_permission and the
// listing filters) are under contract in units privilege / configindex / serviceindex; the conversion chain is prost + macros.
// Every privilege group out of whitelist {all, empty, [dev], [dev, '' (the id of the default namespace)]} x blacklist {none, all, empty, [dev], [prod]} (with
// the restriction switched on): what the user is allowed / shown after store + login must be exactly what the statement gives
// for that group: whitelisted and not blacklisted, the blacklist wins, '' and 'public' are the same namespace.
use super::*;
use crate::common::model::privilege::{NamespacePrivilegeGroup, PrivilegeGroupOptionParam};
use crate::common::model::UserSession;
use crate::config::config_index::TenantIndex;
use crate::config::core::ConfigKey;
use crate::console::model::config_model::OpsConfigQueryListRequest;
use crate::console::model::naming_model::ServiceQueryListRequest;
use crate::naming::model::ServiceKey;
use crate::naming::service_index::NamespaceIndex;
use actix_web::HttpMessage;

/// The user record exactly as `UserManager::add_user` / `update_user` persist it for the
/// given console parameter (flags + the two string lists), after a store round trip.
fn vx_stored_user(name: &str, param: PrivilegeGroupOptionParam<Arc<String>>) -> UserDo {
    let mut group: PrivilegeGroup<Arc<String>> = PrivilegeGroup::all();
    group.whitelist = param.whitelist;
    group.blacklist = param.blacklist;
    if let Some(v) = param.whitelist_is_all {
        group.whitelist_is_all = v;
    }
    if let Some(v) = param.blacklist_is_all {
        group.blacklist_is_all = v;
    }
    let user_do = UserDo {
        username: name.to_owned(),
        nickname: name.to_owned(),
        enable: true,
        roles: vec!["2".to_owned()],
        namespace_privilege_flags: Some(group.get_flags() as u32),
        namespace_white_list: group
            .whitelist
            .unwrap_or_default()
            .iter()
            .map(|e| e.as_ref().to_owned())
            .collect(),
        namespace_black_list: group
            .blacklist
            .unwrap_or_default()
            .iter()
            .map(|e| e.as_ref().to_owned())
            .collect(),
        ..Default::default()
    };
    UserDo::from_bytes(&user_do.to_bytes()).unwrap()
}

/// What the console request of that user carries after login: the session built from the
/// stored record (login_api copies `UserDto::namespace_privilege` into the session).
fn vx_request_of(user_do: UserDo) -> actix_web::HttpRequest {
    let user: UserDto = user_do.into();
    let session = Arc::new(UserSession {
        username: user.username,
        nickname: user.nickname,
        roles: user.roles.unwrap_or_default(),
        extend_infos: user.extend_info.unwrap_or_default(),
        namespace_privilege: user.namespace_privilege,
        refresh_time: 0,
    });
    let req = actix_web::test::TestRequest::default().to_http_request();
    req.extensions_mut().insert(session);
    req
}

fn vx_set(items: &[&str]) -> Option<Arc<HashSet<Arc<String>>>> {
    Some(Arc::new(
        items.iter().map(|e| Arc::new((*e).to_owned())).collect(),
    ))
}

/// names of the namespaces the user is shown / allowed for: (config listing per named tenant,
/// naming listing with the namespace omitted, direct permission answers)
fn vx_visible(req: &actix_web::HttpRequest) -> (Vec<String>, Vec<String>, Vec<String>) {
    let mut configs = TenantIndex::new();
    configs.insert_config(ConfigKey::new("a.yaml", "DEFAULT_GROUP", ""));
    configs.insert_config(ConfigKey::new("b.yaml", "DEFAULT_GROUP", "dev"));
    configs.insert_config(ConfigKey::new("c.yaml", "DEFAULT_GROUP", "prod"));
    let mut services = NamespaceIndex::new();
    services.insert_service(ServiceKey::new("public", "DEFAULT_GROUP", "sa"));
    services.insert_service(ServiceKey::new("dev", "DEFAULT_GROUP", "sb"));
    services.insert_service(ServiceKey::new("prod", "DEFAULT_GROUP", "sc"));

    let mut config_seen = vec![];
    for tenant in ["public", "", "dev", "prod"] {
        let param = OpsConfigQueryListRequest {
            tenant: Some(tenant.to_owned()),
            ..Default::default()
        }
        .to_param(req)
        .unwrap();
        let (_, list) = configs.query_config_page(&param);
        for key in list {
            config_seen.push(format!("{}@{}", key.data_id, key.tenant));
        }
    }
    // naming listing with the namespace omitted: lists over every permitted namespace
    let param = ServiceQueryListRequest::default().to_param(req).unwrap();
    let (_, list) = services.query_service_page(&param);
    let service_seen = list
        .into_iter()
        .map(|k| format!("{}@{}", k.service_name, k.namespace_id))
        .collect();

    let privilege: NamespacePrivilegeGroup = crate::user_namespace_privilege!(req);
    let allowed = ["", "public", "dev", "prod"]
        .iter()
        .filter(|ns| privilege.check_permission(&Arc::new((**ns).to_owned())))
        .map(|ns| (*ns).to_owned())
        .collect();
    (config_seen, service_seen, allowed)
}


#[test]
fn vx_bounded_c18_stored_privilege() {
    let mut failures: Vec<String> = vec![];
    let whites: Vec<(&str, Option<bool>, Option<Vec<&str>>)> = vec![("white=all", Some(true), None), ("white=[]", Some(false), Some(vec![])), ("white=[dev]", Some(false), Some(vec!["dev"])), ("white=[dev,'']", Some(false), Some(vec!["dev", ""]))];
    let blacks: Vec<(&str, Option<bool>, Option<Vec<&str>>)> = vec![("black=none", None, None), ("black=all", Some(true), None), ("black=[]", Some(false), Some(vec![])), ("black=[dev]", Some(false), Some(vec!["dev"])), ("black=[prod]", Some(false), Some(vec!["prod"]))];
    let mut n = 0;
    for (wn, w_all, w_list) in whites.iter() { for (bn, b_all, b_list) in blacks.iter() {
        let param = PrivilegeGroupOptionParam { whitelist_is_all: *w_all, whitelist: w_list.as_ref().map(|l| vx_set(l)).flatten(), blacklist_is_all: *b_all, blacklist: b_list.as_ref().map(|l| vx_set(l)).flatten() };
        let req = vx_request_of(vx_stored_user("u", param));
        let (configs, services, allowed) = vx_visible(&req);
        // the statement, for the three namespaces in play (public == '')
        let permitted = |ns: &str| -> bool {
            let canon = if ns.is_empty() { "public" } else { ns };
            let white = w_all.unwrap_or(true) || w_list.as_ref().map(|l| l.iter().any(|x| *x == canon || (canon == "public" && x.is_empty()))).unwrap_or(false);
            let black = b_all.unwrap_or(false) || b_list.as_ref().map(|l| l.iter().any(|x| *x == canon || (canon == "public" && x.is_empty()))).unwrap_or(false);
            white && !black
        };
        let want_allowed: Vec<String> = ["", "public", "dev", "prod"].iter().filter(|ns| permitted(ns)).map(|s| s.to_string()).collect();
        let mut want_configs: Vec<String> = vec![];
        for tenant in ["public", "", "dev", "prod"] { if permitted(tenant) { want_configs.push(match tenant { "dev" => "b.yaml@dev".to_string(), "prod" => "c.yaml@prod".to_string(), _ => "a.yaml@".to_string() }); } }
        let mut want_services: Vec<String> = vec![];
        for (ns, s) in [("public", "sa@public"), ("dev", "sb@dev"), ("prod", "sc@prod")] { if permitted(ns) { want_services.push(s.to_string()); } }
        let mut services = services; services.sort(); want_services.sort();
        n += 1;
        if allowed != want_allowed { failures.push(format!("VX-BOUNDED-FAIL STORED-PRIVILEGE {} {}: after store + login the user is allowed {:?}, the statement says {:?}", wn, bn, allowed, want_allowed)); }
        if configs != want_configs { failures.push(format!("VX-BOUNDED-FAIL STORED-PRIVILEGE {} {}: config listings show {:?}, the statement says {:?}", wn, bn, configs, want_configs)); }
        if services != want_services { failures.push(format!("VX-BOUNDED-FAIL STORED-PRIVILEGE {} {}: the service listing shows {:?}, the statement says {:?}", wn, bn, services, want_services)); }
    } }
    assert!(n == 20);
    assert!(failures.is_empty(), "{} failing privilege group(s):\n{}", failures.len(), failures.join("\n"));
}
