verus! {

pub open spec fn is_def_ns(s: Seq<char>) -> bool { s == ""@ || s == "public"@ }

impl<T> PrivilegeGroup<T> where T: Sized + std::hash::Hash + std::cmp::Eq {
    /// C18: whitelisted and not blacklisted — the blacklist wins
    pub open spec fn whitelisted(&self, k: T) -> bool {
        self.whitelist_is_all || (self.whitelist is Some && self.whitelist.unwrap()@.contains(k))
    }
    pub open spec fn blacklisted(&self, k: T) -> bool {
        self.blacklist_is_all || (self.blacklist is Some && self.blacklist.unwrap()@.contains(k))
    }
    pub open spec fn permits(&self, k: T) -> bool { self.whitelisted(k) && !self.blacklisted(k) }
    pub open spec fn flags(&self) -> int {
        (if self.enabled { 1int } else { 0 }) + (if self.whitelist_is_all { 2int } else { 0 }) + (if self.blacklist_is_all { 4int } else { 0 })
    }
}

pub proof fn lemma_len0_no_member<A>(s: Set<A>)
    ensures s.len() == 0 ==> forall|k: A| !s.contains(k)
{
    if s.len() == 0 {
        assert forall|k: A| !s.contains(k) by {
            if s.contains(k) { assert(s.remove(k).len() + 1 == s.len()); }
        }
    }
}

/// flags round trip: new(get_flags(), wl, bl) reproduces the three switches
pub proof fn lemma_flags_roundtrip(e: bool, w: bool, b: bool)
    ensures ({ let f: u8 = ((if e { 1int } else { 0 }) + (if w { 2int } else { 0 }) + (if b { 4int } else { 0 })) as u8;
        (f & 1 != 0) == e && (f & 2 != 0) == w && (f & 4 != 0) == b })
{
    assert(0u8 & 1 == 0 && 1u8 & 1 != 0 && 2u8 & 1 == 0 && 3u8 & 1 != 0 && 4u8 & 1 == 0 && 5u8 & 1 != 0 && 6u8 & 1 == 0 && 7u8 & 1 != 0) by(bit_vector);
    assert(0u8 & 2 == 0 && 1u8 & 2 == 0 && 2u8 & 2 != 0 && 3u8 & 2 != 0 && 4u8 & 2 == 0 && 5u8 & 2 == 0 && 6u8 & 2 != 0 && 7u8 & 2 != 0) by(bit_vector);
    assert(0u8 & 4 == 0 && 1u8 & 4 == 0 && 2u8 & 4 == 0 && 3u8 & 4 == 0 && 4u8 & 4 != 0 && 5u8 & 4 != 0 && 6u8 & 4 != 0 && 7u8 & 4 != 0) by(bit_vector);
}

} // verus!
