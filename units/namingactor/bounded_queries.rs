// Bounded stand-in (always run, labelled bounded, never counted as proved) for the QUERY clause of C12:
// NamingActor::get_instance_list / get_instance_page / get_instances_and_metadata, Service::get_all_instances and
// InstanceFilterUtils::default_instance_filter are built from iterator adapters and f32 arithmetic and are outside Verus.
// Every service with up to 4 instances, every combination of (enabled, healthy, ephemeral) per instance, protection
// thresholds {unset, 0, 0.5, 1}, healthy-only on/off, page sizes 1..3 — checked against the statement of the property.
use super::*;

fn inst(i: usize, enabled: bool, healthy: bool, ephemeral: bool) -> Instance {
    let mut x = Instance::new(format!("10.0.0.{}", i + 1), 8080 + i as u32);
    x.namespace_id = Arc::new("public".to_owned());
    x.service_name = Arc::new("svc".to_owned());
    x.group_name = Arc::new("DEFAULT_GROUP".to_owned());
    x.cluster_name = "DEFAULT".to_owned();
    x.weight = 1.0 + i as f32;
    x.enabled = enabled;
    x.healthy = healthy;
    x.ephemeral = ephemeral;
    x.init();
    x
}

#[test]
fn vx_bounded_naming_queries() {
    let mut checked = 0u64;
    for n in 0..=4usize {
        for flags in 0..(1u32 << (3 * n)) {
            for thr in [None, Some(0f32), Some(0.5f32), Some(1f32)] {
                let mut naming = NamingActor::new();
                let key = ServiceKey::new("public", "DEFAULT_GROUP", "svc");
                let other = ServiceKey::new("public", "DEFAULT_GROUP", "other");
                let mut regs = vec![];
                for i in 0..n {
                    let f = (flags >> (3 * i)) & 7;
                    let x = inst(i, f & 1 != 0, f & 2 != 0, f & 4 != 0);
                    regs.push((x.get_short_key(), x.enabled, x.healthy, x.ephemeral, x.weight));
                    naming.update_instance(&key, x, None, false, None);
                }
                // an instance of ANOTHER service must never show up
                let mut foreign = inst(9, true, true, true);
                foreign.service_name = Arc::new("other".to_owned());
                naming.update_instance(&other, foreign, None, false, None);
                if let Some(t) = thr {
                    naming.update_service(ServiceDetailDto { namespace_id: key.namespace_id.clone(), service_name: key.service_name.clone(),
                        group_name: key.group_name.clone(), metadata: None, protect_threshold: Some(t), grpc_instance_count: None });
                }
                let threshold = thr.unwrap_or(0f32);
                let enabled: Vec<_> = regs.iter().filter(|r| r.1).collect();
                let healthy_cnt = enabled.iter().filter(|r| r.2).count();
                let reached = !enabled.is_empty() && (healthy_cnt as f32) / (enabled.len() as f32) <= threshold;
                for only_healthy in [false, true] {
                    let mut want: Vec<_> = enabled.iter().filter(|r| !only_healthy || reached || r.2).map(|r| r.0.clone()).collect();
                    want.sort();
                    let got_list = naming.get_instance_list(&key, "", only_healthy);
                    let mut got: Vec<_> = got_list.iter().map(|i| i.get_short_key()).collect();
                    got.sort();
                    checked += 1;
                    assert!(got == want, "VX-BOUNDED get_instance_list(only_healthy={}) = {:?}, the property says {:?}; registered (key, enabled, healthy, ephemeral, weight) = {:?}, protect threshold {:?}",
                        only_healthy, got, want, regs, thr);
                    for i in got_list.iter() {
                        let r = regs.iter().find(|r| r.0 == i.get_short_key()).unwrap();
                        assert!(i.enabled && i.ephemeral == r.3 && i.weight == r.4, "VX-BOUNDED returned instance {:?} does not carry the flags / weight it was registered with {:?}", i, r);
                        assert!(i.healthy == (r.2 || reached), "VX-BOUNDED returned instance {:?}: health flag, registered {:?}, threshold reached {}", i, r, reached);
                    }
                    for page_size in 1..=3usize {
                        let mut pages = vec![];
                        let mut page_index = 1;
                        loop {
                            let (total, page) = naming.get_instance_page(&key, "", only_healthy, page_size, page_index);
                            assert!(total == want.len(), "VX-BOUNDED get_instance_page total {} != {}", total, want.len());
                            if page.is_empty() { break; }
                            assert!(page.len() <= page_size);
                            pages.extend(page.iter().map(|i| i.get_short_key()));
                            page_index += 1;
                            assert!(page_index < 10);
                        }
                        assert!(pages == want, "VX-BOUNDED pages of size {} = {:?}, the property says {:?}", page_size, pages, want);
                    }
                    let (all, meta) = naming.get_instances_and_metadata(&key, "", only_healthy);
                    let mut got2: Vec<_> = all.iter().map(|i| i.get_short_key()).collect();
                    got2.sort();
                    let mut want2: Vec<_> = enabled.iter().filter(|r| !only_healthy || r.2).map(|r| r.0.clone()).collect();
                    want2.sort();
                    assert!(got2 == want2 && (meta.is_some() || n == 0), "VX-BOUNDED get_instances_and_metadata(only_healthy={}) = {:?}, expected {:?}", only_healthy, got2, want2);
                }
                if n == 4 && flags % 7 != 0 { continue; }
            }
        }
    }
    assert!(checked > 30_000, "only {} queries checked", checked);
}
