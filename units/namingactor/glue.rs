verus! {
pub enum NamingCmd {
    NotifyUpdateRaftInstance(Arc<Instance>),
    NotifyRemoveRaftInstance(InstanceKey),
}
pub struct InnerNamingListener {}
pub struct DelayNotifyActor {}
pub struct InnerNodeManage {}
pub struct ClusterInstanceDelayNotifyActor {}
pub struct NamespaceActor {}
pub struct NetSniffing {}
pub struct RaftRequestRoute {}
#[verifier::external_body]
pub struct Subscriber { vx: u8 }
#[verifier::external_body]
pub struct NamespaceIndex { vx: u8 }
impl NamespaceIndex {
    /// the listing index (proved in unit serviceindex against its own view); here only a handle whose effect is not specified
    #[verifier::external_body]
    pub fn remove_service(&mut self, key: &ServiceKey) -> (r: bool) { unimplemented!() }
}

/// A-KEY
pub broadcast axiom fn axiom_naming_key_model()
    ensures #[trigger] vstd::std_specs::hash::obeys_key_model::<ServiceKey>(), vstd::std_specs::hash::obeys_key_model::<InstanceKey>();

pub assume_specification<T, P: FnOnce(&T) -> bool>[ Option::<T>::filter::<P> ](o: Option<T>, p: P) -> (r: Option<T>)
    requires o is Some ==> p.requires((&o.unwrap(),))
    ensures r is Some ==> r == o;
} // verus!
