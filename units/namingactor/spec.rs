verus! {
pub open spec fn ikey(k: ServiceKey, s: InstanceShortKey) -> InstanceKey {
    InstanceKey { namespace_id: k.namespace_id, group_name: k.group_name, service_name: k.service_name, ip: s.ip, port: s.port }
}

impl NamingActor {
    pub open spec fn services_wf(&self) -> bool {
        forall|k: ServiceKey| #[trigger] self.service_map@.contains_key(k) ==> self.service_map@[k].wf()
    }
    pub open spec fn timeouts_small(&self) -> bool {
        self.sys_config.service_time_out_millis < 0x4000_0000_0000_0000 && self.sys_config.instance_metadata_time_out_millis < 0x4000_0000_0000_0000
    }
    /// the reverse map as a relation: client c records instance key k
    pub open spec fn records(&self, c: Arc<String>, k: InstanceKey) -> bool {
        self.client_instance_set@.contains_key(c) && self.client_instance_set@[c]@.contains(k)
    }
}

pub open spec fn skey(k: InstanceKey) -> ServiceKey { ServiceKey { namespace_id: k.namespace_id, group_name: k.group_name, service_name: k.service_name } }
pub open spec fn shkey(k: InstanceKey) -> InstanceShortKey { InstanceShortKey { ip: k.ip, port: k.port } }

impl NamingActor {
    /// the registered instance behind a reverse-map key, if any
    pub open spec fn has(&self, k: InstanceKey) -> bool {
        self.service_map@.contains_key(skey(k)) && self.service_map@[skey(k)].instances@.contains_key(shkey(k))
    }
    pub open spec fn at(&self, k: InstanceKey) -> Arc<Instance> { self.service_map@[skey(k)].instances@[shkey(k)] }
}

pub uninterp spec fn spec_hash<T>(v: T) -> u64;
pub uninterp spec fn range_owns(r: ProcessRange, h: usize) -> bool;

impl NamingActor {
    /// this node considers itself the owner of the service
    pub open spec fn owns_service(&self, key: ServiceKey) -> bool {
        self.current_range is Some && range_owns(self.current_range.unwrap(), spec_hash::<&ServiceKey>(&key) as usize)   // get_hash_value(&key) with key: &ServiceKey
    }
    pub open spec fn services_small(&self) -> bool {
        forall|k: ServiceKey| #[trigger] self.service_map@.contains_key(k) ==> self.service_map@[k].instances@.dom().len() < 0x7fff_fffe
    }
}

/// THE empty string behind an Arc (a String is determined by its characters: shims/std_extra.rs)
pub open spec fn empty_arc() -> Arc<String> { choose|a: Arc<String>| (#[trigger] (*a)@) == ""@ }

/// the instance as NamingActor::update_instance hands it to the service: an HTTP registration for a service this node owns
/// is taken over as a local one (no cluster origin, no client)
pub open spec fn effective(i: Instance, owned: bool) -> Instance {
    if owned && !i.from_grpc { Instance { from_cluster: 0, client_id: empty_arc(), ..i } } else { i }
}
} // verus!
