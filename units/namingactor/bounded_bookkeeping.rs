// Bounded stand-in (always run, labelled bounded, never counted as proved) for the ACTOR-LEVEL bookkeeping of C11 that is not
// under contract: create_empty_service / update_service / clear_one_empty_service / remove_empty_service (chrono, NamingUtils,
// NamespaceIndex calls) and the GLOBAL invariants over sequences of operations, which the per-operation contracts of units
// service / namingactor do not state.  Every sequence of up to 4 operations out of 20 (2 services x 2 addresses, 2 gRPC
// connections + HTTP, ephemeral / persistent, remove by owner / by nobody / by the console, disconnect, empty-service clean-up)
// on the REAL NamingActor; after every step the statement of C11 is checked in full.
use super::*;
use crate::naming::service_index::ServiceQueryParam;

#[derive(Clone, Copy, Debug)]
enum Op { Reg(usize, usize, usize, bool), RegT(usize, usize, usize, bool, u8), Del(usize, usize, usize), Disc(usize), Clean(usize), Purge }

/// the update tags the entry points build: 1 = gRPC (batch) register and console update (everything but the ephemeral flag), 2 = HTTP beat
/// (nothing), 3 = no tag at all with the cluster-sync origin flag, 4 = metadata only
fn tag_of(kind: u8) -> (Option<InstanceUpdateTag>, bool) {
    match kind {
        1 => (Some(InstanceUpdateTag { weight: true, metadata: true, enabled: true, ephemeral: false, from_update: false }), false),
        2 => (Some(InstanceUpdateTag { weight: false, metadata: false, enabled: false, ephemeral: false, from_update: false }), false),
        3 => (None, true),
        _ => (Some(InstanceUpdateTag { weight: false, metadata: true, enabled: false, ephemeral: false, from_update: true }), false),
    }
}

fn skey(s: usize) -> ServiceKey { ServiceKey::new("public", "DEFAULT_GROUP", if s == 0 { "svc-a" } else { "svc-b" }) }
fn client(c: usize) -> Arc<String> { Arc::new(match c { 0 => "".to_string(), 1 => "0_101".to_string(), _ => "0_202".to_string() }) }

fn inst(s: usize, a: usize, c: usize, ephemeral: bool) -> Instance {
    let mut x = Instance::new(format!("10.0.0.{}", a + 1), 8080);
    let k = skey(s);
    x.namespace_id = k.namespace_id.clone();
    x.service_name = k.service_name.clone();
    x.group_name = k.group_name.clone();
    x.cluster_name = "DEFAULT".to_owned();
    x.healthy = true;
    x.enabled = true;
    x.weight = 1.0;
    x.ephemeral = ephemeral;
    if c > 0 { x.from_grpc = true; x.client_id = client(c); }
    x.init();
    x
}

fn check(naming: &NamingActor, trace: &[Op]) -> Result<(), String> {
    // counters, persistent set
    for (k, svc) in naming.service_map.iter() {
        let n = svc.instances.len() as i64;
        let h = svc.instances.values().filter(|i| i.healthy).count() as i64;
        if svc.instance_size as i64 != n || svc.healthy_instance_size as i64 != h { return Err(format!("service {:?}: counters ({}, {}) but {} instances, {} healthy", k, svc.instance_size, svc.healthy_instance_size, n, h)); }
        let info = svc.get_service_info();
        if info.instance_size as i64 != n || info.healthy_instance_size as i64 != h { return Err(format!("service {:?}: reported counts differ from the instances", k)); }
        let want: std::collections::HashSet<_> = svc.instances.iter().filter(|(_, i)| !i.ephemeral).map(|(k, _)| k.clone()).collect();
        let got: std::collections::HashSet<_> = svc.perpetual_host_set.iter().cloned().collect();
        if want != got { return Err(format!("service {:?}: persistent set {:?} but non-ephemeral instances {:?}", k, got, want)); }
        for (ik, i) in svc.instances.iter() { if i.get_short_key() != *ik { return Err(format!("service {:?}: instance stored under a foreign key", k)); } }
    }
    // every service is listed exactly once in the namespace / group index, and nothing else is
    let (total, list) = naming.namespace_index.query_service_page(&ServiceQueryParam { limit: 0xffff, ..Default::default() });
    let mut listed: Vec<ServiceKey> = list;
    listed.sort_by(|a, b| (a.namespace_id.as_str(), a.group_name.as_str(), a.service_name.as_str()).cmp(&(b.namespace_id.as_str(), b.group_name.as_str(), b.service_name.as_str())));
    let mut have: Vec<ServiceKey> = naming.service_map.keys().cloned().collect();
    have.sort_by(|a, b| (a.namespace_id.as_str(), a.group_name.as_str(), a.service_name.as_str()).cmp(&(b.namespace_id.as_str(), b.group_name.as_str(), b.service_name.as_str())));
    if listed != have || total != have.len() { return Err(format!("index lists {:?} (total {}) but the registry holds {:?}", listed, total, have)); }
    // every instance recorded for a connection exists and belongs to that connection
    for (c, keys) in naming.client_instance_set.iter() {
        for k in keys.iter() {
            match naming.get_instance(&k.get_service_key(), &k.get_short_key()) {
                None => return Err(format!("connection {} records {:?}, which does not exist", c, k)),
                Some(i) => if i.client_id.as_str() != c.as_str() { return Err(format!("connection {} records {:?}, which belongs to {:?}", c, k, i.client_id)); },
            }
        }
    }
    let _ = trace;
    Ok(())
}

#[test]
fn vx_bounded_naming_bookkeeping() {
    let mut ops = vec![];
    for s in 0..2 { for a in 0..2 { ops.push(Op::Reg(s, a, 1, true)); } }
    ops.extend([Op::Reg(0, 0, 2, true), Op::Reg(0, 0, 0, true), Op::Reg(0, 0, 0, false), Op::Reg(0, 1, 1, false),
                Op::Del(0, 0, 1), Op::Del(0, 0, 0), Op::Del(0, 0, 3), Op::Disc(1), Op::Disc(2), Op::Clean(0), Op::Purge,
                // the same address again through the other entry points: partial update tags with either value of the request's ephemeral flag
                Op::RegT(0, 0, 1, true, 1), Op::RegT(0, 0, 0, true, 2), Op::RegT(0, 0, 0, false, 1), Op::RegT(0, 0, 2, false, 3), Op::RegT(0, 0, 0, true, 4)]);
    let n = ops.len();
    let mut failures: Vec<String> = vec![];
    let mut runs = 0u64;
    let mut idx = vec![0usize; 4];
    'outer: for len in 1..=4usize {
        for code in 0..n.pow(len as u32) {
            let mut c = code;
            for j in 0..len { idx[j] = c % n; c /= n; }
            let mut naming = NamingActor::new();
            let mut trace = vec![];
            let mut closed = [false; 3];
            for j in 0..len {
                let op = ops[idx[j]];
                // a connection id is never used again once the connection has ended
                match op {
                    Op::Reg(_, _, cl, _) | Op::RegT(_, _, cl, _, _) | Op::Disc(cl) if cl > 0 && closed[cl] => continue,
                    Op::Del(_, _, who) if who > 0 && who < 3 && closed[who] => continue,
                    Op::Disc(cl) => closed[cl] = true,
                    _ => {}
                }
                trace.push(op);
                match op {
                    Op::Reg(s, a, cl, eph) => { naming.update_instance(&skey(s), inst(s, a, cl, eph), Some(InstanceUpdateTag::default()), false, None); }
                    Op::RegT(s, a, cl, eph, kind) => { let (tag, from_sync) = tag_of(kind); let mut i = inst(s, a, cl, eph); if kind == 4 { let mut md = HashMap::new(); md.insert("k".to_string(), "v".to_string()); i.metadata = Arc::new(md); } naming.update_instance(&skey(s), i, tag, from_sync, None); }
                    Op::Del(s, a, who) => { let i = inst(s, a, 0, true); let cid = client(who); naming.remove_instance(&skey(s), &i.get_short_key(), if who == 3 { None } else { Some(&cid) }); }
                    Op::Disc(cl) => {
                        // C12: the end of a connection removes every ephemeral instance it owns and nothing else
                        let cid = client(cl);
                        let before: Vec<(ServiceKey, InstanceShortKey, bool)> = naming.service_map.iter().flat_map(|(k, svc)| svc.instances.iter()
                            .map(|(ik, i)| (k.clone(), ik.clone(), i.ephemeral && i.client_id.as_str() == cid.as_str())).collect::<Vec<_>>()).collect();
                        naming.remove_client_instance(&cid);
                        for (k, ik, own) in before.iter() {
                            let still = naming.get_instance(k, ik).is_some();
                            if *own && still { failures.push(format!("VX-BOUNDED-FAIL DISCONNECT an ephemeral instance {:?} of the closed connection {} is still registered after {:?}", ik, cid, trace)); }
                            if !*own && !still { failures.push(format!("VX-BOUNDED-FAIL DISCONNECT the end of connection {} removed {:?}, which is not an ephemeral instance of that connection, after {:?}", cid, ik, trace)); }
                        }
                    }
                    Op::Clean(s) => {
                        let had = naming.service_map.get(&skey(s)).map(|x| x.instances.len()).unwrap_or(0);
                        let r = naming.remove_empty_service(skey(s));
                        if had > 0 && (r.is_ok() || !naming.service_map.contains_key(&skey(s))) { failures.push(format!("VX-BOUNDED-FAIL EMPTY-SERVICE a service with {} instance(s) was dropped / its removal accepted after {:?}", had, trace)); }
                        if had == 0 && naming.service_map.contains_key(&skey(s)) { failures.push(format!("VX-BOUNDED-FAIL EMPTY-SERVICE an empty service survived remove_empty_service after {:?}", trace)); }
                    }
                    Op::Purge => {
                        // the periodic clean-up with every time-out expired: only services without instances may go
                        let keys: Vec<ServiceKey> = naming.service_map.keys().cloned().collect();
                        for k in keys {
                            let had = naming.service_map.get(&k).unwrap().instances.len();
                            naming.clear_one_empty_service(k.clone(), 0x7fff_ffff_ffff_ffff);
                            if had > 0 && !naming.service_map.contains_key(&k) { failures.push(format!("VX-BOUNDED-FAIL EMPTY-SERVICE clean-up dropped a service with {} instance(s) after {:?}", had, trace)); }
                        }
                    }
                }
                if let Err(e) = check(&naming, &trace) { failures.push(format!("VX-BOUNDED-FAIL INVARIANT {} — after {:?}", e, trace)); break; }
                runs += 1;
            }
            if failures.len() > 8 { break 'outer; }
        }
    }
    assert!(runs > 100_000 || !failures.is_empty(), "only {} steps", runs);
    assert!(failures.is_empty(), "{} failing sequence(s), first ones:\n{}", failures.len(), failures.iter().take(6).cloned().collect::<Vec<_>>().join("\n"));
}
