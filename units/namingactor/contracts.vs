@@ InstanceKey::new_by_service_key spec
    ensures r == (InstanceKey { namespace_id: key.namespace_id, group_name: key.group_name, service_name: key.service_name, ip, port })
@@ Service::exist_priority_metadata external
@@ Service::exist_priority_metadata skip_body
@@ Service::exist_priority_metadata spec
@@ NamingActor::do_notify external
@@ NamingActor::do_notify skip_body
@@ NamingActor::do_notify spec
    // assumed (T7): notifications only
    ensures final(self).service_map == old(self).service_map, final(self).client_instance_set == old(self).client_instance_set,
        final(self).empty_service_set == old(self).empty_service_set, final(self).instance_metadate_set == old(self).instance_metadate_set,
        final(self).sys_config == old(self).sys_config,
@@ NamingActor::remove_client_instance_key spec
    ensures final(self).service_map == old(self).service_map, final(self).sys_config == old(self).sys_config,
        final(self).empty_service_set == old(self).empty_service_set, final(self).instance_metadate_set == old(self).instance_metadate_set,
        final(self).client_instance_set@.dom() == old(self).client_instance_set@.dom(),
        forall|c: Arc<String>| #[trigger] final(self).client_instance_set@.contains_key(c) ==>
            final(self).client_instance_set@[c]@ == (if c == *client_id { old(self).client_instance_set@[c]@.remove(*key) } else { old(self).client_instance_set@[c]@ }),
@@ NamingActor::remove_client_instance_key entry
    broadcast use group_std_extra;
    broadcast use vstd::std_specs::hash::group_hash_axioms;
    broadcast use axiom_naming_key_model;
@@ NamingActor::remove_instance spec
    requires old(self).services_wf(), old(self).timeouts_small()
    ensures final(self).services_wf(),   // @C11
        final(self).service_map@.dom() == old(self).service_map@.dom(),   // @C11
        forall|k2: ServiceKey| k2 != *key && #[trigger] old(self).service_map@.contains_key(k2) ==> final(self).service_map@[k2] == old(self).service_map@[k2],   // @C11 @C12
        !old(self).service_map@.contains_key(*key) ==> r.0 is None && r.1 is None,
        // the service's own decision (contract of Service::remove_instance) is passed on unchanged
        old(self).service_map@.contains_key(*key) ==> ({   // @C11 @C12
            let s0 = old(self).service_map@[*key];
            let s1 = final(self).service_map@[*key];
            &&& (r.0 is Remove || r.0 is None)
            &&& (r.0 is Remove ==> s0.instances@.contains_key(*instance_id) && s1.instances@ == s0.instances@.remove(*instance_id))
            &&& (r.0 is None ==> s1.instances@ == s0.instances@)
            &&& (r.0 is Remove <==> (s0.instances@.contains_key(*instance_id) && !(client_id is Some
                    && s0.instances@[*instance_id].ephemeral && client_id.unwrap()@.len() > 0
                    && s0.instances@[*instance_id].client_id@ != client_id.unwrap()@)))
            &&& (r.1 is Remove <==> (r.0 is Remove && !s0.instances@[*instance_id].ephemeral))
        }),
        final(self).sys_config == old(self).sys_config, final(self).client_instance_set@.dom() == old(self).client_instance_set@.dom(),
        // C11 reverse map: the key of a removed instance leaves the record of the client that OWNED it (whoever asked for the removal);
        // nothing else in the reverse map changes
        forall|c: Arc<String>, k: InstanceKey| #[trigger] final(self).records(c, k) <==> (old(self).records(c, k)   // @C11 @C12
            && !(r.0 is Remove && k == ikey(*key, *instance_id) && c == old(self).service_map@[*key].instances@[*instance_id].client_id && c@.len() > 0)),
@@ NamingActor::remove_instance entry
    broadcast use group_std_extra;
    broadcast use vstd::std_specs::hash::group_hash_axioms;
    broadcast use axiom_naming_key_model;
    let ghost sm0 = self.service_map@;
    let ghost cis0 = self.client_instance_set@;
@@ Instance::init external
@@ Instance::init skip_body
@@ Instance::init spec
    // assumed (T7): sets last_modified_millis and, when empty, the generated id
    ensures final(self).ip == old(self).ip, final(self).port == old(self).port, final(self).client_id == old(self).client_id,
        final(self).from_grpc == old(self).from_grpc, final(self).from_cluster == old(self).from_cluster, final(self).ephemeral == old(self).ephemeral,
        final(self).healthy == old(self).healthy, final(self).enabled == old(self).enabled, final(self).weight == old(self).weight,
@@ get_hash_value external
@@ get_hash_value skip_body
@@ get_hash_value spec
    ensures r == spec_hash(*v)
@@ ProcessRange::is_range external
@@ ProcessRange::is_range skip_body
@@ ProcessRange::is_range spec
    // (proved against the slot arithmetic in unit processrange; only "a function of range and hash" is used here)
    ensures r == range_owns(*self, hash_value)
@@ NamingActor::notify_to_subscriber external
@@ NamingActor::notify_to_subscriber skip_body
@@ NamingActor::notify_to_subscriber spec
    ensures final(self).service_map == old(self).service_map, final(self).client_instance_set == old(self).client_instance_set,
        final(self).sys_config == old(self).sys_config,
@@ NamingActor::create_empty_service external
@@ NamingActor::create_empty_service skip_body
@@ NamingActor::create_empty_service spec
    // assumed (T7: chrono::Local, NamingUtils, NamespaceIndex): an absent service is created EMPTY and well formed, an existing one is untouched
    ensures final(self).client_instance_set == old(self).client_instance_set, final(self).sys_config == old(self).sys_config,
        final(self).current_range == old(self).current_range, final(self).meta_manager_addr == old(self).meta_manager_addr,
        final(self).service_map@.dom() == old(self).service_map@.dom().insert(*key),
        forall|k2: ServiceKey| #[trigger] old(self).service_map@.contains_key(k2) ==> final(self).service_map@[k2] == old(self).service_map@[k2],
        !old(self).service_map@.contains_key(*key) ==> final(self).service_map@[*key].wf() && final(self).service_map@[*key].instances@ == Map::<InstanceShortKey, Arc<Instance>>::empty(),
@@ NamingActor::update_instance spec
    requires old(self).services_wf(), old(self).services_small(), old(self).timeouts_small()
    ensures final(self).services_wf(),   // @C11
        old(self).service_map@.dom().insert(*key) == final(self).service_map@.dom(),   // @C11
        forall|k2: ServiceKey| k2 != *key && #[trigger] old(self).service_map@.contains_key(k2) ==> final(self).service_map@[k2] == old(self).service_map@[k2],   // @C11 @C12
        // exactly the address of the incoming instance is (re)bound in the service
        ({   // @C11 @C12
            let sk = key_of(instance);
            let m0 = if old(self).service_map@.contains_key(*key) { old(self).service_map@[*key].instances@ } else { Map::<InstanceShortKey, Arc<Instance>>::empty() };
            let m1 = final(self).service_map@[*key].instances@;
            &&& m1.dom() == m0.dom().insert(sk)
            &&& forall|k: InstanceShortKey| k != sk && #[trigger] m0.contains_key(k) ==> m1[k] == m0[k]
            &&& (r is New <==> !m0.contains_key(sk))
        }),
        // C11 reverse map: the key is recorded for the client of a gRPC / cluster-owned registration, and leaves the record of the
        // owner the service reports as replaced; nothing else in the reverse map changes
        ({   // @C11 @C12
            let e = effective(instance, old(self).owns_service(*key));
            let sk = key_of(instance);
            let ik = ikey(*key, sk);
            let m0 = if old(self).service_map@.contains_key(*key) { old(self).service_map@[*key].instances@ } else { Map::<InstanceShortKey, Arc<Instance>>::empty() };
            let m1 = final(self).service_map@[*key].instances@;
            let replaced = m0.contains_key(sk) && m0[sk].client_id@.len() > 0 && m1[sk].client_id@ != m0[sk].client_id@;
            forall|c: Arc<String>, k: InstanceKey| #[trigger] final(self).records(c, k) <==>
                ((old(self).records(c, k) || (k == ik && c == e.client_id && (e.from_grpc || e.from_cluster > 0) && c@.len() > 0))
                 && !(k == ik && replaced && c == m0[sk].client_id))
        }),
@@ NamingActor::update_instance entry
    broadcast use group_std_extra;
    broadcast use vstd::std_specs::hash::group_hash_axioms;
    broadcast use axiom_naming_key_model;
    let ghost inst0 = instance;
    let ghost sm0 = self.service_map@;
    let ghost cis0 = self.client_instance_set@;
@@ NamingActor::update_instance before_return@top 1
            proof { assert(self.service_map@.contains_key(*key)); assert(false); }
@@ NamingActor::update_instance after_call get_short_key 1
        let ghost cis1 = self.client_instance_set@;
        let ghost e = instance;
        let ghost ef = effective(inst0, old(self).owns_service(*key));
        let ghost ik = ikey(*key, key_of(inst0));
        proof {
            assert(at_process_range == old(self).owns_service(*key));
            assert(e.client_id == ef.client_id && e.from_grpc == ef.from_grpc && e.from_cluster == ef.from_cluster);
            assert(instance_key == ik);
            assert(key_of(e) == key_of(inst0));
            assert(forall|c: Arc<String>, k: InstanceKey| (cis1.contains_key(c) && #[trigger] cis1[c]@.contains(k)) <==>
                ((cis0.contains_key(c) && cis0[c]@.contains(k)) || (k == ik && c == ef.client_id && (ef.from_grpc || ef.from_cluster > 0) && c@.len() > 0)));
        }
@@ NamingActor::update_instance after_call update_instance 1
        proof {
            assert(self.client_instance_set@ == cis1);
        }
@@ InstanceKey::get_service_key spec
    ensures r == skey(*self)
@@ InstanceKey::get_short_key spec
    ensures r == shkey(*self)
@@ NamingActor::remove_client_instance t8o 1
@@ NamingActor::remove_client_instance foriter 1 it
@@ NamingActor::remove_client_instance spec
    requires old(self).services_wf(), old(self).timeouts_small(), client_id@.len() > 0
    ensures final(self).services_wf(),   // @C11
        // C12: the end of a connection removes no persistent instance and no instance of another client ...
        forall|k: InstanceKey| #[trigger] old(self).has(k) && (!old(self).at(k).ephemeral || old(self).at(k).client_id@ != client_id@)   // @C12
            ==> final(self).has(k) && final(self).at(k) == old(self).at(k),
        // ... and removes every ephemeral instance of this client that the connection's record names
        forall|k: InstanceKey| #[trigger] old(self).records(*client_id, k) && old(self).has(k) && old(self).at(k).ephemeral && old(self).at(k).client_id@ == client_id@   // @C12
            ==> !final(self).has(k),
        // nothing appears
        forall|k: InstanceKey| #[trigger] final(self).has(k) ==> old(self).has(k) && final(self).at(k) == old(self).at(k),   // @C11 @C12
        !final(self).client_instance_set@.contains_key(*client_id),   // @C11
@@ NamingActor::remove_client_instance entry
    broadcast use group_std_extra;
    broadcast use vstd::std_specs::hash::group_hash_axioms;
    broadcast use axiom_naming_key_model;
    let ghost a0 = *self;
    let ghost cid = *client_id;
@@ NamingActor::remove_client_instance loop 1
    invariant self.services_wf(), self.timeouts_small(), cid == *client_id, cid@.len() > 0,
        it.seq().unref().to_set() == keys@,
        !self.client_instance_set@.contains_key(cid),
        forall|k: InstanceKey| #[trigger] a0.has(k) && (!a0.at(k).ephemeral || a0.at(k).client_id@ != cid@) ==> self.has(k) && self.at(k) == a0.at(k),
        forall|k: InstanceKey| #[trigger] self.has(k) ==> a0.has(k) && self.at(k) == a0.at(k),
        forall|j: int| 0 <= j < it.index@ ==> (a0.has(*(#[trigger] it.seq()[j])) && a0.at(*it.seq()[j]).ephemeral && a0.at(*it.seq()[j]).client_id@ == cid@ ==> !self.has(*it.seq()[j])),
@@ NamingActor::remove_client_instance loop 1 body_entry
    let ghost s1 = *self;
    let ghost kk = *instance_key;
    proof { assert(*it.seq()[it.index@] == kk); }
@@ NamingActor::remove_client_instance loop 1 body_exit
    proof {
        assert forall|k: InstanceKey| #[trigger] self.has(k) implies s1.has(k) && self.at(k) == s1.at(k) by {
            if skey(k) == skey(kk) { } else { }
        }
        assert forall|k: InstanceKey| #[trigger] s1.has(k) && k != kk implies self.has(k) && self.at(k) == s1.at(k) by {
            if skey(k) == skey(kk) { assert(shkey(k) != shkey(kk)); } else { }
        }
    }
@@ NamingActor::get_instance spec
    ensures r == (if self.service_map@.contains_key(*key) && self.service_map@[*key].instances@.contains_key(*instance_id)
                  { Some(self.service_map@[*key].instances@[*instance_id]) } else { None::<Arc<Instance>> })
@@ NamingActor::get_instance entry
    broadcast use group_std_extra;
    broadcast use vstd::std_specs::hash::group_hash_axioms;
    broadcast use axiom_naming_key_model;
@@ NamingActor::clear_one_empty_service spec
    // C11: "empty services are only dropped when they really have no instances" — the periodic clean-up removes at most this one
    // service, and only when its instance counter is zero (with the service invariant: when it has no instance); nothing else changes
    requires old(self).services_wf(),
        now >= old(self).sys_config.service_time_out_millis,   // A-CLOCK: `now` is the wall clock in ms, far above any configured time-out
    ensures final(self).client_instance_set == old(self).client_instance_set,
        forall|k2: ServiceKey| k2 != service_map_key && #[trigger] old(self).service_map@.contains_key(k2)
            ==> final(self).service_map@.contains_key(k2) && final(self).service_map@[k2] == old(self).service_map@[k2],
        forall|k2: ServiceKey| #[trigger] final(self).service_map@.contains_key(k2) ==> old(self).service_map@.contains_key(k2) && final(self).service_map@[k2] == old(self).service_map@[k2],
        (old(self).service_map@.contains_key(service_map_key) && old(self).service_map@[service_map_key].instances@.len() > 0)
            ==> final(self).service_map@.contains_key(service_map_key),
@@ NamingActor::clear_one_empty_service entry
    broadcast use vstd::std_specs::hash::group_hash_axioms;
    broadcast use axiom_naming_key_model;
