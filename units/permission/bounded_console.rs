// Bounded stand-in (always run, labelled bounded, never counted as proved) for the login half of C17:
// CheckLoginMiddleware::call (regex, cookies, cache actor, async closure in a generic actix Service impl) is outside Verus.
// The REAL middleware and the REAL console route table (web_config::console_config) are mounted on an actix test service;
// the routes are re-read from src/console/api.rs at compile time.  Every route x method x spelling x token variant below,
// none carrying a session issued by a login, must be refused (No-Login answer, or a redirect to the login page) or not
// exist (404 / 405) — except the login endpoints the property itself exempts.
use super::*;
use crate::common::AppSysConfig;
use crate::starter::{build_share_data, config_factory};
use crate::web_config::console_config;
use actix_web::http::StatusCode;
use actix_web::test as atest;
use actix_web::{web::Data, App};

fn console_routes() -> Vec<String> {
    let text = include_str!(concat!(env!("CARGO_MANIFEST_DIR"), "/src/console/api.rs"));
    let scope_re = regex::Regex::new(r#"web::scope\("([^"]*)"\)"#).unwrap();
    let res_re = regex::Regex::new(r#"web::resource\("([^"]*)"\)"#).unwrap();
    let mut scope = String::new();
    let mut out = vec![];
    for line in text.lines() {
        if let Some(c) = scope_re.captures(line) { scope = c[1].to_string(); }
        for c in res_re.captures_iter(line) { out.push(format!("{}{}", scope, &c[1])); }
    }
    out
}

#[test]
fn vx_bounded_c17_console_login() {
    let dir = tempfile::tempdir().unwrap();
    let mut cfg = AppSysConfig::init_from_env();
    cfg.local_db_dir = dir.path().join("nacos_db").to_string_lossy().to_string();
    cfg.raft_auto_init = false;
    cfg.metrics_enable = false;
    cfg.naming_instance_metadata_persistence_enable = false;
    let cfg = Arc::new(cfg);
    let routes = console_routes();
    assert!(routes.len() >= 60 && routes.iter().all(|r| r.starts_with("/rnacos/api/console")), "route table not recognised: {} routes", routes.len());
    let failures: Vec<String> = actix_rt::System::new().block_on(async move {
        let factory_data = config_factory(cfg.clone()).await.unwrap();
        let app_data = build_share_data(factory_data).unwrap();
        let app = atest::init_service(
            App::new()
                .app_data(Data::new(app_data.clone()))
                .app_data(Data::new(app_data.config_addr.clone()))
                .app_data(Data::new(app_data.naming_addr.clone()))
                .app_data(Data::new(app_data.bi_stream_manage.clone()))
                .wrap(CheckLogin::new(app_data.clone()))
                .configure(console_config),
        )
        .await;
        let exempt = ["/rnacos/api/console/login/login", "/rnacos/api/console/login/captcha", "/rnacos/api/console/v2/login/login",
                      "/rnacos/api/console/v2/login/captcha", "/rnacos/api/console/v2/login/config", "/rnacos/api/console/v2/login/oauth2/login"];
        let mut bad = vec![];
        let mut probes = 0usize;
        for base in routes.iter() {
            if exempt.contains(&base.as_str()) { continue; }
            let spellings = [base.clone(), format!("{}/", base), base.to_uppercase(), format!("{}.js", base), format!("{}/x.css", base), format!("{};a.png", base),
                             format!("{}%2ejs", base), base.replacen("/api/", "//api/", 1)];
            for path in spellings.iter() {
                for method in ["GET", "POST", "PUT", "DELETE"] {
                    for (what, cookie, header) in [("no token", None, None), ("garbage cookie", Some("no-such-session"), None), ("garbage Token header", None, Some("no-such-session")),
                                                    ("empty cookie", Some(""), None)] {
                        let uri = format!("{}?dataId=d&group=g&tenant=&serviceName=s&namespaceId=&username=u&pageNo=1&pageSize=10", path);
                        let mut req = match method { "GET" => atest::TestRequest::get(), "POST" => atest::TestRequest::post(), "PUT" => atest::TestRequest::put(), _ => atest::TestRequest::delete() }.uri(&uri);
                        if let Some(c) = cookie { req = req.insert_header(("Cookie", format!("token={}", c))); }
                        if let Some(h) = header { req = req.insert_header(("Token", h)); }
                        let resp = atest::call_service(&app, req.to_request()).await;
                        let status = resp.status();
                        let no_login = resp.headers().contains_key("No-Login");
                        let to_login = status == StatusCode::FOUND && resp.headers().get("Location").map(|v| v.to_str().unwrap_or("").contains("/rnacos/p/login")).unwrap_or(false);
                        let body = atest::read_body(resp).await;
                        probes += 1;
                        let absent = (status == StatusCode::NOT_FOUND && body.is_empty()) || status == StatusCode::METHOD_NOT_ALLOWED;
                        if !(no_login || to_login || absent) {
                            if bad.len() < 12 { bad.push(format!("VX-BOUNDED {} {} ({}) answered {} {:?} without a session", method, uri, what, status, String::from_utf8_lossy(&body[..body.len().min(80)]))); }
                        }
                    }
                }
            }
        }
        if probes < 5000 { bad.push(format!("VX-BOUNDED only {} probes", probes)); }
        bad
    });
    assert!(failures.is_empty(), "{} failing request(s), first ones:\n{}", failures.len(), failures.join("\n"));
}
