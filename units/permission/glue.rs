verus! {

/// contents of the role tables (lazy_static R_*): uninterpreted here, decided on the extracted data by the table lemmas
pub uninterp spec fn role_table(role: int) -> Set<PathResource>;

pub struct VxLazyGroup<const ROLE: u8> {}
exec static R_VISITOR: VxLazyGroup<2> = VxLazyGroup {};
exec static R_DEVELOPER: VxLazyGroup<1> = VxLazyGroup {};
exec static R_MANAGER: VxLazyGroup<0> = VxLazyGroup {};

impl<const ROLE: u8> VxLazyGroup<ROLE> {
    /// model of `<lazy_static as Deref>::deref` followed by `Arc::as_ref`
    #[verifier::external_body]
    pub fn as_ref(&self) -> (r: &GroupResource)
        ensures r.path_resources@ == role_table(ROLE as int)
    { unimplemented!() }
}

/// A-KEY: derived Hash/Eq of PathResource are lawful
pub broadcast axiom fn axiom_path_resource_key_model()
    ensures #[trigger] vstd::std_specs::hash::obeys_key_model::<PathResource>();
pub broadcast axiom fn axiom_static_str_key_model()
    ensures #[trigger] vstd::std_specs::hash::obeys_key_model::<&'static str>();

} // verus!
