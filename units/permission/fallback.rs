// Bounded stand-in for unit permission (C17): the unit's contracts replayed natively on the real code over a bounded
// input space.  Runs only when the deductive check is undecided on the current source.  Never counted as proved.
use super::*;

fn expected_role(s: &str) -> i32 { match s { "0" => 0, "1" => 1, "2" => 2, _ => -1 } }
fn role_num(r: &UserRole) -> i32 {
    match r { UserRole::Manager => 0, UserRole::Developer => 1, UserRole::Visitor => 2, UserRole::OldConsole => 1, UserRole::None => -1 }
}
fn spec_match(pr: &PathResource, path: &str, method: &str) -> bool {
    let pp = if path.is_empty() { "/" } else { path };
    (pr.method.is_empty() || pr.method == method) && (pr.path.is_empty() || pr.path == pp)
}

#[test]
fn vx_fallback_permission() {
    // contract of UserRole::new: "0","1","2" and nothing else
    let alpha = ['0', '1', '2', '3', '9', ' ', ',', '-', 'a', 'A'];
    let mut inputs: Vec<String> = vec!["".to_string()];
    for a in alpha { inputs.push(a.to_string()); for b in alpha { inputs.push(format!("{}{}", a, b)); for c in alpha { inputs.push(format!("{}{}{}", a, b, c)); } } }
    for s in ["VISITOR", "DEVELOPER", "ADMIN", "MANAGER", "00", "01", "02", "256", "-1", "+0", "0x0", "２"] { inputs.push(s.to_string()); }
    for s in &inputs {
        let r = UserRole::new(s);
        assert!(role_num(&r) == expected_role(s), "VX-FALLBACK UserRole::new({:?}) = {:?}, contract says role {}", s, r, expected_role(s));
    }
    // contract of match_url_by_roles / match_url: granted iff some entry of the role's own table matches exactly
    let tables: [(&str, &GroupResource); 3] = [("0", R_MANAGER.as_ref()), ("1", R_DEVELOPER.as_ref()), ("2", R_VISITOR.as_ref())];
    let mut probes: Vec<(String, String)> = vec![];
    for (_, g) in tables.iter() { for pr in g.path_resources.iter() {
        for m in ["GET", "POST", "DELETE"] {
            probes.push((pr.path.to_string(), m.to_string()));
            probes.push((format!("{}/x", pr.path), m.to_string()));
            probes.push((pr.path.to_uppercase(), m.to_string()));
        }
    } }
    probes.push(("".to_string(), "GET".to_string()));
    for (role, g) in tables.iter() {
        for (p, m) in &probes {
            let want = g.path_resources.iter().any(|pr| spec_match(pr, p, m));
            let got = UserRole::match_url_by_roles(&vec![Arc::new(role.to_string())], p, m);
            assert!(got == want, "VX-FALLBACK match_url_by_roles(role {:?}, {:?}, {:?}) = {}, contract says {}", role, p, m, got, want);
        }
    }
    for s in &inputs {
        if expected_role(s) == -1 {
            assert!(!UserRole::match_url_by_roles(&vec![Arc::new(s.clone())], "/rnacos/api/console/user/add", "POST"), "VX-FALLBACK unknown role {:?} is granted a route", s);
        }
    }
}
