@@ PathResource::is_match_all_path spec
    ensures r == (self.path@ == ""@)
@@ PathResource::is_match_all_path entry
    proof { reveal_strlit(""); }
@@ PathResource::is_match_all_method spec
    ensures r == (self.method@ == ""@)
@@ PathResource::is_match_all_method entry
    proof { reveal_strlit(""); }
@@ PathResource::match_url spec
    ensures r == pr_match(*self, path@, method@)
@@ PathResource::match_url entry
    proof { reveal_strlit("/"); reveal_strlit(""); }
@@ ModuleResource::match_url t8 1
@@ ModuleResource::match_url foriter 1 it
@@ ModuleResource::match_url spec
    ensures r == set_match(self.path_resources@, path@, method@)
@@ ModuleResource::match_url entry
    broadcast use vstd::std_specs::hash::group_hash_axioms;
    broadcast use axiom_path_resource_key_model;
@@ ModuleResource::match_url loop 1
    invariant
        it.seq().unref().to_set() == self.path_resources@,
        forall|i: int| 0 <= i < it.index@ ==> !pr_match(*it.seq()[i], path@, method@),
@@ ModuleResource::match_url before_return 1
    proof {
        assert(it.seq().unref()[it.index@] == *item);
        assert(it.seq().unref().to_set().contains(*item));
    }
@@ GroupResource::match_url t8 1
@@ GroupResource::match_url foriter 1 it
@@ GroupResource::match_url spec
    ensures r == set_match(self.path_resources@, path@, method@)
@@ GroupResource::match_url entry
    broadcast use vstd::std_specs::hash::group_hash_axioms;
    broadcast use axiom_path_resource_key_model;
@@ GroupResource::match_url loop 1
    invariant
        it.seq().unref().to_set() == self.path_resources@,
        forall|i: int| 0 <= i < it.index@ ==> !pr_match(*it.seq()[i], path@, method@),
@@ GroupResource::match_url before_return 1
    proof {
        assert(it.seq().unref()[it.index@] == *item);
        assert(it.seq().unref().to_set().contains(*item));
    }
@@ UserRole::new spec
    ensures role_of(r) == role_id(role_value@), !(r is OldConsole)
@@ UserRole::new entry
    broadcast use group_std_extra;
    proof { reveal_strlit("0"); reveal_strlit("1"); reveal_strlit("2"); }
@@ UserRole::get_resources spec
    // a role maps to exactly its own table; no role: no table
    ensures role_of(*self) == -1 ==> r@.len() == 0,
        role_of(*self) != -1 ==> r@.len() == 1 && r@[0].path_resources@ == role_table(role_of(*self)),
@@ UserRole::match_url foriter 1 it
@@ UserRole::match_url spec
    ensures r == role_grants(role_of(*self), path@, method@)
@@ UserRole::match_url loop 1
    invariant
        forall|i: int| 0 <= i < it.index@ ==> !set_match(it.seq()[i].path_resources@, path@, method@),
        role_of(*self) == -1 ==> it.seq().len() == 0,
        role_of(*self) != -1 ==> it.seq().len() == 1 && it.seq()[0].path_resources@ == role_table(role_of(*self)),
@@ UserRole::match_url_by_roles foriter 1 it
@@ UserRole::match_url_by_roles spec
    // C17: granted iff one of the user's role values grants it; unknown role strings grant nothing
    ensures r == exists|i: int| 0 <= i < role_values@.len() && role_grants(role_id((*role_values@[i])@), path@, method@)
@@ UserRole::match_url_by_roles loop 1
    invariant
        it.seq().unref() == role_values@,
        forall|i: int| 0 <= i < it.index@ ==> !role_grants(role_id((*role_values@[i])@), path@, method@),
@@ ModuleResource::new foriter 1 it
@@ ModuleResource::new spec
    ensures r.path_resources@ == path_set_of(resources@)
@@ ModuleResource::new entry
    broadcast use vstd::std_specs::hash::group_hash_axioms;
    broadcast use axiom_path_resource_key_model;
    broadcast use axiom_static_str_key_model;
@@ ModuleResource::new loop 1
    invariant
        it.seq() == resources@,
        path_resources@ == path_set_of(it.seq().take(it.index@)),
@@ ModuleResource::new loop 1 body_entry
    broadcast use vstd::std_specs::hash::group_hash_axioms;
    broadcast use axiom_path_resource_key_model;
    broadcast use axiom_static_str_key_model;
    proof { assert(it.seq().take(it.index@ + 1).drop_last() =~= it.seq().take(it.index@)); }
@@ ModuleResource::new before_tail
    proof { assert(resources@.take(resources@.len() as int) =~= resources@); }
@@ GroupResource::new foriter 1 it
@@ GroupResource::new t8 2
@@ GroupResource::new foriter 2 it2
@@ GroupResource::new t8 3
@@ GroupResource::new foriter 3 it3
@@ GroupResource::new spec
    ensures r.path_resources@ == union_paths(module_resources@)
@@ GroupResource::new entry
    broadcast use vstd::std_specs::hash::group_hash_axioms;
    broadcast use axiom_path_resource_key_model;
    broadcast use axiom_static_str_key_model;
@@ GroupResource::new loop 1
    invariant
        it.seq() == module_resources@,
        path_resources@ == union_paths(it.seq().take(it.index@)),
@@ GroupResource::new loop 1 body_entry
    broadcast use vstd::std_specs::hash::group_hash_axioms;
    broadcast use axiom_path_resource_key_model;
    broadcast use axiom_static_str_key_model;
    let ghost acc0 = path_resources@;
    proof { assert(it.seq().take(it.index@ + 1).drop_last() =~= it.seq().take(it.index@)); }
@@ GroupResource::new loop 2
    invariant path_resources@ == acc0,
@@ GroupResource::new loop 2 body_entry
    broadcast use vstd::std_specs::hash::group_hash_axioms;
    broadcast use axiom_static_str_key_model;
@@ GroupResource::new loop 3
    invariant
        it3.seq().unref().to_set() == module.path_resources@,
        path_resources@ == acc0.union(seen(it3.seq(), it3.index@)),
        it3.index@ == it3.seq().len() ==> path_resources@ =~= acc0.union(module.path_resources@),
@@ GroupResource::new loop 3 body_entry
    broadcast use vstd::std_specs::hash::group_hash_axioms;
    broadcast use axiom_path_resource_key_model;
    proof { lemma_seen_step(it3.seq(), it3.index@); lemma_seen_all(it3.seq()); }
@@ GroupResource::new before_tail
    proof { assert(module_resources@.take(module_resources@.len() as int) =~= module_resources@); }
