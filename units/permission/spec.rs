verus! {

/// C17: exact, case-sensitive matching; "" method = every method, "" path = every path; an empty request path means "/"
pub open spec fn pr_match(pr: PathResource, path: Seq<char>, method: Seq<char>) -> bool {
    (pr.method@ == ""@ || pr.method@ == method)
    && (pr.path@ == ""@ || pr.path@ == (if path.len() == 0 { "/"@ } else { path }))
}
pub open spec fn set_match(s: Set<PathResource>, path: Seq<char>, method: Seq<char>) -> bool {
    exists|pr: PathResource| s.contains(pr) && pr_match(pr, path, method)
}
/// role strings: "0" manager, "1" developer, "2" visitor, anything else: no role
pub open spec fn role_id(v: Seq<char>) -> int {
    if v == "0"@ { 0 } else if v == "1"@ { 1 } else if v == "2"@ { 2 } else { -1 }
}
pub open spec fn role_of(r: UserRole) -> int {
    match r { UserRole::Manager => 0, UserRole::Developer => 1, UserRole::Visitor => 2, UserRole::OldConsole => 1, UserRole::None => -1 }
}
/// what a role value grants: its table, nothing for unknown roles
pub open spec fn role_grants(role: int, path: Seq<char>, method: Seq<char>) -> bool {
    0 <= role <= 2 && set_match(role_table(role), path, method)
}
/// the Path entries of a resource list
pub open spec fn path_set_of(rs: Seq<Resource>) -> Set<PathResource>
    decreases rs.len()
{
    if rs.len() == 0 { Set::empty() } else {
        let rest = path_set_of(rs.drop_last());
        match rs.last() { Resource::Path(p, m) => rest.insert(PathResource { path: p, method: m }), _ => rest }
    }
}
/// union of the path sets of a module list
pub open spec fn union_paths(ms: Seq<&ModuleResource>) -> Set<PathResource>
    decreases ms.len()
{
    if ms.len() == 0 { Set::empty() } else { union_paths(ms.drop_last()).union(ms.last().path_resources@) }
}
pub open spec fn seen(s: Seq<&PathResource>, n: int) -> Set<PathResource> {
    s.take(n).unref().to_set()
}
pub proof fn lemma_seen_step(s: Seq<&PathResource>, n: int)
    requires 0 <= n < s.len()
    ensures seen(s, n + 1) == seen(s, n).insert(*s[n]), seen(s, 0) == Set::<PathResource>::empty()
{
    let a = s.take(n + 1).unref();
    let b = s.take(n).unref();
    assert(a =~= b.push(*s[n]));
    assert(a.to_set() =~= b.to_set().insert(*s[n])) by {
        assert forall|x: PathResource| a.to_set().contains(x) <==> b.to_set().insert(*s[n]).contains(x) by {
            if a.contains(x) { let i = choose|i: int| 0 <= i < a.len() && a[i] == x; if i < n { assert(b[i] == x); } }
            if b.contains(x) { let i = choose|i: int| 0 <= i < b.len() && b[i] == x; assert(a[i] == x); }
            assert(a[n] == *s[n]);
        }
    }
    assert(s.take(0).unref().to_set() =~= Set::<PathResource>::empty());
}
pub proof fn lemma_seen_all(s: Seq<&PathResource>)
    ensures seen(s, s.len() as int) == s.unref().to_set()
{
    assert(s.take(s.len() as int) =~= s);
}

} // verus!
