@@ RaftDataHandler::load_log effects send do_send
@@ RaftDataHandler::load_log spec
    // C07 (start-up replay): exactly the messages the entry stands for, nothing else, whatever the components answer
    ensures
        r is Ok ==> final(vx_log).s == old(vx_log).s + effs(*self, *index_manager, req),
        r is Err ==> undecodable(req) && final(vx_log).s == old(vx_log).s,
@@ RaftDataHandler::apply_log_to_state_machine effects send do_send
@@ RaftDataHandler::apply_log_to_state_machine spec
    // C07 (leader): an applied entry has sent exactly the messages it stands for; when a component fails the entry's
    // message was still delivered at most once and nothing else was sent
    ensures
        r is Ok ==> final(vx_log).s == old(vx_log).s + effs(*self, *index_manager, req),
        r is Err ==> final(vx_log).s == old(vx_log).s + effs(*self, *index_manager, req) || (undecodable(req) && final(vx_log).s == old(vx_log).s),
@@ RaftDataHandler::do_send_log effects send do_send
@@ RaftDataHandler::do_send_log spec
    // C07 (follower replication)
    ensures
        r is Ok ==> final(vx_log).s == old(vx_log).s + effs(*self, *index_manager, req),
        r is Err ==> undecodable(req) && final(vx_log).s == old(vx_log).s,
@@ RaftDataHandler::load_log subst
    (&key as &str) => key.as_str()
@@ RaftDataHandler::apply_log_to_state_machine subst
    (&key as &str) => key.as_str()
@@ RaftDataHandler::do_send_log subst
    (&key as &str) => key.as_str()
@@ RaftDataHandler::load_log entry
    broadcast use axiom_eff_member;
@@ RaftDataHandler::apply_log_to_state_machine entry
    broadcast use axiom_eff_member;
@@ RaftDataHandler::do_send_log entry
    broadcast use axiom_eff_member;
@@ LogRecordLoaderInstance::load@LogRecordLoader effects_pass load_log
@@ LogRecordLoaderInstance::load@LogRecordLoader subst
    super::model::LogRecordDto => LogRecordDto
@@ LogRecordLoaderInstance::load@LogRecordLoader spec
    // C07 (start-up replay of one stored record): a record that carries a client request sends exactly that request's
    // messages; every other record sends nothing
    ensures
        r is Ok ==> final(vx_log).s == old(vx_log).s + (if req_of_record(record) is Some { effs(*self.data_wrap, self.index_manager, req_of_record(record).unwrap()) } else { seq![] }),
        r is Err ==> final(vx_log).s == old(vx_log).s,
@@ StateApplyManager::apply_snapshot effects do_send
@@ StateApplyManager::apply_snapshot effects_pass do_load_snapshot load_snapshot
@@ StateApplyManager::apply_snapshot chain 1
    env index_manager: Addr<RaftIndexManager>, file: Box<tokio::fs::File>, data_wrap: Arc<RaftDataHandler>, snapshot_manager: Addr<RaftSnapshotManager>, log_manager: Addr<RaftLogManager>
    returns anyhow::Result<()>
@@ StateApplyManager::apply_snapshot chain 1 spec
    // the future of the handler (T20): what it sends, as a function of the snapshot file it was given
    requires snap_image_ok(file.contents())
    ensures
        // @C08 the membership recorded in the snapshot goes to the index manager, unchanged, before anything else
        r is Ok ==> snap_hdr(file.contents()) is Some && final(vx_log).s.len() > old(vx_log).s.len()
            && final(vx_log).s.take(old(vx_log).s.len() as int) == old(vx_log).s
            && final(vx_log).s[old(vx_log).s.len() as int] == snap_member_eff(index_manager, snap_hdr(file.contents()).unwrap()),   // @C08
        r is Err ==> !snap_readable(*file),
        ?!data_wrap r is Err ==> final(vx_log).s == old(vx_log).s,
        ?data_wrap final(vx_log).s.len() >= old(vx_log).s.len() && final(vx_log).s.take(old(vx_log).s.len() as int) == old(vx_log).s,
        ?data_wrap r is Ok && snap_readable(*file) ==> final(vx_log).s == old(vx_log).s.push(snap_member_eff(index_manager, snap_hdr(file.contents()).unwrap())) + snap_effs_all(*data_wrap, snap_recs(file.contents())),   // @C08 @S22
@@ StateApplyManager::apply_snapshot chain 1 entry
    broadcast use axiom_eff_save_member, axiom_arc_cloned, axiom_addr_tbl;
    let ghost l0 = vx_log.s;
@@ StateApplyManager::apply_snapshot after_call do_send 1
    proof {
        let hd = reader.hdr();
        assert(vx_log.s.len() == l0.len() + 1);   // @C08
        assert(vx_log.s.take(l0.len() as int) =~= l0);   // @C08
        assert(*header == hd);   // @C08
        assert(snap_hdr(file.contents()) == Some(hd));   // @C08
        assert(vx_log.s[l0.len() as int].to == addr_id(index_manager));   // @C08
        assert(vx_log.s[l0.len() as int] == snap_member_eff(index_manager, hd));   // @C08
    }
@@ StateApplyManager::apply_snapshot chain 1 before_tail
    ?data_wrap proof { let rs = snap_recs(file.contents()); assert(rs.take(rs.len() as int) =~= rs); }   // @C08
@@ StateApplyManager::apply_snapshot entry
    broadcast use axiom_arc_cloned;
@@ StateApplyManager::apply_snapshot spec
    requires old(self).wired(), snap_image_ok(file.contents())
    ensures
        *final(self) == *old(self),
        // @C08 (membership) a readable snapshot file: its membership is saved first
        snap_readable(*file) ==> snap_hdr(file.contents()) is Some && final(vx_log).s.len() > old(vx_log).s.len()
            && final(vx_log).s.take(old(vx_log).s.len() as int) == old(vx_log).s
            && final(vx_log).s[old(vx_log).s.len() as int] == snap_member_eff(old(self).im(), snap_hdr(file.contents()).unwrap()),   // @C08
        // @C08 @S22 (data) ... and every record of the snapshot is handed to the component that owns its tree, as a restart would
        // do (the node must SERVE what the snapshot holds without being restarted)
        snap_readable(*file) ==> final(vx_log).s == old(vx_log).s.push(snap_member_eff(old(self).im(), snap_hdr(file.contents()).unwrap()))
            + snap_effs_all(old(self).h(), snap_recs(file.contents())),   // @C08 @S22
        !snap_readable(*file) ==> final(vx_log).s == old(vx_log).s || final(vx_log).s.take(old(vx_log).s.len() as int) == old(vx_log).s,
@@ StateApplyManager::do_load_snapshot effects_pass load_snapshot
@@ StateApplyManager::do_load_snapshot strip_mut reader
@@ StateApplyManager::do_load_snapshot spec
    requires reader.wf()
    // C01 / C08: every record the reader still holds is handed to the component that owns its tree, in file order; a record
    // that cannot be decoded is skipped (snap_effs of it is empty); an unreadable file ends the loading at the fault
    ensures
        r is Ok,
        exists|k: int| 0 <= k <= reader.remaining().len() && (!reader.faulty() ==> k == reader.remaining().len())
            && final(vx_log).s == old(vx_log).s + snap_effs_all(*data_wrap, #[trigger] reader.remaining().take(k)),
@@ StateApplyManager::do_load_snapshot loop 1
    invariant_except_break
        reader.faulty() == reader0.faulty(), reader.wf(),
        reader.remaining() == reader0.remaining().skip(k),
    invariant
        0 <= k <= reader0.remaining().len(),
        vx_log.s == l0 + snap_effs_all(*hw, reader0.remaining().take(k)), hw == data_wrap,
    ensures
        !reader0.faulty() ==> k == reader0.remaining().len(),
    decreases reader0.remaining().len() - k,
@@ StateApplyManager::do_load_snapshot entry
    let ghost l0 = vx_log.s;
    let ghost reader0 = reader;
    let ghost mut k: int = 0;
    let ghost hw = data_wrap;
    proof { lemma_snap_effs_all_step_arc(hw, reader0.remaining(), 0); assert(l0 + Seq::<Eff>::empty() =~= l0); }
@@ StateApplyManager::do_load_snapshot loop 1 body_entry
    proof {
        lemma_snap_effs_all_step_arc(hw, reader0.remaining(), k);
    }
@@ StateApplyManager::do_load_snapshot loop 1 body_exit
    proof { k = k + 1; }
@@ StateApplyManager::apply_request_to_state_machine effects_pass do_send_log
@@ StateApplyManager::apply_request_to_state_machine spec
    requires old(self).wired()
    ensures *final(self) == *old(self),
        r is Ok ==> final(vx_log).s == old(vx_log).s + effs(old(self).h(), old(self).im(), request.request),
        r is Err ==> undecodable(request.request) && final(vx_log).s == old(vx_log).s,
@@ StateApplyManager::async_apply_request_to_state_machine effects do_send
@@ StateApplyManager::async_apply_request_to_state_machine effects_pass apply_log_to_state_machine
@@ StateApplyManager::async_apply_request_to_state_machine spec
    // C07 (leader, one entry) + bookkeeping: after the entry's messages, the applied index — and only when it was applied
    ensures
        r is Ok ==> final(vx_log).s == (old(vx_log).s + effs(*raft_data_wrap, index_manager, request.request)).push(saved_applied(index_manager, request.index)),
        r is Err ==> final(vx_log).s == old(vx_log).s + effs(*raft_data_wrap, index_manager, request.request) || (undecodable(request.request) && final(vx_log).s == old(vx_log).s),
@@ StateApplyManager::handle@Handler<StateApplyRequest> effects do_send
@@ StateApplyManager::handle@Handler<StateApplyRequest> effects_pass apply_request_to_state_machine apply_snapshot
@@ StateApplyManager::handle@Handler<StateApplyRequest> t20_calls apply_snapshot
@@ StateApplyManager::handle@Handler<StateApplyRequest> foriter 1 it
@@ StateApplyManager::handle@Handler<StateApplyRequest> spec
    requires old(self).wired(), msg matches StateApplyRequest::ApplySnapshot { snapshot } ==> snap_image_ok(snapshot.contents())
    ensures
        // C07 (follower, one replicated batch of ANY length): the messages of every entry, in log order, then the applied index
        msg matches StateApplyRequest::ApplyBatchRequest(requests) ==> final(self).wired() && (
            (r is Ok ==> final(vx_log).s == (old(vx_log).s + effs_all(old(self).h(), old(self).im(), reqs_of(requests@))).push(saved_applied(old(self).im(), final(self).last_applied_log))
                && (requests@.len() > 0 ==> final(self).last_applied_log == requests@.last().index)
                && (requests@.len() == 0 ==> final(self).last_applied_log == old(self).last_applied_log))
            && (r is Err ==> exists|i: int| 0 <= i < requests@.len() && undecodable(#[trigger] requests@[i].request))
        ),
        // C08 (snapshot install, one message): the membership of the installed snapshot, then every record of it, handed to the
        // components before the next message is handled
        msg matches StateApplyRequest::ApplySnapshot { snapshot } ==> (snap_readable(*snapshot) ==>
            final(vx_log).s == old(vx_log).s.push(snap_member_eff(old(self).im(), snap_hdr(snapshot.contents()).unwrap()))
                + snap_effs_all(old(self).h(), snap_recs(snapshot.contents()))),   // @C08
@@ StateApplyManager::handle@Handler<StateApplyRequest> loop 1
    invariant
        it.seq() == requests0@, self.wired(), msg == StateApplyRequest::ApplyBatchRequest(requests0),
        self.last_applied_log == lal, self.index_manager == old(self).index_manager, self.data_wrap == old(self).data_wrap,
        vx_log.s == l0 + effs_all(old(self).h(), old(self).im(), reqs_of(requests0@.take(it.index@ as int))),
@@ StateApplyManager::handle@Handler<StateApplyRequest> loop 1 body_entry
    let ghost k = it.index@ as int;
    proof { lemma_effs_all_step(old(self).h(), old(self).im(), requests0@, k); assert(requests0@[k] == request); }
@@ StateApplyManager::handle@Handler<StateApplyRequest> subst
    super::raftindex::RaftIndexRequest => RaftIndexRequest
    Self::Context => Context<Self>
@@ StateApplyManager::handle@Handler<StateApplyRequest> entry
    let ghost l0 = vx_log.s;
    broadcast use axiom_eff_member;
@@ StateApplyManager::handle@Handler<StateApplyRequest> before_loop 1
    let ghost requests0 = requests;
    let ghost lal = self.last_applied_log;
    proof {
        assert(requests0@.take(0) =~= Seq::<ApplyRequestDto>::empty());
        assert(reqs_of(requests0@.take(0)).len() == 0);
        assert(l0 + effs_all(old(self).h(), old(self).im(), reqs_of(requests0@.take(0))) =~= l0);
    }
@@ StateApplyManager::handle@Handler<StateApplyRequest> after_loop 1
    proof { assert(requests0@.take(requests0@.len() as int) =~= requests0@); }
@@ RaftDataHandler::load_snapshot effects send do_send
@@ RaftDataHandler::load_snapshot subst
    ConfigKey::from(&String::from_utf8(record.key)? as &str) => ConfigKey::from(String::from_utf8(record.key)?.as_str())
    &key as &str == SEQ_KEY_CONFIG => AsRef::<str>::as_ref(&key) == SEQ_KEY_CONFIG
@@ RaftDataHandler::load_snapshot spec
    // C01 (restart, snapshot half): every snapshot record is handed, unchanged, to the component that owns its tree — and to
    // nobody else; nothing is sent for a record that cannot be decoded
    ensures
        r is Ok ==> final(vx_log).s == old(vx_log).s + snap_effs(*self, record),
        r is Err ==> final(vx_log).s == old(vx_log).s + snap_effs(*self, record) || (snap_undecodable(record) && final(vx_log).s == old(vx_log).s),
@@ RaftDataHandler::load_snapshot entry
    broadcast use axiom_eff_table_set;
@@ RaftDataHandler::build_snapshot effects send do_send
@@ RaftDataHandler::build_snapshot spec
    // C01 (compaction): all seven components are asked to write their state to THE writer, each exactly once
    ensures
        r is Ok ==> final(vx_log).s == old(vx_log).s + seq![
            sent(self.sequence_db, RaftApplyDataRequest::BuildSnapshot(writer)), sent(self.config, ConfigCmd::BuildSnapshot(writer)),
            sent(self.table, TableManagerInnerReq::BuildSnapshot(writer)), sent(self.namespace, RaftApplyDataRequest::BuildSnapshot(writer)),
            sent(self.mcp_manager, RaftApplyDataRequest::BuildSnapshot(writer)), sent(self.naming_actor, RaftApplyDataRequest::BuildSnapshot(writer)),
            sent(self.direct_cache_manager, RaftApplyDataRequest::BuildSnapshot(writer))],
@@ RaftDataHandler::load_complete effects send do_send
@@ RaftDataHandler::load_complete spec
    // C01: the end of loading is announced to the five components that wait for it, once each
    ensures r is Ok, final(vx_log).s == old(vx_log).s + seq![
        sent(self.namespace, RaftApplyDataRequest::LoadCompleted), sent(self.sequence_db, RaftApplyDataRequest::LoadCompleted),
        sent(self.mcp_manager, RaftApplyDataRequest::LoadCompleted), sent(self.naming_actor, RaftApplyDataRequest::LoadCompleted),
        sent(self.direct_cache_manager, RaftApplyDataRequest::LoadCompleted)],
@@ LogRecordLoaderInstance::new spec
    ensures r.data_wrap == data_wrap, r.index_manager == index_manager
@@ StateApplyManager::load_complete effects_pass load_complete
@@ StateApplyManager::load_complete spec
    ensures *final(self) == *old(self),
        final(vx_log).s == old(vx_log).s + (if old(self).data_wrap is Some { complete_effs(old(self).h()) } else { seq![] }),
@@ StateApplyManager::load_log effects send
@@ StateApplyManager::load_log effects_pass load_complete
@@ StateApplyManager::load_log chain 1
    env index_manager: Addr<RaftIndexManager>, data_wrap: Arc<RaftDataHandler>, snapshot_manager: Addr<RaftSnapshotManager>, log_manager: Addr<RaftLogManager>
    env loader: Arc<LogRecordLoaderInstance>, start_index: u64, end_index: u64
    returns anyhow::Result<()>
@@ StateApplyManager::load_log chain 1 spec
    ensures final(vx_log).s == old(vx_log).s.push(sent(log_manager, RaftLogManagerAsyncRequest::Load { start: start_index, end: end_index, loader })),
@@ StateApplyManager::load_log spec
    requires old(self).index_manager is Some, old(self).last_applied_log < u64::MAX
    // @C01 @C07 the replay request names exactly the entries behind the snapshot, then loading is declared complete
    ensures *final(self) == *old(self),
        final(vx_log).s == old(vx_log).s + old(self).replay_effs(),
@@ StateApplyManager::load_log entry
    broadcast use axiom_arc_cloned, axiom_eff_load;
    let ghost l0 = vx_log.s;
@@ StateApplyManager::load_snapshot effects send
@@ StateApplyManager::load_snapshot effects_pass load_log do_load_snapshot
@@ StateApplyManager::load_snapshot t20_calls load_log
@@ StateApplyManager::load_snapshot subst
    SnapshotReader::init(&path) => SnapshotReader::init(path.as_str())
@@ StateApplyManager::load_snapshot chain 1
    env index_manager: Addr<RaftIndexManager>, data_wrap: Arc<RaftDataHandler>, snapshot_manager: Addr<RaftSnapshotManager>, log_manager: Addr<RaftLogManager>
    returns anyhow::Result<()>
@@ StateApplyManager::load_snapshot chain 1 spec
    requires all_snapshot_images_ok()
    // the snapshot stage of a start-up: the snapshot manager is asked for the last snapshot; every record of the file it names is
    // handed to the component that owns its tree, in file order (up to a read fault)
    ensures
        final(vx_log).s == old(vx_log).s.push(sent(snapshot_manager, RaftSnapshotRequest::GetLastSnapshot))
        || exists|p: Seq<char>, k: int| 0 <= k <= snap_recs(disk_at_open(p)).len() && final(vx_log).s
            == old(vx_log).s.push(sent(snapshot_manager, RaftSnapshotRequest::GetLastSnapshot)) + snap_effs_all(*data_wrap, #[trigger] snap_recs(disk_at_open(p)).take(k)),
@@ StateApplyManager::load_snapshot spec
    requires old(self).fully_wired(), all_snapshot_images_ok()
    // @C01 restart: snapshot stage (when there is a snapshot), then the replay stage — in this order, nothing else
    ensures *final(self) == *old(self),
        old(self).snapshot_stage(old(vx_log).s, final(vx_log).s),
@@ StateApplyManager::load_snapshot entry
    broadcast use axiom_arc_cloned;
    let ghost l0 = vx_log.s;
@@ StateApplyManager::load_snapshot before_return 1
    proof { assert(*self == *old(self)); assert(vx_log.s == l0 + old(self).replay_effs()); }
@@ StateApplyManager::load_index effects send
@@ StateApplyManager::load_index effects_pass load_snapshot load_log
@@ StateApplyManager::load_index t20_calls load_snapshot load_log
@@ StateApplyManager::load_index subst
    super::raftindex::RaftIndexRequest => RaftIndexRequest
@@ StateApplyManager::load_index chain 1
    env index_manager: Addr<RaftIndexManager>, data_wrap: Arc<RaftDataHandler>, snapshot_manager: Addr<RaftSnapshotManager>, log_manager: Addr<RaftLogManager>
    returns anyhow::Result<RaftIndexResponse>
    expose
@@ StateApplyManager::load_index chain 1 spec
    ensures final(vx_log).s == old(vx_log).s.push(sent(index_manager, RaftIndexRequest::LoadIndexInfo)), reply_sane(r) || r is Err,
@@ StateApplyManager::load_index spec
    requires old(self).data_wrap is Some && old(self).index_manager is Some && old(self).log_manager is Some && old(self).snapshot_manager is Some,
        old(self).last_applied_log < u64::MAX, all_snapshot_images_ok()
    // @C01 @C07 start-up: the index manager is asked what was saved; the replay ends at the last APPLIED entry and starts behind the
    // LAST snapshot of the catalogue; then the snapshot stage and the replay stage run with exactly these two numbers
    ensures
        final(self).index_manager == old(self).index_manager && final(self).data_wrap == old(self).data_wrap
            && final(self).log_manager == old(self).log_manager && final(self).snapshot_manager == old(self).snapshot_manager,
        vx_done.chain@ is Some,
        (final(self).snapshot_next_index, final(self).last_applied_log) == old(self).indexes_from(vx_done.chain@.unwrap()),
        final(self).snapshot_stage(old(vx_log).s.push(sent(old(self).im(), RaftIndexRequest::LoadIndexInfo)), final(vx_log).s),
@@ StateApplyManager::load_index entry
    broadcast use axiom_arc_cloned, axiom_index_reply_sane;
@@ StateApplyManager::init effects_pass load_index
@@ StateApplyManager::init t20_calls load_index
@@ StateApplyManager::init spec
    requires old(self).data_wrap is Some && old(self).index_manager is Some && old(self).log_manager is Some && old(self).snapshot_manager is Some,
        old(self).last_applied_log < u64::MAX, all_snapshot_images_ok()
    ensures
        final(self).index_manager == old(self).index_manager && final(self).data_wrap == old(self).data_wrap
            && final(self).log_manager == old(self).log_manager && final(self).snapshot_manager == old(self).snapshot_manager,
        final(self).snapshot_stage(old(vx_log).s.push(sent(old(self).im(), RaftIndexRequest::LoadIndexInfo)), final(vx_log).s),
@@ FileStore::get_membership_config@RaftStorage<ClientRequest,ClientResponse> effects send
@@ FileStore::get_membership_config@RaftStorage<ClientRequest,ClientResponse> spec
    ensures final(vx_log).s == old(vx_log).s.push(sent(self.index_manager, RaftIndexRequest::LoadMember)),   // @C08
@@ FileStore::save_hard_state@RaftStorage<ClientRequest,ClientResponse> effects send
@@ FileStore::save_hard_state@RaftStorage<ClientRequest,ClientResponse> spec
    // C05 (storage boundary): a hard-state save is ONE SaveHardState message to the index manager with the term and the vote (0 = none)
    ensures final(vx_log).s == old(vx_log).s.push(sent(self.index_manager, RaftIndexRequest::SaveHardState {
            current_term: hs.current_term, voted_for: if hs.voted_for is Some { hs.voted_for.unwrap() } else { 0 } })),   // @C05
@@ FileStore::apply_entry_to_state_machine@RaftStorage<ClientRequest,ClientResponse> effects send
@@ FileStore::apply_entry_to_state_machine@RaftStorage<ClientRequest,ClientResponse> spec
    // C07 (storage boundary, leader): an entry handed to the store is ONE ApplyRequest(index, entry) to the apply manager; a store
    // whose writes are closed sends nothing and answers Err
    ensures
        self.closed() ==> r is Err && final(vx_log).s == old(vx_log).s,
        !self.closed() ==> final(vx_log).s == old(vx_log).s.push(sent(self.apply_manager,
            StateApplyAsyncRequest::ApplyRequest(ApplyRequestDto { index: *index, request: *data }))),
@@ FileStore::finalize_snapshot_installation@RaftStorage<ClientRequest,ClientResponse> effects send
@@ FileStore::finalize_snapshot_installation@RaftStorage<ClientRequest,ClientResponse> effects_pass get_membership_config
@@ FileStore::finalize_snapshot_installation@RaftStorage<ClientRequest,ClientResponse> subst
    id.parse()? => vx_parse_u64(&id)?
@@ FileStore::finalize_snapshot_installation@RaftStorage<ClientRequest,ClientResponse> spec
    requires delete_through is Some ==> delete_through.unwrap() < u64::MAX
    // C08 (storage boundary): an installed snapshot is (1) entered in the snapshot catalogue under the id the file was created with,
    // (2) handed to the apply manager — the very file — (3) the log below it is split off, (4) a pointer entry for (index, term, id)
    // is installed in the log; in this order, nothing else, and nothing at all when the id is not a number
    ensures
        parse_u64(id@) is None ==> r is Err && final(vx_log).s == old(vx_log).s,   // @C08
        r is Ok ==> parse_u64(id@) is Some && exists|rec: LogRecordDto| final(vx_log).s == old(vx_log).s + seq![
            sent(self.snapshot_manager, RaftSnapshotRequest::InstallSnapshot { end_index: index, snapshot_id: parse_u64(id@).unwrap() }),
            sent(self.apply_manager, StateApplyRequest::ApplySnapshot { snapshot }),
            sent(self.log_manager, RaftLogManagerRequest::SplitOff(if delete_through is Some { (delete_through.unwrap() + 1) as u64 } else { 0 })),
            sent(self.index_manager, RaftIndexRequest::LoadMember),
            #[trigger] sent(self.log_manager, RaftLogManagerRequest::InstallSnapshotPointerLog(rec))],   // @C08
@@ ApplyRequestDto::new spec
    ensures r.index == index, r.request == request
@@ FileStore::replicate_to_state_machine@RaftStorage<ClientRequest,ClientResponse> effects send
@@ FileStore::replicate_to_state_machine@RaftStorage<ClientRequest,ClientResponse> spec
    // C07 (storage boundary, follower): a replicated batch handed to the store is ONE ApplyBatchRequest to the apply manager that
    // holds every entry, unchanged, in the order given
    ensures
        self.closed() ==> r is Err && final(vx_log).s == old(vx_log).s,
        !self.closed() ==> exists|list: Vec<ApplyRequestDto>| final(vx_log).s == old(vx_log).s.push(#[trigger] sent(self.apply_manager, StateApplyRequest::ApplyBatchRequest(list)))
            && list@.len() == entries@.len() && forall|i: int| 0 <= i < list@.len() ==> (#[trigger] list@[i]).index == *entries@[i].0 && list@[i].request == *entries@[i].1,
@@ FileStore::replicate_to_state_machine@RaftStorage<ClientRequest,ClientResponse> foriter 1 it
@@ FileStore::replicate_to_state_machine@RaftStorage<ClientRequest,ClientResponse> loop 1
    invariant
        it.seq().unref() == entries@, list@.len() == it.index@,
        forall|i: int| 0 <= i < list@.len() ==> (#[trigger] list@[i]).index == *entries@[i].0 && list@[i].request == *entries@[i].1,
@@ FileStore::replicate_to_state_machine@RaftStorage<ClientRequest,ClientResponse> subst
    let mut list = Vec::with_capacity(entries.len()); => let mut list: Vec<ApplyRequestDto> = Vec::with_capacity(entries.len());
@@ FileStore::write_log_result_to_result spec
    // the store acknowledges a log write only for Success / Ignore
    ensures out is Ok <==> (r is Success || r is Ignore),
@@ FileStore::write_log_result_to_result ret out
@@ FileStore::append_entry_to_log@RaftStorage<ClientRequest,ClientResponse> effects send
@@ FileStore::append_entry_to_log@RaftStorage<ClientRequest,ClientResponse> subst
    tokio::sync::oneshot::channel() => oneshot_shim::channel()
    rx.await?? => rx.vx_recv().await??
@@ FileStore::append_entry_to_log@RaftStorage<ClientRequest,ClientResponse> spec
    // C07 / C02 (storage boundary): an appended entry is ONE Write message to the log manager carrying the entry's record; the append is
    // acknowledged only when the log manager reported the write
    ensures
        record_of_entry(*entry) is None ==> r is Err && final(vx_log).s == old(vx_log).s,
        record_of_entry(*entry) is Some ==> exists|tx: LogWriteResultSender| final(vx_log).s == old(vx_log).s.push(#[trigger] sent(self.log_manager,
            RaftLogManagerRequest::Write { record: record_of_entry(*entry).unwrap(), sender: tx })),
@@ FileStore::delete_logs_from@RaftStorage<ClientRequest,ClientResponse> effects send
@@ FileStore::delete_logs_from@RaftStorage<ClientRequest,ClientResponse> subst
    tokio::sync::oneshot::channel() => oneshot_shim::channel()
    rx.await?? => rx.vx_recv().await??
@@ FileStore::delete_logs_from@RaftStorage<ClientRequest,ClientResponse> spec
    // C03 (storage boundary): a conflict truncation is ONE StripLogToIndex message for exactly the first removed index
    ensures exists|tx: LogWriteResultSender| final(vx_log).s == old(vx_log).s.push(#[trigger] sent(self.log_manager,
            RaftLogManagerRequest::StripLogToIndex { end_index: start, sender: tx })),
@@ FileStore::replicate_to_log@RaftStorage<ClientRequest,ClientResponse> effects send
@@ FileStore::replicate_to_log@RaftStorage<ClientRequest,ClientResponse> subst
    tokio::sync::oneshot::channel() => oneshot_shim::channel()
    rx.await?? => rx.vx_recv().await??
    let mut records = Vec::with_capacity(entries.len()); => let mut records: Vec<LogRecordDto> = Vec::with_capacity(entries.len());
@@ FileStore::replicate_to_log@RaftStorage<ClientRequest,ClientResponse> foriter 1 it
@@ FileStore::replicate_to_log@RaftStorage<ClientRequest,ClientResponse> spec
    // C07 / C02 (storage boundary, follower): a replicated batch is ONE WriteBatch message holding the record of every entry, in the
    // order given; nothing is sent when an entry cannot be encoded
    ensures
        (exists|i: int| 0 <= i < entries@.len() && record_of_entry(#[trigger] entries@[i]) is None) ==> r is Err && final(vx_log).s == old(vx_log).s,
        (forall|i: int| 0 <= i < entries@.len() ==> record_of_entry(#[trigger] entries@[i]) is Some) ==>
            exists|tx: LogWriteResultSender, records: Vec<LogRecordDto>| final(vx_log).s == old(vx_log).s.push(#[trigger] sent(self.log_manager,
                RaftLogManagerRequest::WriteBatch { records, sender: tx }))
                && records@.len() == entries@.len() && forall|i: int| 0 <= i < records@.len() ==> #[trigger] records@[i] == record_of_entry(entries@[i]).unwrap(),
@@ FileStore::replicate_to_log@RaftStorage<ClientRequest,ClientResponse> loop 1
    invariant
        it.seq().unref() == entries@, records@.len() == it.index@, vx_log.s == old(vx_log).s,
        forall|i: int| 0 <= i < records@.len() ==> record_of_entry(#[trigger] entries@[i]) is Some && records@[i] == record_of_entry(entries@[i]).unwrap(),
@@ FileStore::get_initial_state@RaftStorage<ClientRequest,ClientResponse> effects send
@@ FileStore::get_initial_state@RaftStorage<ClientRequest,ClientResponse> effects_pass get_last_log_index
@@ FileStore::get_initial_state@RaftStorage<ClientRequest,ClientResponse> replies send
@@ FileStore::get_initial_state@RaftStorage<ClientRequest,ClientResponse> spec
    // C05 (storage boundary, restart): the hard state and the last-applied index the Raft core starts from are EXACTLY what the index
    // manager reports (which, by the handler contract in unit raftindex, is what was saved last): term unchanged, vote 0 = none
    ensures final(vx_replies).r.len() == old(vx_replies).r.len() + 1,   // @C05
        match final(vx_replies).r.last() {   // @C05
            ReplyVal::Index(Ok(Ok(RaftIndexResponse::RaftIndexInfo { raft_index, last_applied_log }))) => r is Ok
                && r.unwrap().hard_state.current_term == raft_index.current_term   // @C05
                && r.unwrap().hard_state.voted_for == (if raft_index.voted_for > 0 { Some(raft_index.voted_for) } else { None::<u64> })   // @C05
                && r.unwrap().last_applied_log == last_applied_log
                && r.unwrap().membership.members@ == raft_index.member@.to_set(),
            ReplyVal::Index(Ok(Ok(_))) => r is Ok,
            _ => r is Err,   // @C05
        },   // @C05
@@ FileStore::get_initial_state@RaftStorage<ClientRequest,ClientResponse> entry
    broadcast use axiom_reply_val_index;
@@ FileStore::get_last_log_index effects send
@@ FileStore::get_last_log_index spec
    ensures final(vx_log).s == old(vx_log).s.push(sent(self.log_manager, RaftLogManagerAsyncRequest::GetLastLogIndex)),
@@ StateApplyManager::do_build_snapshot effects send
@@ StateApplyManager::do_build_snapshot effects_pass build_snapshot
@@ StateApplyManager::do_build_snapshot replies send
@@ StateApplyManager::do_build_snapshot subst
    super::raftlog::RaftLogResponse::QueryResult => RaftLogResponse::QueryResult
    super::raftindex::RaftIndexRequest::LoadMember => RaftIndexRequest::LoadMember
    super::raftsnapshot::SnapshotWriterRequest::Flush => SnapshotWriterRequest::Flush
@@ StateApplyManager::do_build_snapshot spec
    requires last_index < u64::MAX
    // C01 (compaction at `last_index`): the term of that entry and the membership are asked for, a new snapshot is opened with a header
    // that carries exactly them and `last_index`, all seven components write into THAT writer, the writer is flushed, and the snapshot
    // is catalogued under the id it was opened with and the SAME index — in this order, nothing else
    ensures r is Ok ==> final(vx_replies).r.len() >= old(vx_replies).r.len() + 3,
        r is Ok ==> r.unwrap().0.last_index == last_index,
        r is Ok ==> (final(vx_replies).r[old(vx_replies).r.len() as int] matches ReplyVal::Log(Ok(Ok(RaftLogResponse::QueryResult(list))))
            && r.unwrap().0.last_term == (if list@.len() > 0 { list@.last().term } else { 0 })),
        r is Ok ==> (final(vx_replies).r[old(vx_replies).r.len() as int + 1] matches ReplyVal::Index(Ok(Ok(RaftIndexResponse::MemberShip { member, member_after_consensus, node_addrs })))
            && r.unwrap().0.member == member && r.unwrap().0.member_after_consensus == member_after_consensus && r.unwrap().0.node_addrs == node_addrs),
        r is Ok ==> (final(vx_replies).r[old(vx_replies).r.len() as int + 2] matches ReplyVal::Snapshot(Ok(Ok(RaftSnapshotResponse::NewSnapshot(writer, id2, path2))))
            && id2 == r.unwrap().2 && path2 == r.unwrap().1
            && final(vx_log).s == old(vx_log).s + seq![
                    sent(log_manager, RaftLogManagerAsyncRequest::Query { start: last_index, end: (last_index + 1) as u64 }),
                    sent(index_manager, RaftIndexRequest::LoadMember),
                    sent(snapshot_manager, RaftSnapshotRequest::NewSnapshot(r.unwrap().0))]
                + build_effs(*data_wrap, writer)
                + seq![sent(writer, SnapshotWriterRequest::Flush), sent(snapshot_manager, RaftSnapshotRequest::CompleteSnapshot(SnapshotRange { id: r.unwrap().2, end_index: last_index }))]),
@@ StateApplyManager::do_build_snapshot entry
    broadcast use axiom_reply_val_index, axiom_reply_val_log, axiom_reply_val_snapshot;
@@ RaftSnapshotManager::get_snapshot_path external
@@ RaftSnapshotManager::get_snapshot_path skip_body
@@ RaftSnapshotManager::get_next_id spec
    requires self.snapshots@.len() > 0 ==> self.snapshots@.last().id < u64::MAX
    // C01: a new snapshot gets the id behind the LAST snapshot of the catalogue (1 when there is none); refused while one is being built
    ensures *final(self) == *old(self),
        old(self).building is Some ==> r is Err,
        old(self).building is None ==> r is Ok && r.unwrap() == (if old(self).snapshots@.len() > 0 { (old(self).snapshots@.last().id + 1) as u64 } else { 1 }),
@@ RaftSnapshotManager::load_snapshot_header chain 1
    env path: String
    returns anyhow::Result<SnapshotHeaderDto>
@@ RaftSnapshotManager::load_snapshot_header subst
    SnapshotReader::init(&path) => SnapshotReader::init(path.as_str())
    Ok(reader.header) => Ok(reader.vx_into_header())
@@ RaftSnapshotManager::load_snapshot_header chain 1 spec
    requires all_snapshot_images_ok()
    ensures r is Ok ==> snap_hdr(disk_at_open(path@)) == Some(r.unwrap()), final(vx_log).s == old(vx_log).s,
@@ RaftSnapshotManager::load_snapshot_header spec
    requires all_snapshot_images_ok()
    // the header of the named snapshot file becomes the manager's last header (or nothing changes when the file cannot be read)
    ensures final(self).snapshots == old(self).snapshots && final(self).building == old(self).building && final(self).index_manager == old(self).index_manager
            && final(self).base_path == old(self).base_path && final(self).is_init == old(self).is_init,
        final(self).last_header == old(self).last_header || exists|p: Seq<char>| final(self).last_header == #[trigger] snap_hdr(disk_at_open(p)),
        final(vx_log).s == old(vx_log).s,
@@ RaftSnapshotManager::load_snapshot_header effects_sig
@@ RaftSnapshotManager::save_snapshot_to_index effects do_send
@@ RaftSnapshotManager::save_snapshot_to_index effects_pass load_snapshot_header
@@ RaftSnapshotManager::save_snapshot_to_index t20_calls load_snapshot_header
@@ RaftSnapshotManager::save_snapshot_to_index spec
    requires old(self).index_manager is Some, all_snapshot_images_ok()
    // C01: the catalogue as it is now goes to the index manager, ONE SaveSnapshots message
    ensures r is Ok, final(self).snapshots == old(self).snapshots && final(self).building == old(self).building && final(self).index_manager == old(self).index_manager,
        exists|v: Vec<SnapshotRange>| v@ == old(self).snapshots@ && final(vx_log).s == old(vx_log).s.push(#[trigger] sent(old(self).index_manager.unwrap(), RaftIndexRequest::SaveSnapshots(v))),
@@ RaftSnapshotManager::complete_snapshot effects_pass save_snapshot_to_index
@@ RaftSnapshotManager::complete_snapshot t20_calls save_snapshot_to_index
@@ RaftSnapshotManager::complete_snapshot subst
    std::fs::remove_file(path).ok(); => vx_std_fs::remove_file(path).ok();
    &self.snapshots[0..split_index] => vx_prefix(self.snapshots.as_slice(), split_index)
@@ RaftSnapshotManager::complete_snapshot spec
    requires old(self).index_manager is Some, all_snapshot_images_ok()
    // C01 (compaction, catalogue): a completed snapshot becomes the LAST entry of the catalogue; of the older ones only the most recent
    // is kept; the new catalogue is saved to the index manager (one message); nothing is being built any more
    ensures r is Ok, final(self).building is None, final(self).index_manager == old(self).index_manager,
        final(self).snapshots@ == (if old(self).snapshots@.len() > 1 { seq![old(self).snapshots@.last(), snapshot_range] } else { old(self).snapshots@.push(snapshot_range) }),
        exists|v: Vec<SnapshotRange>| v@ == final(self).snapshots@ && final(vx_log).s == old(vx_log).s.push(#[trigger] sent(old(self).index_manager.unwrap(), RaftIndexRequest::SaveSnapshots(v))),
@@ FileStore::do_log_compaction@RaftStorage<ClientRequest,ClientResponse> effects send
@@ FileStore::do_log_compaction@RaftStorage<ClientRequest,ClientResponse> replies send
@@ FileStore::do_log_compaction@RaftStorage<ClientRequest,ClientResponse> subst
    snapshot_id.to_string() => vx_u64_to_string(snapshot_id)
@@ FileStore::do_log_compaction@RaftStorage<ClientRequest,ClientResponse> spec
    // C01 (storage boundary, compaction): the apply manager is asked to build a snapshot; what it reports (header, file, id) is what the
    // Raft core gets back — index and term of the header — and, for a NEW snapshot (id != 0), ONE pointer entry for (index, term, id) goes
    // to the log manager; nothing else
    ensures final(vx_replies).r.len() >= old(vx_replies).r.len() + 1,
        r is Ok ==> (final(vx_replies).r[old(vx_replies).r.len() as int] matches ReplyVal::Apply(Ok(Ok(StateApplyResponse::Snapshot(header, path, snapshot_id))))
            && r.unwrap().index == header.last_index && r.unwrap().term == header.last_term
            && (snapshot_id == 0 ==> final(vx_log).s == old(vx_log).s.push(sent(self.apply_manager, StateApplyAsyncRequest::BuildSnapshot)))
            && (snapshot_id != 0 ==> exists|rec: LogRecordDto| final(vx_log).s == old(vx_log).s.push(sent(self.apply_manager, StateApplyAsyncRequest::BuildSnapshot))
                    .push(#[trigger] sent(self.log_manager, RaftLogManagerRequest::BuildSnapshotPointerLog(rec)))
                && Some(rec) == record_of_entry(pointer_entry(header.last_index, header.last_term, u64_text(snapshot_id), r.unwrap().membership)))),
@@ FileStore::do_log_compaction@RaftStorage<ClientRequest,ClientResponse> entry
    broadcast use axiom_reply_val_apply;
@@ FileStore::create_snapshot@RaftStorage<ClientRequest,ClientResponse> effects send
@@ FileStore::create_snapshot@RaftStorage<ClientRequest,ClientResponse> replies send
@@ FileStore::create_snapshot@RaftStorage<ClientRequest,ClientResponse> subst
    snapshot_id.to_string() => vx_u64_to_string(snapshot_id)
    .open(path.as_str()) => .open(&path)
@@ FileStore::create_snapshot@RaftStorage<ClientRequest,ClientResponse> spec
    // C08 (storage boundary): the file the Raft core fills with the leader's snapshot is NEW — it holds nothing, whatever a file of that
    // name held before — and is named by the id the snapshot manager handed out; ONE NewSnapshotForLoad message
    ensures final(vx_log).s == old(vx_log).s.push(sent(self.snapshot_manager, RaftSnapshotRequest::NewSnapshotForLoad)),   // @C08
        r is Ok ==> r.unwrap().1.contents().len() == 0,   // @C08 @S26
        r is Ok ==> (final(vx_replies).r.last() matches ReplyVal::Snapshot(Ok(Ok(RaftSnapshotResponse::NewSnapshotForLoad(path, snapshot_id))))
            && r.unwrap().0@ == u64_text(snapshot_id)),   // @C08
@@ FileStore::create_snapshot@RaftStorage<ClientRequest,ClientResponse> entry
    broadcast use axiom_reply_val_snapshot, axiom_reply_new_snapshot_for_load;
