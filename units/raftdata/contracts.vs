@@ RaftDataHandler::load_log effects send do_send
@@ RaftDataHandler::load_log spec
    // C07 (start-up replay): exactly the messages the entry stands for, nothing else, whatever the components answer
    ensures
        r is Ok ==> final(vx_log).s == old(vx_log).s + effs(*self, *index_manager, req),
        r is Err ==> undecodable(req) && final(vx_log).s == old(vx_log).s,
@@ RaftDataHandler::apply_log_to_state_machine effects send do_send
@@ RaftDataHandler::apply_log_to_state_machine spec
    // C07 (leader): an applied entry has sent exactly the messages it stands for; when a component fails the entry's
    // message was still delivered at most once and nothing else was sent
    ensures
        r is Ok ==> final(vx_log).s == old(vx_log).s + effs(*self, *index_manager, req),
        r is Err ==> final(vx_log).s == old(vx_log).s + effs(*self, *index_manager, req) || (undecodable(req) && final(vx_log).s == old(vx_log).s),
@@ RaftDataHandler::do_send_log effects send do_send
@@ RaftDataHandler::do_send_log spec
    // C07 (follower replication)
    ensures
        r is Ok ==> final(vx_log).s == old(vx_log).s + effs(*self, *index_manager, req),
        r is Err ==> undecodable(req) && final(vx_log).s == old(vx_log).s,
@@ RaftDataHandler::load_log subst
    (&key as &str) => key.as_str()
@@ RaftDataHandler::apply_log_to_state_machine subst
    (&key as &str) => key.as_str()
@@ RaftDataHandler::do_send_log subst
    (&key as &str) => key.as_str()
@@ RaftDataHandler::load_log entry
    broadcast use axiom_eff_member;
@@ RaftDataHandler::apply_log_to_state_machine entry
    broadcast use axiom_eff_member;
@@ RaftDataHandler::do_send_log entry
    broadcast use axiom_eff_member;
@@ LogRecordLoaderInstance::load@LogRecordLoader effects_pass load_log
@@ LogRecordLoaderInstance::load@LogRecordLoader subst
    super::model::LogRecordDto => LogRecordDto
@@ LogRecordLoaderInstance::load@LogRecordLoader spec
    // C07 (start-up replay of one stored record): a record that carries a client request sends exactly that request's
    // messages; every other record sends nothing
    ensures
        r is Ok ==> final(vx_log).s == old(vx_log).s + (if req_of_record(record) is Some { effs(*self.data_wrap, self.index_manager, req_of_record(record).unwrap()) } else { seq![] }),
        r is Err ==> final(vx_log).s == old(vx_log).s,
@@ StateApplyManager::apply_snapshot external
@@ StateApplyManager::apply_snapshot skip_body
@@ StateApplyManager::apply_request_to_state_machine effects_pass do_send_log
@@ StateApplyManager::apply_request_to_state_machine spec
    requires old(self).wired()
    ensures *final(self) == *old(self),
        r is Ok ==> final(vx_log).s == old(vx_log).s + effs(old(self).h(), old(self).im(), request.request),
        r is Err ==> undecodable(request.request) && final(vx_log).s == old(vx_log).s,
@@ StateApplyManager::async_apply_request_to_state_machine effects do_send
@@ StateApplyManager::async_apply_request_to_state_machine effects_pass apply_log_to_state_machine
@@ StateApplyManager::async_apply_request_to_state_machine spec
    // C07 (leader, one entry) + bookkeeping: after the entry's messages, the applied index — and only when it was applied
    ensures
        r is Ok ==> final(vx_log).s == (old(vx_log).s + effs(*raft_data_wrap, index_manager, request.request)).push(saved_applied(index_manager, request.index)),
        r is Err ==> final(vx_log).s == old(vx_log).s + effs(*raft_data_wrap, index_manager, request.request) || (undecodable(request.request) && final(vx_log).s == old(vx_log).s),
@@ StateApplyManager::handle@Handler<StateApplyRequest> effects do_send
@@ StateApplyManager::handle@Handler<StateApplyRequest> effects_pass apply_request_to_state_machine
@@ StateApplyManager::handle@Handler<StateApplyRequest> foriter 1 it
@@ StateApplyManager::handle@Handler<StateApplyRequest> spec
    requires old(self).wired()
    ensures
        // C07 (follower, one replicated batch of ANY length): the messages of every entry, in log order, then the applied index
        msg matches StateApplyRequest::ApplyBatchRequest(requests) ==> final(self).wired() && (
            (r is Ok ==> final(vx_log).s == (old(vx_log).s + effs_all(old(self).h(), old(self).im(), reqs_of(requests@))).push(saved_applied(old(self).im(), final(self).last_applied_log))
                && (requests@.len() > 0 ==> final(self).last_applied_log == requests@.last().index)
                && (requests@.len() == 0 ==> final(self).last_applied_log == old(self).last_applied_log))
            && (r is Err ==> exists|i: int| 0 <= i < requests@.len() && undecodable(#[trigger] requests@[i].request))
        ),
@@ StateApplyManager::handle@Handler<StateApplyRequest> loop 1
    invariant
        it.seq() == requests0@, self.wired(), msg == StateApplyRequest::ApplyBatchRequest(requests0),
        self.last_applied_log == lal, self.index_manager == old(self).index_manager, self.data_wrap == old(self).data_wrap,
        vx_log.s == l0 + effs_all(old(self).h(), old(self).im(), reqs_of(requests0@.take(it.index@ as int))),
@@ StateApplyManager::handle@Handler<StateApplyRequest> loop 1 body_entry
    let ghost k = it.index@ as int;
    proof { lemma_effs_all_step(old(self).h(), old(self).im(), requests0@, k); assert(requests0@[k] == request); }
@@ StateApplyManager::handle@Handler<StateApplyRequest> subst
    super::raftindex::RaftIndexRequest => RaftIndexRequest
    Self::Context => Context<Self>
@@ StateApplyManager::handle@Handler<StateApplyRequest> entry
    let ghost l0 = vx_log.s;
    broadcast use axiom_eff_member;
@@ StateApplyManager::handle@Handler<StateApplyRequest> before_loop 1
    let ghost requests0 = requests;
    let ghost lal = self.last_applied_log;
    proof {
        assert(requests0@.take(0) =~= Seq::<ApplyRequestDto>::empty());
        assert(reqs_of(requests0@.take(0)).len() == 0);
        assert(l0 + effs_all(old(self).h(), old(self).im(), reqs_of(requests0@.take(0))) =~= l0);
    }
@@ StateApplyManager::handle@Handler<StateApplyRequest> after_loop 1
    proof { assert(requests0@.take(requests0@.len() as int) =~= requests0@); }
@@ RaftDataHandler::load_snapshot effects send do_send
@@ RaftDataHandler::load_snapshot subst
    ConfigKey::from(&String::from_utf8(record.key)? as &str) => ConfigKey::from(String::from_utf8(record.key)?.as_str())
    &key as &str == SEQ_KEY_CONFIG => AsRef::<str>::as_ref(&key) == SEQ_KEY_CONFIG
@@ RaftDataHandler::load_snapshot spec
    // C01 (restart, snapshot half): every snapshot record is handed, unchanged, to the component that owns its tree — and to
    // nobody else; nothing is sent for a record that cannot be decoded
    ensures
        r is Ok ==> final(vx_log).s == old(vx_log).s + snap_effs(*self, record),
        r is Err ==> final(vx_log).s == old(vx_log).s + snap_effs(*self, record) || (snap_undecodable(record) && final(vx_log).s == old(vx_log).s),
@@ RaftDataHandler::load_snapshot entry
    broadcast use axiom_eff_table_set;
@@ RaftDataHandler::build_snapshot effects send do_send
@@ RaftDataHandler::build_snapshot spec
    // C01 (compaction): all seven components are asked to write their state to THE writer, each exactly once
    ensures
        r is Ok ==> final(vx_log).s == old(vx_log).s + seq![
            sent(self.sequence_db, RaftApplyDataRequest::BuildSnapshot(writer)), sent(self.config, ConfigCmd::BuildSnapshot(writer)),
            sent(self.table, TableManagerInnerReq::BuildSnapshot(writer)), sent(self.namespace, RaftApplyDataRequest::BuildSnapshot(writer)),
            sent(self.mcp_manager, RaftApplyDataRequest::BuildSnapshot(writer)), sent(self.naming_actor, RaftApplyDataRequest::BuildSnapshot(writer)),
            sent(self.direct_cache_manager, RaftApplyDataRequest::BuildSnapshot(writer))],
@@ RaftDataHandler::load_complete effects send do_send
@@ RaftDataHandler::load_complete spec
    // C01: the end of loading is announced to the five components that wait for it, once each
    ensures r is Ok, final(vx_log).s == old(vx_log).s + seq![
        sent(self.namespace, RaftApplyDataRequest::LoadCompleted), sent(self.sequence_db, RaftApplyDataRequest::LoadCompleted),
        sent(self.mcp_manager, RaftApplyDataRequest::LoadCompleted), sent(self.naming_actor, RaftApplyDataRequest::LoadCompleted),
        sent(self.direct_cache_manager, RaftApplyDataRequest::LoadCompleted)],
