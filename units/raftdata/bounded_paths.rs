// Bounded stand-in (always run, labelled bounded, never counted as proved) for the part of C07 that the dispatch-level proof
// leaves to assumptions A-ACTOR / A-FLAVOUR: what the REAL component actors make of the messages.
// Three independent sets of real actors (config, table manager, namespace, sequence db, MCP, naming, cache, Raft index
// manager) are driven with the same committed request sequence — set L through RaftDataHandler::apply_log_to_state_machine
// (leader), set F through do_send_log (follower, fire and forget), set R through load_log (start-up replay) — and then asked
// the same queries.  Every sequence of length <= 3 over an alphabet of 21 requests (all 11 ClientRequest variants).
// The observable answers must be identical on the three sets.
use super::*;
use crate::cache::actor_model::CacheSetParam;
use crate::cache::model::{CacheKey, CacheType, CacheValue};
use crate::cache::actor_model::CacheManagerRaftReq;
use crate::config::core::ConfigResult;
use crate::config::dal::ConfigHistoryParam;
use crate::config::model::ConfigHistoryItemDO;
use crate::mcp::model::actor_model::{McpManagerRaftReq, McpManagerReq, McpManagerResult};
use crate::mcp::model::mcp::McpServerParam;
use crate::namespace::model::{NamespaceParam, NamespaceQueryReq, NamespaceQueryResult, NamespaceRaftReq};
use crate::naming::core::{NamingCmd, NamingResult};
use crate::naming::model::actor_model::{InstanceRegisterParam, NamingRaftReq};
use crate::naming::model::{InstanceKey, ServiceKey};
use crate::raft::db::table::{TableManagerQueryReq, TableManagerResult};
use crate::raft::filestore::raftindex::RaftIndexResponse;
use crate::sequence::model::{SequenceRaftReq, SequenceRaftResult};
use std::collections::HashMap;
use std::sync::Arc;

struct NodeSet {
    h: RaftDataHandler,
    index: Addr<RaftIndexManager>,
}

fn s(v: &str) -> Arc<String> { Arc::new(v.to_owned()) }

/// the component actors of one node, wired by the REAL bean factory exactly as src/starter.rs wires them (config and naming
/// know the namespace actor, the table manager knows the cache, ...); beans that a single-process run does not have (raft
/// handle, connection manager, cluster senders) stay None, as every `inject` allows
async fn new_set(index: Addr<RaftIndexManager>) -> NodeSet {
    use bean_factory::{BeanDefinition, BeanFactory};
    let factory = BeanFactory::new();
    let config = ConfigActor::new().start();
    factory.register(BeanDefinition::actor_with_inject_from_obj::<ConfigActor>(config.clone()));
    let naming_actor = NamingActor::new().start();
    factory.register(BeanDefinition::actor_with_inject_from_obj(naming_actor.clone()));
    let namespace = NamespaceActor::new(1).start();
    factory.register(BeanDefinition::actor_with_inject_from_obj(namespace.clone()));
    let table = TableManager::new().start();
    factory.register(BeanDefinition::actor_with_inject_from_obj(table.clone()));
    let sequence_db = SequenceDbManager::new().start();
    factory.register(BeanDefinition::actor_from_obj(sequence_db.clone()));
    let mcp_manager = McpManager::new().start();
    factory.register(BeanDefinition::actor_with_inject_from_obj(mcp_manager.clone()));
    let direct_cache_manager = DirectCacheManager::new().start();
    factory.register(BeanDefinition::actor_with_inject_from_obj(direct_cache_manager.clone()));
    let _wired = factory.init().await;
    NodeSet { h: RaftDataHandler { config, table, namespace, sequence_db, mcp_manager, naming_actor, direct_cache_manager }, index }
}

const K1: &str = "app.yaml\x02DEFAULT_GROUP\x02";
const K2: &str = "db.properties\x02g2\x02ns1";

fn full_value_bytes() -> Vec<u8> {
    let d = ConfigValueDO {
        content: Some("full-content".to_owned()),
        histories: vec![
            ConfigHistoryItemDO { id: Some(31), content: Some("older".to_owned()), last_time: Some(1_700_000_000_031), op_user: Some("ops".to_owned()) },
            ConfigHistoryItemDO { id: Some(32), content: Some("full-content".to_owned()), last_time: Some(1_700_000_000_032), op_user: None },
        ],
        config_type: Some("yaml".to_owned()),
        desc: Some("restored".to_owned()),
    };
    d.to_bytes().unwrap()
}

fn instance_param(port: u32, weight: f32, enabled: bool) -> InstanceRegisterParam { instance_param_at(port, weight, enabled, 1_700_000_000_000) }

fn instance_param_at(port: u32, weight: f32, enabled: bool, stamp: i64) -> InstanceRegisterParam {
    let mut md = HashMap::new();
    md.insert("zone".to_owned(), format!("z{}", port));
    InstanceRegisterParam {
        ip: s("10.1.1.1"), port, weight, enabled, healthy: true, ephemeral: false, metadata: Arc::new(md),
        namespace_id: s("public"), group_name: s("DEFAULT_GROUP"), service_name: s("svc"), cluster_name: Some("DEFAULT".to_owned()),
        app_name: Some("app".to_owned()), last_modified_millis: stamp,
    }
}

const ALPHABET: usize = 21;

fn mcp_param(value_id: u64, description: &str, publish: Option<u64>) -> McpServerParam {
    McpServerParam { id: 1, unique_key: Some(s("mcp-key-1")), value_id, tools: vec![], op_user: s("ops"), update_time: 1_700_000_000_000 + value_id as i64,
        namespace: Some(s("ns1")), name: Some(s("srv")), description: Some(s(description)), token: Some(s("tok")), auth_keys: Some(vec![s("k1"), s("k2")]),
        publish_value_id: publish }
}

fn request(i: usize) -> ClientRequest {
    let users = s("T_USER");
    match i {
        0 => ClientRequest::ConfigSet { key: K1.to_owned(), value: s("v1"), config_type: None, desc: None, history_id: 1, history_table_id: None, op_time: 1_700_000_000_001, op_user: None },
        1 => ClientRequest::ConfigSet { key: K1.to_owned(), value: s("v2"), config_type: Some(s("json")), desc: Some(s("second")), history_id: 2, history_table_id: Some(12), op_time: 1_700_000_000_002, op_user: Some(s("alice")) },
        2 => ClientRequest::ConfigSet { key: K2.to_owned(), value: s("w"), config_type: Some(s("properties")), desc: None, history_id: 3, history_table_id: Some(300), op_time: 1_700_000_000_003, op_user: Some(s("bob")) },
        3 => ClientRequest::ConfigRemove { key: K1.to_owned() },
        4 => ClientRequest::ConfigFullValue { key: K1.as_bytes().to_vec(), value: full_value_bytes(), last_seq_id: Some(40) },
        5 => ClientRequest::McpReq { req: McpManagerRaftReq::UpdateServer(mcp_param(13, "second description", None)) },
        6 => ClientRequest::TableManagerReq(TableManagerReq::Set { table_name: users, key: b"u1".to_vec(), value: b"user-one".to_vec(), last_seq_id: None }),
        7 => ClientRequest::TableManagerReq(TableManagerReq::Set { table_name: users, key: b"u2".to_vec(), value: b"user-two".to_vec(), last_seq_id: Some(9) }),
        8 => ClientRequest::TableManagerReq(TableManagerReq::Remove { table_name: users, key: b"u1".to_vec() }),
        9 => ClientRequest::TableManagerReq(TableManagerReq::NextId { table_name: users, seq_step: Some(1) }),
        10 => ClientRequest::NamespaceReq(NamespaceRaftReq::Set(NamespaceParam { namespace_id: s("ns1"), namespace_name: Some("first".to_owned()), r#type: None })),
        11 => ClientRequest::NamespaceReq(NamespaceRaftReq::Delete { id: s("ns1") }),
        12 => ClientRequest::SequenceReq { req: SequenceRaftReq::NextId(s("seq")) },
        13 => ClientRequest::SequenceReq { req: SequenceRaftReq::NextRange(s("seq"), 10) },
        14 => ClientRequest::SequenceReq { req: SequenceRaftReq::SetId(s("seq"), 5) },
        15 => ClientRequest::NamingReq { req: NamingRaftReq::RegisterInstance { param: instance_param(8080, 2.0, true) } },
        16 => ClientRequest::NamingReq { req: NamingRaftReq::UpdateInstance { param: instance_param(8080, 0.5, false) } },
        17 => ClientRequest::NamingReq { req: NamingRaftReq::RemoveInstance(InstanceKey::new_by_service_key(
            &ServiceKey::new("public", "DEFAULT_GROUP", "svc"), s("10.1.1.1"), 8080)) },
        18 => ClientRequest::CacheReq { req: CacheManagerRaftReq::Set(CacheSetParam::new(CacheKey::new(CacheType::String, s("ck")), CacheValue::String(s("cv")))) },
        19 => ClientRequest::McpReq { req: McpManagerRaftReq::AddServer(mcp_param(11, "first description", Some(12))) },
        _ => ClientRequest::McpReq { req: McpManagerRaftReq::RemoveServer(1) },
    }
}

/// the requests whose fields carry the ORIGINATING node's clock, stamped at the moment the request is made
fn request_at(i: usize, stamp: i64) -> ClientRequest {
    match i {
        15 => ClientRequest::NamingReq { req: NamingRaftReq::RegisterInstance { param: instance_param_at(8080, 2.0, true, stamp) } },
        16 => ClientRequest::NamingReq { req: NamingRaftReq::UpdateInstance { param: instance_param_at(8080, 0.5, false, stamp) } },
        0 => ClientRequest::ConfigSet { key: K1.to_owned(), value: s("v1"), config_type: None, desc: None, history_id: 1, history_table_id: None, op_time: stamp, op_user: None },
        1 => ClientRequest::ConfigSet { key: K1.to_owned(), value: s("v2"), config_type: Some(s("json")), desc: Some(s("second")), history_id: 2, history_table_id: Some(12), op_time: stamp, op_user: Some(s("alice")) },
        _ => request(i),
    }
}

fn now_ms() -> i64 { std::time::SystemTime::now().duration_since(std::time::UNIX_EPOCH).unwrap().as_millis() as i64 }

fn extra_request(i: usize) -> ClientRequest {
    // the index-manager variants: applied once per run (they write a file), not inside the enumeration
    if i == 0 { ClientRequest::NodeAddr { id: 2, addr: s("127.0.0.1:9902") } } else { ClientRequest::Members(vec![1, 2]) }
}

async fn observe(n: &NodeSet) -> String {
    let mut out = String::new();
    for k in [K1, K2] {
        let key: ConfigKey = k.into();
        match n.h.config.send(ConfigCmd::GET(key.clone())).await.unwrap().unwrap() {
            ConfigResult::Data { value, md5, config_type, desc, last_modified } =>
                out.push_str(&format!("cfg[{:?}]=({},{},{:?},{:?},{}) ", k, value, md5, config_type, desc, last_modified)),
            _ => out.push_str(&format!("cfg[{:?}]=none ", k)),
        }
        let p = ConfigHistoryParam { tenant: Some(key.tenant.to_string()), group: Some(key.group.to_string()), data_id: Some(key.data_id.to_string()),
            order_by: None, order_by_desc: None, limit: Some(50), offset: Some(0), ..Default::default() };
        if let ConfigResult::ConfigHistoryInfoPage(total, list) = n.h.config.send(ConfigCmd::QueryHistoryPageInfo(Box::new(p))).await.unwrap().unwrap() {
            out.push_str(&format!("hist[{:?}]={}:", k, total));
            for e in list { out.push_str(&format!("({:?},{:?},{:?},{:?})", e.id, e.content, e.modified_time, e.op_user)); }
            out.push(' ');
        }
    }
    if let ConfigResult::SequenceSection { start, end } = n.h.config.send(ConfigCmd::GetSequenceSection(1)).await.unwrap().unwrap() {
        out.push_str(&format!("cfgseq=({},{}) ", start, end));
    }
    match n.h.table.send(TableManagerQueryReq::QueryPageList { table_name: s("T_USER"), like_key: None, offset: None, limit: None, is_rev: false }).await.unwrap().unwrap() {
        TableManagerResult::PageListResult(size, list) => out.push_str(&format!("table={}:{:?} ", size, list)),
        _ => out.push_str("table=? "),
    }
    match n.h.table.send(TableManagerReq::NextId { table_name: s("T_USER"), seq_step: Some(1) }).await.unwrap() {
        Ok(TableManagerResult::NextId(id)) => out.push_str(&format!("tableseq={} ", id)),
        Ok(_) => out.push_str("tableseq=? "),
        Err(_) => out.push_str("tableseq=err "),
    }
    if let NamespaceQueryResult::List(list) = n.h.namespace.send(NamespaceQueryReq::List).await.unwrap().unwrap() {
        let mut l: Vec<String> = list.iter().map(|x| format!("{}={}:{}", x.namespace_id, x.namespace_name, x.flag)).collect();
        l.sort();
        out.push_str(&format!("ns={:?} ", l));
    }
    match n.h.sequence_db.send(SequenceRaftReq::NextId(s("seq"))).await.unwrap().unwrap() {
        SequenceRaftResult::NextId(id) => out.push_str(&format!("seq={} ", id)),
        _ => out.push_str("seq=? "),
    }
    match n.h.naming_actor.send(NamingCmd::QueryAllInstanceList(ServiceKey::new("public", "DEFAULT_GROUP", "svc"))).await.unwrap().unwrap() {
        NamingResult::InstanceList(list) => {
            let mut l: Vec<String> = list.iter().map(|x| format!("{}:{} w{} en{} h{} eph{} md{:?} cl{}", x.ip, x.port, x.weight, x.enabled, x.healthy, x.ephemeral,
                { let mut m: Vec<_> = x.metadata.iter().collect(); m.sort(); m }, x.cluster_name)).collect();
            l.sort();
            out.push_str(&format!("naming={:?} ", l));
        }
        _ => out.push_str("naming=? "),
    }
    match n.h.mcp_manager.send(McpManagerReq::GetServer(1)).await.unwrap() {
        Ok(McpManagerResult::ServerInfo(srv)) => out.push_str(&format!("mcp={:?} ", srv).replace(' ', "_").replace("mcp=", " mcp=")),
        _ => out.push_str("mcp=? "),
    }
    out.push(' ');
    match n.h.direct_cache_manager.send(CacheManagerRaftReq::Get(CacheKey::new(CacheType::String, s("ck")))).await.unwrap() {
        Ok(r) => out.push_str(&format!("cache={:?} ", r)),
        Err(_) => out.push_str("cache=err "),
    }
    out
}

async fn observe_index(n: &NodeSet) -> String {
    match n.index.send(RaftIndexRequest::LoadIndexInfo).await.unwrap().unwrap() {
        RaftIndexResponse::RaftIndexInfo { raft_index, .. } => {
            let mut a: Vec<_> = raft_index.node_addrs.iter().map(|(k, v)| format!("{}={}", k, v)).collect();
            a.sort();
            format!("member={:?} after={:?} addrs={:?}", raft_index.member, raft_index.member_after_consensus, a)
        }
        _ => "index=?".to_owned(),
    }
}

fn seq_name(seq: &[usize]) -> String { seq.iter().map(|x| x.to_string()).collect::<Vec<_>>().join("-") }

#[test]
fn vx_bounded_c07_paths() {
    let base = std::env::temp_dir().join(format!("vx_c07_{}", std::process::id()));
    let _ = std::fs::remove_dir_all(&base);
    let sys = actix::System::new();
    let failures: Vec<String> = sys.block_on(async {
        let mut failures: Vec<String> = vec![];
        let mut index = vec![];
        for p in ["leader", "follower", "replay"] {
            let dir = base.join(p);
            std::fs::create_dir_all(&dir).unwrap();
            index.push(RaftIndexManager::new(Arc::new(dir.to_string_lossy().to_string())).start());
        }
        let mut seqs: Vec<Vec<usize>> = vec![];
        for a in 0..ALPHABET {
            seqs.push(vec![a]);
            for b in 0..ALPHABET {
                seqs.push(vec![a, b]);
                for c in 0..ALPHABET { seqs.push(vec![a, b, c]); }
            }
        }
        let mut checked = 0u64;
        for seq in seqs.iter() {
            let l = new_set(index[0].clone()).await;
            let f = new_set(index[1].clone()).await;
            let r = new_set(index[2].clone()).await;
            for &i in seq.iter() {
                let _ = l.h.apply_log_to_state_machine(request(i), &l.index).await;
                let _ = f.h.do_send_log(request(i), &f.index);
                let _ = r.h.load_log(request(i), &r.index).await;
            }
            let (ol, of, or) = (observe(&l).await, observe(&f).await, observe(&r).await);
            checked += 1;
            // reachability: the requests really change what is observed (a comparison of three empty answers proves nothing)
            if seq.len() == 1 {
                let want = match seq[0] { 0 => "v1", 1 => "json", 2 => "properties", 4 => "full-content", 6 => "117, 115, 101, 114, 45, 111, 110, 101", 10 => "ns1=first", 13 => "seq=11",
                    14 => "seq=5", 15 => "10.1.1.1:8080 w2", 18 => "cv", 19 => "first_description", _ => "" };
                if !ol.contains(want) { failures.push(format!("VX-BOUNDED-FAIL VACUITY request {} is not visible in the observation: {}", seq[0], ol)); }
            }
            if of != ol && failures.len() < 12 {
                failures.push(format!("VX-BOUNDED-FAIL SEQ {} follower differs from leader:\n   leader   {}\n   follower {}", seq_name(seq), ol, of));
            }
            if or != ol && failures.len() < 12 {
                failures.push(format!("VX-BOUNDED-FAIL SEQ {} replay differs from leader:\n   leader {}\n   replay {}", seq_name(seq), ol, or));
            }
        }
        // ---- the same log applied LATER: requests are stamped with the clock of the moment they are made and applied at once on the
        //      leader and the follower (2 ms apart, as live traffic is); the replay node applies the stored log 12 ms after the last
        //      entry, as a restart does.  Nothing a component stores may depend on WHEN the entry is applied.
        let timed = [15usize, 16, 17, 0, 1, 3];
        let mut tseqs: Vec<Vec<usize>> = vec![];
        for a in timed { for b in timed { tseqs.push(vec![a, b]); for c in timed { tseqs.push(vec![a, b, c]); } } }
        for seq in tseqs.iter() {
            let l = new_set(index[0].clone()).await;
            let f = new_set(index[1].clone()).await;
            let r = new_set(index[2].clone()).await;
            let mut stored: Vec<ClientRequest> = vec![];
            for &i in seq.iter() {
                let req = request_at(i, now_ms());
                stored.push(req.clone());
                let _ = l.h.apply_log_to_state_machine(req.clone(), &l.index).await;
                let _ = f.h.do_send_log(req, &f.index);
                tokio::time::sleep(std::time::Duration::from_millis(2)).await;
            }
            tokio::time::sleep(std::time::Duration::from_millis(12)).await;
            for req in stored { let _ = r.h.load_log(req, &r.index).await; }
            let (ol, of, or) = (observe(&l).await, observe(&f).await, observe(&r).await);
            checked += 1;
            if of != ol && failures.len() < 12 { failures.push(format!("VX-BOUNDED-FAIL LATER {} follower differs from leader:\n   leader   {}\n   follower {}", seq_name(seq), ol, of)); }
            if or != ol && failures.len() < 12 { failures.push(format!("VX-BOUNDED-FAIL LATER {} a node that replays the log later differs from the leader:\n   leader {}\n   replay {}", seq_name(seq), ol, or)); }
        }
        // ---- one LONG follower batch: the follower path hands a whole replicated batch to the components in one synchronous
        //      handler run (StateApplyManager::handle, ApplyBatchRequest) — the component actors cannot take anything from their
        //      mailboxes meanwhile, so 60 entries for one component sit in its mailbox at once (actix' default capacity is 16)
        {
            let l = new_set(index[0].clone()).await;
            let f = new_set(index[1].clone()).await;
            let r = new_set(index[2].clone()).await;
            let batch: Vec<ClientRequest> = (0..60usize).map(|i| ClientRequest::TableManagerReq(TableManagerReq::Set {
                table_name: s("T_USER"), key: format!("batch-user-{:02}", i).into_bytes(), value: format!("value-{}", i).into_bytes(), last_seq_id: None })).collect();
            for req in batch.iter() { let _ = l.h.apply_log_to_state_machine(req.clone(), &l.index).await; }
            for req in batch.iter() { let _ = f.h.do_send_log(req.clone(), &f.index); }      // no await in between: one handler run
            for req in batch.iter() { let _ = r.h.load_log(req.clone(), &r.index).await; }
            let (ol, of, or) = (observe(&l).await, observe(&f).await, observe(&r).await);
            checked += 1;
            if of != ol { failures.push(format!("VX-BOUNDED-FAIL BATCH 60 table writes in one replicated batch: follower differs from leader:\n   leader   {}\n   follower {}", &ol[..ol.len().min(300)], &of[..of.len().min(300)])); }
            if or != ol { failures.push(format!("VX-BOUNDED-FAIL BATCH 60 table writes replayed: replay differs from leader:\n   leader {}\n   replay {}", &ol[..ol.len().min(300)], &or[..or.len().min(300)])); }
        }
        // the index-manager variants, once
        let l = new_set(index[0].clone()).await;
        let f = new_set(index[1].clone()).await;
        let r = new_set(index[2].clone()).await;
        for i in 0..2 {
            let _ = l.h.apply_log_to_state_machine(extra_request(i), &l.index).await;
            let _ = f.h.do_send_log(extra_request(i), &f.index);
            let _ = r.h.load_log(extra_request(i), &r.index).await;
            let (ol, of, or) = (observe_index(&l).await, observe_index(&f).await, observe_index(&r).await);
            if of != ol { failures.push(format!("VX-BOUNDED-FAIL INDEX {} follower {} leader {}", i, of, ol)); }
            if or != ol { failures.push(format!("VX-BOUNDED-FAIL INDEX {} replay {} leader {}", i, or, ol)); }
        }
        println!("vx_bounded_c07_paths: {} request sequences compared on three actor sets", checked);
        failures
    });
    let _ = std::fs::remove_dir_all(&base);
    for f in failures.iter() { println!("{}", f); }
    assert!(failures.is_empty(), "{} divergences between the apply paths", failures.len());
}


// ------------------------------------------------------------------------------------------------------------------------
// Bounded stand-in for C01 (served state survives restart: snapshot plus log replay), component level: node A applies a
// request sequence through the leader path; at a cut point its seven real component actors write a snapshot through the real
// SnapshotWriterActor into a real file; a fresh node B loads that file through the real SnapshotReader +
// RaftDataHandler::load_snapshot + load_complete and replays the entries behind the cut through load_log.  B must answer every
// query as A does.  Every sequence of length <= 2 with every cut point, every sequence of length 3 with the cut after the
// first or after the second entry (alternating).
use crate::raft::filestore::model::SnapshotHeaderDto;
use crate::raft::filestore::raftsnapshot::{SnapshotReader, SnapshotWriterRequest};

async fn snapshot_and_restore(a: &NodeSet, b: &NodeSet, path: &str) -> anyhow::Result<usize> {
    let _ = std::fs::remove_file(path);
    let header = SnapshotHeaderDto { last_index: 7, last_term: 1, member: vec![1], member_after_consensus: vec![], node_addrs: HashMap::new() };
    let writer = SnapshotWriterActor::new(Arc::new(path.to_owned()), header).start();
    a.h.build_snapshot(writer.clone()).await?;
    writer.send(SnapshotWriterRequest::Flush).await??;
    let mut reader = SnapshotReader::init(path).await?;
    let mut n = 0;
    while let Some(record) = reader.read_record().await? {
        b.h.load_snapshot(record).await?;
        n += 1;
    }
    b.h.load_complete()?;
    Ok(n)
}

fn without_field(obs: &str, field: &str) -> (String, String) {
    match obs.find(field) {
        Some(i) => { let j = obs[i..].find(' ').map(|k| i + k + 1).unwrap_or(obs.len()); (format!("{}{}", &obs[..i], &obs[j..]), obs[i..j].trim().to_owned()) }
        None => (obs.to_owned(), String::new()),
    }
}

#[test]
fn vx_bounded_c01_restart() {
    let base = std::env::temp_dir().join(format!("vx_c01_{}", std::process::id()));
    let _ = std::fs::remove_dir_all(&base);
    std::fs::create_dir_all(&base).unwrap();
    let sys = actix::System::new();
    let failures: Vec<String> = sys.block_on(async {
        let mut failures: Vec<String> = vec![];
        let mut index = vec![];
        for p in ["before", "after"] {
            let dir = base.join(p);
            std::fs::create_dir_all(&dir).unwrap();
            index.push(RaftIndexManager::new(Arc::new(dir.to_string_lossy().to_string())).start());
        }
        let snap = base.join("snapshot.data").to_string_lossy().to_string();
        let mut runs: Vec<(Vec<usize>, usize)> = vec![];
        for a in 0..ALPHABET {
            for cut in 0..=1 { runs.push((vec![a], cut)); }
            for b in 0..ALPHABET {
                for cut in 0..=2 { runs.push((vec![a, b], cut)); }
                for c in 0..ALPHABET { runs.push((vec![a, b, c], 1 + (a + b + c) % 2)); }
            }
        }
        let mut checked = 0u64;
        let mut records = 0usize;
        let mut tableseq_lost = 0u64;
        let mut cache_only = 0u64;
        let mut tableseq_example = String::new();
        for (seq, cut) in runs.iter() {
            let a = new_set(index[0].clone()).await;
            let b = new_set(index[1].clone()).await;
            for &i in seq[..*cut].iter() { let _ = a.h.apply_log_to_state_machine(request(i), &a.index).await; }
            match snapshot_and_restore(&a, &b, &snap).await {
                Ok(n) => records += n,
                Err(e) => { if failures.len() < 12 { failures.push(format!("VX-BOUNDED-FAIL RESTART {} cut {}: snapshot / restore failed: {}", seq_name(seq), cut, e)); } continue; }
            }
            for &i in seq[*cut..].iter() {
                let _ = a.h.apply_log_to_state_machine(request(i), &a.index).await;
                let _ = b.h.load_log(request(i), &b.index).await;
            }
            let (oa, ob) = (observe(&a).await, observe(&b).await);
            checked += 1;
            if oa != ob {
                // the id counter of a table (TableManagerReq::NextId / Set{last_seq_id}) is reported apart from everything else
                // cache entries (login sessions, rate limiters) are not in the statement's list of served state: not compared here
                let (oa, _) = without_field(&oa, "cache=");
                let (ob, _) = without_field(&ob, "cache=");
                let (ma, ta) = without_field(&oa, "tableseq=");
                let (mb, tb) = without_field(&ob, "tableseq=");
                if oa == ob {
                    cache_only += 1;
                } else if ma == mb {
                    tableseq_lost += 1;
                    if tableseq_example.is_empty() { tableseq_example = format!("sequence {} compacted after {} entries: before {} after {}", seq_name(seq), cut, ta, tb); }
                } else if failures.len() < 12 {
                    failures.push(format!("VX-BOUNDED-FAIL RESTART {} cut {}: the restarted node differs:\n   before  {}\n   after   {}", seq_name(seq), cut, oa, ob));
                }
            }
        }
        if tableseq_lost > 0 {
            failures.push(format!("VX-BOUNDED-FAIL TABLESEQ lost-on-snapshot in {} of {} runs (everything else identical), e.g. {}", tableseq_lost, checked, tableseq_example));
        }
        if records == 0 { failures.push("VX-BOUNDED-FAIL VACUITY no snapshot record was ever written".to_owned()); }
        println!("vx_bounded_c01_restart: {} (sequence, compaction point) pairs, {} snapshot records restored; {} runs differ only in the direct cache (not compared)", checked, records, cache_only);
        failures
    });
    let _ = std::fs::remove_dir_all(&base);
    for f in failures.iter() { println!("{}", f); }
    assert!(failures.is_empty(), "{} differences between a node and its restarted self", failures.len());
}
