// Bounded stand-in (always run, labelled bounded, never counted as proved) for C08: what the component actors of a follower SERVE
// after it was caught up by a snapshot install — the half of the property that the proof (effect log: every snapshot record is
// handed to the component that owns its tree) only ASSUMES (A-ACTOR).
// Two nodes in one process, each the real storage actor chain behind the real `FileStore` (the `RaftStorage` the Raft core calls).
// The leader commits a history through append_entry_to_log + apply_entry_to_state_machine and compacts after p entries
// (do_log_compaction).  The follower has replicated the first j < p entries (replicate_to_log + replicate_to_state_machine), then
// receives the leader's snapshot the way async-raft delivers it: create_snapshot, the leader's bytes written into that file,
// finalize_snapshot_installation; the entries behind the snapshot follow by replication.  The follower must then answer every
// query as the leader does, report the membership recorded in the snapshot, and still do both after a restart from its directory.
use super::*;

use crate::cache::core::DirectCacheManager;
use crate::config::core::{ConfigActor, ConfigCmd, ConfigKey, ConfigResult};
use crate::mcp::core::McpManager;
use crate::namespace::model::{NamespaceParam, NamespaceQueryReq, NamespaceQueryResult, NamespaceRaftReq};
use crate::namespace::NamespaceActor;
use crate::naming::core::NamingActor;
use crate::raft::db::table::{TableManager, TableManagerQueryReq, TableManagerReq, TableManagerResult};
use crate::raft::filestore::core::FileStore;
use crate::raft::store::ClientRequest;
use crate::sequence::core::SequenceDbManager;
use crate::sequence::model::SequenceRaftReq;
use async_raft::raft::{Entry, EntryNormal};
use async_raft::RaftStorage;
use std::time::Duration;
use tokio::io::{AsyncReadExt, AsyncSeekExt, AsyncWriteExt};

struct InstNode {
    index_manager: Addr<RaftIndexManager>,
    data_wrap: Arc<RaftDataHandler>,
    store: FileStore,
}

async fn inst_start_node(dir: &std::path::Path, node_id: u64) -> InstNode {
    let base_path = Arc::new(dir.to_string_lossy().into_owned());
    let index_manager = RaftIndexManager::new(base_path.clone()).start();
    let log_manager = RaftLogManager::new(base_path.clone(), Some(index_manager.clone())).start();
    let snapshot_manager = RaftSnapshotManager::new(base_path.clone(), Some(index_manager.clone())).start();
    let data_wrap = Arc::new(RaftDataHandler {
        config: ConfigActor::new().start(),
        table: TableManager::new().start(),
        namespace: NamespaceActor::new(1).start(),
        sequence_db: SequenceDbManager::new().start(),
        mcp_manager: McpManager::new().start(),
        naming_actor: NamingActor::new().start(),
        direct_cache_manager: DirectCacheManager::new().start(),
    });
    let (im, sm, lm, dw) = (index_manager.clone(), snapshot_manager.clone(), log_manager.clone(), data_wrap.clone());
    let apply = StateApplyManager::create(move |ctx| {
        let mut act = StateApplyManager::new();
        act.index_manager = Some(im);
        act.snapshot_manager = Some(sm);
        act.log_manager = Some(lm);
        act.data_wrap = Some(dw);
        act.init(ctx);      // the real start-up sequence (load_index -> load_snapshot -> load_log)
        act
    });
    // answered only after the start-up loading (ctx.wait chain) has finished
    apply.send(StateApplyRequest::GetLastAppliedLog).await.unwrap().unwrap();
    let store = FileStore::new(node_id, index_manager.clone(), snapshot_manager, log_manager, apply);
    InstNode { index_manager, data_wrap, store }
}

fn inst_key(data_id: &str) -> String { format!("{}\x02DEFAULT_GROUP\x02", data_id) }

fn inst_config_set(data_id: &str, value: &str, history_id: u64) -> ClientRequest {
    ClientRequest::ConfigSet { key: inst_key(data_id), value: Arc::new(value.to_owned()), config_type: None, desc: None, history_id,
        history_table_id: Some(history_id), op_time: 1_700_000_000_000 + history_id as i64, op_user: None }
}

const INST_HISTORY_LEN: usize = 7;

fn inst_history(i: usize) -> ClientRequest {
    match i {
        0 => inst_config_set("a", "value-a", 1),
        1 => inst_config_set("b", "value-b", 2),
        2 => ClientRequest::NamespaceReq(NamespaceRaftReq::Set(NamespaceParam { namespace_id: Arc::new("ns1".to_owned()), namespace_name: Some("first".to_owned()), r#type: None })),
        3 => ClientRequest::ConfigRemove { key: inst_key("a") },
        4 => ClientRequest::SequenceReq { req: SequenceRaftReq::NextRange(Arc::new("seq".to_owned()), 10) },
        5 => inst_config_set("a", "value-a2", 6),
        _ => ClientRequest::TableManagerReq(TableManagerReq::Set { table_name: Arc::new("T_USER".to_owned()), key: b"u1".to_vec(), value: b"user-one".to_vec(), last_seq_id: None }),
    }
}

fn inst_entry(index: u64, req: ClientRequest) -> Entry<ClientRequest> {
    Entry { term: 1, index, payload: EntryPayload::Normal(EntryNormal { data: req }) }
}

async fn inst_observe(node: &InstNode) -> String {
    let mut out = String::new();
    for id in ["a", "b"] {
        match node.data_wrap.config.send(ConfigCmd::GET(ConfigKey::new(id, "DEFAULT_GROUP", ""))).await.unwrap().unwrap() {
            ConfigResult::Data { value, md5, .. } => out.push_str(&format!("cfg[{}]=({},{}) ", id, value, md5)),
            _ => out.push_str(&format!("cfg[{}]=none ", id)),
        }
    }
    if let NamespaceQueryResult::List(list) = node.data_wrap.namespace.send(NamespaceQueryReq::List).await.unwrap().unwrap() {
        let mut l: Vec<String> = list.iter().map(|x| format!("{}={}", x.namespace_id, x.namespace_name)).collect();
        l.sort();
        out.push_str(&format!("ns={:?} ", l));
    }
    if let TableManagerResult::PageListResult(size, list) = node.data_wrap.table.send(TableManagerQueryReq::QueryPageList {
        table_name: Arc::new("T_USER".to_owned()), like_key: None, offset: None, limit: None, is_rev: false }).await.unwrap().unwrap() {
        out.push_str(&format!("users={}:{:?} ", size, list));
    }
    out
}

/// the membership and address table the node would start from
async fn inst_membership(node: &InstNode) -> String {
    match node.index_manager.send(RaftIndexRequest::LoadMember).await.unwrap().unwrap() {
        RaftIndexResponse::MemberShip { member, member_after_consensus, node_addrs } => {
            let mut a: Vec<String> = node_addrs.iter().map(|(k, v)| format!("{}={}", k, v)).collect();
            a.sort();
            format!("members={:?} after={:?} addrs={:?}", member, member_after_consensus, a)
        }
        _ => "members=?".to_owned(),
    }
}

fn inst_copy_dir(from: &std::path::Path, to: &std::path::Path) {
    for item in std::fs::read_dir(from).unwrap() {
        let item = item.unwrap();
        if item.file_name().to_string_lossy() == "db_lock" { continue; }
        if item.path().is_file() { std::fs::copy(item.path(), to.join(item.file_name())).unwrap(); }
    }
}

/// one run: history of n entries, leader compacts after p, follower had replicated j < p entries before the snapshot arrived
async fn inst_one_run(base: std::path::PathBuf, n: usize, p: usize, j: usize) -> Vec<String> {
    let tag = format!("n{}p{}j{}", n, p, j);
    let (dir_l, dir_f, dir_r) = (base.join(format!("{}-leader", tag)), base.join(format!("{}-follower", tag)), base.join(format!("{}-restart", tag)));
    for d in [&dir_l, &dir_f, &dir_r] { std::fs::create_dir_all(d).unwrap(); }
    let mut fails = vec![];
    let leader = inst_start_node(&dir_l, 1).await;
    let follower = inst_start_node(&dir_f, 2).await;
    // cluster initialisation on the leader: two voters with their addresses.  The follower knows only itself so far.
    let mut addrs = std::collections::HashMap::new();
    addrs.insert(1u64, Arc::new("127.0.0.1:9848".to_owned()));
    addrs.insert(2u64, Arc::new("127.0.0.1:9849".to_owned()));
    leader.index_manager.send(RaftIndexRequest::SaveMember { member: vec![1, 2], member_after_consensus: None, node_addr: Some(addrs) }).await.unwrap().unwrap();
    let mut self_addr = std::collections::HashMap::new();
    self_addr.insert(2u64, Arc::new("127.0.0.1:9849".to_owned()));
    follower.index_manager.send(RaftIndexRequest::SaveMember { member: vec![2], member_after_consensus: None, node_addr: Some(self_addr) }).await.unwrap().unwrap();
    let mut snapshot: Option<(u64, Vec<u8>)> = None;
    for i in 0..n {
        let index = i as u64 + 1;
        let req = inst_history(i);
        leader.store.append_entry_to_log(&inst_entry(index, req.clone())).await.unwrap();
        leader.store.apply_entry_to_state_machine(&index, &req).await.unwrap();
        if i < j {
            follower.store.replicate_to_log(&[inst_entry(index, req.clone())]).await.unwrap();
            follower.store.replicate_to_state_machine(&[(&index, &req)]).await.unwrap();
        }
        if i + 1 == p {
            match leader.store.do_log_compaction().await {
                Ok(mut data) => {
                    let mut bytes = vec![];
                    data.snapshot.seek(std::io::SeekFrom::Start(0)).await.unwrap();
                    data.snapshot.read_to_end(&mut bytes).await.unwrap();
                    snapshot = Some((data.index, bytes));
                }
                Err(e) => { fails.push(format!("VX-BOUNDED-FAIL INSTALL compaction {}: the leader's compaction failed: {}", tag, e)); return fails; }
            }
            // ---- the follower is caught up by the snapshot (async-raft: handle_install_snapshot_request, one chunk)
            let (index_s, bytes) = snapshot.clone().unwrap();
            let (id, mut file) = follower.store.create_snapshot().await.unwrap();
            file.write_all(&bytes).await.unwrap();
            file.flush().await.unwrap();
            // the follower's log has no entry at the snapshot index (j < p): async-raft passes delete_through = None
            if let Err(e) = follower.store.finalize_snapshot_installation(index_s, 1, None, id, file).await {
                fails.push(format!("VX-BOUNDED-FAIL INSTALL finalize {}: finalize_snapshot_installation failed: {}", tag, e));
                return fails;
            }
        }
        if i >= p {
            // behind the snapshot the follower is an ordinary replication target again
            if let Err(e) = follower.store.replicate_to_log(&[inst_entry(index, req.clone())]).await {
                fails.push(format!("VX-BOUNDED-FAIL APPEND-AFTER-INSTALL {} {}: the follower (which had replicated {} entries) refuses entry {} behind the installed snapshot (index {}): {}",
                    if j == 0 { "fresh-node" } else { "lagging-node" }, tag, j, index, p, e));
                return fails;
            }
            follower.store.replicate_to_state_machine(&[(&index, &req)]).await.unwrap();
        }
    }
    tokio::time::sleep(Duration::from_millis(400)).await;
    let leader_serves = inst_observe(&leader).await;
    let follower_serves = inst_observe(&follower).await;
    let removed_before = j >= 1 && p >= 4 && n < 6;      // the follower still held key `a`, which the snapshot no longer has
    let kind = if removed_before { "stale-key" } else if j == 0 { "fresh-node" } else { "lagging-node" };
    if follower_serves != leader_serves {
        fails.push(format!("VX-BOUNDED-FAIL INSTALL {} {}: {} entries, leader compacted after {}, follower had replicated {} when the snapshot arrived; the leader serves: {} | the follower serves: {}",
            kind, tag, n, p, j, leader_serves, follower_serves));
    }
    let leader_members = inst_membership(&leader).await;
    let follower_members = inst_membership(&follower).await;
    if follower_members != leader_members {
        fails.push(format!("VX-BOUNDED-FAIL MEMBERSHIP {} {}: membership on the leader (recorded in the snapshot): {} | on the follower after the install: {}", kind, tag, leader_members, follower_members));
    }
    // ---- and after a restart of the follower
    tokio::time::sleep(Duration::from_millis(1500)).await;
    inst_copy_dir(&dir_f, &dir_r);
    let restarted = inst_start_node(&dir_r, 2).await;
    tokio::time::sleep(Duration::from_millis(300)).await;
    let restarted_serves = inst_observe(&restarted).await;
    if restarted_serves != leader_serves {
        fails.push(format!("VX-BOUNDED-FAIL RESTART {} {}: the leader serves: {} | the follower after install + restart serves: {}", kind, tag, leader_serves, restarted_serves));
    }
    let restarted_members = inst_membership(&restarted).await;
    if restarted_members != leader_members {
        fails.push(format!("VX-BOUNDED-FAIL RESTART-MEMBERSHIP {} {}: leader: {} | follower after install + restart: {}", kind, tag, leader_members, restarted_members));
    }
    fails
}

/// a fresh follower on whose disk a LONGER file already has the name the next snapshot file will get (the leftover of an install
/// that was interrupted): the leader's image followed by one more record, a configuration `zz` the leader never had
async fn inst_leftover_run(base: std::path::PathBuf) -> Vec<String> {
    use crate::config::model::ConfigValueDO;
    let (dir_l, dir_f) = (base.join("leftover-leader"), base.join("leftover-follower"));
    for d in [&dir_l, &dir_f] { std::fs::create_dir_all(d).unwrap(); }
    let mut fails = vec![];
    let leader = inst_start_node(&dir_l, 1).await;
    let follower = inst_start_node(&dir_f, 2).await;
    for i in 0..3 {
        let index = i as u64 + 1;
        let req = inst_history(i);
        leader.store.append_entry_to_log(&inst_entry(index, req.clone())).await.unwrap();
        leader.store.apply_entry_to_state_machine(&index, &req).await.unwrap();
    }
    let mut data = leader.store.do_log_compaction().await.unwrap();
    let mut bytes = vec![];
    data.snapshot.seek(std::io::SeekFrom::Start(0)).await.unwrap();
    data.snapshot.read_to_end(&mut bytes).await.unwrap();
    // the leftover: same image + the frame of a stale configuration record
    let stale = SnapshotRecordDto { tree: crate::common::constant::CONFIG_TREE_NAME.clone(), key: ConfigKey::new("zz", "DEFAULT_GROUP", "").build_key().into_bytes(),
        value: ConfigValueDO { content: Some("stale".to_owned()), histories: vec![], config_type: None, desc: None }.to_bytes().unwrap(), op_type: 0 };
    let mut leftover = bytes.clone();
    { let mut w = quick_protobuf::Writer::new(&mut leftover); w.write_message(&stale.to_record_do()).unwrap(); }
    std::fs::write(dir_f.join("snapshot_1"), &leftover).unwrap();
    let (id, mut file) = follower.store.create_snapshot().await.unwrap();
    file.write_all(&bytes).await.unwrap();
    file.flush().await.unwrap();
    follower.store.finalize_snapshot_installation(data.index, 1, None, id.clone(), file).await.unwrap();
    tokio::time::sleep(Duration::from_millis(400)).await;
    let (ls, fs) = (inst_observe(&leader).await, inst_observe(&follower).await);
    let zz = match follower.data_wrap.config.send(ConfigCmd::GET(ConfigKey::new("zz", "DEFAULT_GROUP", ""))).await.unwrap().unwrap() { ConfigResult::Data { value, .. } => Some(value), _ => None };
    if fs != ls || zz.is_some() || id != "1" {
        fails.push(format!("VX-BOUNDED-FAIL INSTALL leftover-file: a longer file named snapshot_{} was on the follower's disk before the install; the leader serves: {} | the follower serves: {} and configuration zz = {:?} (the leader never had it)", id, ls, fs, zz));
    }
    fails
}

/// the leader's snapshot stream is abandoned after the follower opened the file (half the bytes written, handle dropped) and then
/// starts again from offset 0: the second attempt must install like a first one
async fn inst_aborted_stream_run(base: std::path::PathBuf) -> Vec<String> {
    let (dir_l, dir_f) = (base.join("aborted-leader"), base.join("aborted-follower"));
    for d in [&dir_l, &dir_f] { std::fs::create_dir_all(d).unwrap(); }
    let mut fails = vec![];
    let leader = inst_start_node(&dir_l, 1).await;
    let follower = inst_start_node(&dir_f, 2).await;
    for i in 0..5 {
        let index = i as u64 + 1;
        let req = inst_history(i);
        leader.store.append_entry_to_log(&inst_entry(index, req.clone())).await.unwrap();
        leader.store.apply_entry_to_state_machine(&index, &req).await.unwrap();
    }
    let mut data = leader.store.do_log_compaction().await.unwrap();
    let mut bytes = vec![];
    data.snapshot.seek(std::io::SeekFrom::Start(0)).await.unwrap();
    data.snapshot.read_to_end(&mut bytes).await.unwrap();
    {
        let (_id, mut file) = follower.store.create_snapshot().await.unwrap();
        file.write_all(&bytes[..bytes.len() / 2]).await.unwrap();
        file.flush().await.unwrap();
    }
    let (id, mut file) = match follower.store.create_snapshot().await {
        Ok(v) => v,
        Err(e) => { fails.push(format!("VX-BOUNDED-FAIL INSTALL aborted-stream: after an abandoned snapshot stream the follower cannot open a snapshot file again: {}", e)); return fails; }
    };
    file.write_all(&bytes).await.unwrap();
    file.flush().await.unwrap();
    if let Err(e) = follower.store.finalize_snapshot_installation(data.index, 1, None, id, file).await {
        fails.push(format!("VX-BOUNDED-FAIL INSTALL aborted-stream: the second attempt cannot be finalized: {}", e));
        return fails;
    }
    tokio::time::sleep(Duration::from_millis(400)).await;
    let (ls, fs) = (inst_observe(&leader).await, inst_observe(&follower).await);
    if fs != ls { fails.push(format!("VX-BOUNDED-FAIL INSTALL aborted-stream: the leader serves: {} | the follower after the second attempt serves: {}", ls, fs)); }
    fails
}

#[test]
fn vx_bounded_c08_install() {
    let base = std::env::temp_dir().join(format!("vx_c08i_{}", std::process::id()));
    let _ = std::fs::remove_dir_all(&base);
    std::fs::create_dir_all(&base).unwrap();
    let sys = actix::System::new();
    let (failures, runs) = sys.block_on(async {
        let mut futs = vec![];
        for n in 1..=INST_HISTORY_LEN { for p in 1..=n { for j in 0..p { futs.push(inst_one_run(base.clone(), n, p, j)); } } }
        let runs = futs.len() + 2;
        let res = futures_util::future::join_all(futs).await;
        let mut all = res.into_iter().flatten().collect::<Vec<String>>();
        all.extend(inst_leftover_run(base.clone()).await);
        all.extend(inst_aborted_stream_run(base.clone()).await);
        (all, runs)
    });
    let _ = std::fs::remove_dir_all(&base);
    println!("vx_bounded_c08_install: {} (history, compaction point, follower lag) runs through FileStore::finalize_snapshot_installation", runs);
    for f in failures.iter() { println!("{}", f); }
    assert!(failures.is_empty(), "{} probes: a follower caught up by snapshot install does not serve what the leader serves", failures.len());
}

// ------------------------------------------------------------------------------------------------------------------------
// Bounded stand-in for the storage boundary of C05 (behind the proof of FileStore::{save_hard_state, get_initial_state}): what a node
// REPORTS to the Raft core after saves, in the same process and after a restart from a copy of its directory.  Save histories over
// {address of a peer, hard state (term, vote), membership} in every order that keeps the index image above 20 bytes (below: finding S5).
async fn his_report(node: &InstNode) -> String {
    match node.store.get_initial_state().await {
        Ok(s) => { let mut m: Vec<u64> = s.membership.members.iter().cloned().collect(); m.sort(); format!("term {} vote {:?} applied {} members {:?}", s.hard_state.current_term, s.hard_state.voted_for, s.last_applied_log, m) }
        Err(e) => format!("error {}", e),
    }
}

#[test]
fn vx_bounded_c05_initial_state() {
    use async_raft::storage::HardState;
    let base = std::env::temp_dir().join(format!("vx_c05is_{}", std::process::id()));
    let _ = std::fs::remove_dir_all(&base);
    std::fs::create_dir_all(&base).unwrap();
    let sys = actix::System::new();
    let bad: Vec<String> = sys.block_on(async {
        let mut bad = vec![];
        // op 0: peer address, 1: hard state (3, vote 2), 2: membership [1,2,3], 3: hard state (4, no vote)
        let histories: Vec<Vec<usize>> = vec![vec![0, 1], vec![0, 1, 2], vec![0, 2, 1], vec![0, 1, 3], vec![0, 2, 1, 3], vec![0, 1, 2, 3], vec![0, 3, 1]];
        for (hi, ops) in histories.iter().enumerate() {
            let (dir, dir_r) = (base.join(format!("h{}", hi)), base.join(format!("h{}-restart", hi)));
            for d in [&dir, &dir_r] { std::fs::create_dir_all(d).unwrap(); }
            let node = inst_start_node(&dir, 1).await;
            let (mut term, mut vote, mut members): (u64, Option<u64>, Vec<u64>) = (0, None, vec![]);
            for &op in ops.iter() {
                match op {
                    0 => { node.index_manager.send(RaftIndexRequest::AddNodeAddr(2, Arc::new("127.0.0.1:9849".to_owned()))).await.unwrap().unwrap(); }
                    1 => { node.store.save_hard_state(&HardState { current_term: 3, voted_for: Some(2) }).await.unwrap(); term = 3; vote = Some(2); }
                    2 => { node.index_manager.send(RaftIndexRequest::SaveMember { member: vec![1, 2, 3], member_after_consensus: None, node_addr: None }).await.unwrap().unwrap(); members = vec![1, 2, 3]; }
                    _ => { node.store.save_hard_state(&HardState { current_term: 4, voted_for: None }).await.unwrap(); term = 4; vote = None; }
                }
            }
            let want_prefix = format!("term {} vote {:?} applied 0", term, vote);
            let got = his_report(&node).await;
            if !got.starts_with(&want_prefix) || (!members.is_empty() && !got.ends_with(&format!("members {:?}", members))) {
                bad.push(format!("VX-BOUNDED-FAIL INITIAL-STATE same-process history {:?}: saved (term {}, vote {:?}, members {:?}), the store reports: {}", ops, term, vote, members, got));
            }
            tokio::time::sleep(Duration::from_millis(300)).await;
            inst_copy_dir(&dir, &dir_r);
            let restarted = inst_start_node(&dir_r, 1).await;
            let got = his_report(&restarted).await;
            if !got.starts_with(&want_prefix) || (!members.is_empty() && !got.ends_with(&format!("members {:?}", members))) {
                bad.push(format!("VX-BOUNDED-FAIL INITIAL-STATE restart history {:?}: saved (term {}, vote {:?}, members {:?}), the restarted store reports: {}", ops, term, vote, members, got));
            }
        }
        bad
    });
    let _ = std::fs::remove_dir_all(&base);
    for b in bad.iter() { println!("{}", b); }
    assert!(bad.is_empty(), "{} save histories are reported wrongly to the Raft core", bad.len());
}

// ------------------------------------------------------------------------------------------------------------------------
// Bounded stand-in for C07 at the storage boundary (behind the proof of FileStore::{apply_entry_to_state_machine,
// replicate_to_state_machine} and StateApplyManager's batch handler): the same committed sequence applied (L) entry by entry through
// the leader call, (F1) as ONE replicated batch, (F2) in replicated batches of two, each on its own node behind the real FileStore and
// the real StateApplyManager actor; the nodes must serve the same data.  Every sequence of <= 3 requests out of 7 (two values and a
// removal for one user row, another row, a config set / remove / second set) and every length-4 sequence that starts `set, remove, set`.
fn bat_request(i: usize) -> ClientRequest {
    let users = Arc::new("T_USER".to_owned());
    match i {
        0 => ClientRequest::TableManagerReq(TableManagerReq::Set { table_name: users, key: b"u1".to_vec(), value: b"v1".to_vec(), last_seq_id: None }),
        1 => ClientRequest::TableManagerReq(TableManagerReq::Set { table_name: users, key: b"u1".to_vec(), value: b"v2".to_vec(), last_seq_id: None }),
        2 => ClientRequest::TableManagerReq(TableManagerReq::Remove { table_name: users, key: b"u1".to_vec() }),
        3 => ClientRequest::TableManagerReq(TableManagerReq::Set { table_name: users, key: b"u2".to_vec(), value: b"x".to_vec(), last_seq_id: None }),
        4 => inst_config_set("a", "value-a", 1),
        5 => ClientRequest::ConfigRemove { key: inst_key("a") },
        _ => inst_config_set("a", "value-a2", 6),
    }
}

#[test]
fn vx_bounded_c07_batches() {
    let base = std::env::temp_dir().join(format!("vx_c07b_{}", std::process::id()));
    let _ = std::fs::remove_dir_all(&base);
    std::fs::create_dir_all(&base).unwrap();
    let sys = actix::System::new();
    let (bad, runs) = sys.block_on(async {
        let mut seqs: Vec<Vec<usize>> = vec![];
        for a in 0..7 { seqs.push(vec![a]); for b in 0..7 { seqs.push(vec![a, b]); for c in 0..7 { seqs.push(vec![a, b, c]); } } }
        for d in 0..7 { seqs.push(vec![0, 2, 1, d]); seqs.push(vec![4, 5, 6, d]); seqs.push(vec![d, 0, 2, 1]); }
        let mut bad: Vec<String> = vec![];
        for (si, seq) in seqs.iter().enumerate() {
            let dirs: Vec<std::path::PathBuf> = ["l", "f1", "f2"].iter().map(|n| base.join(format!("s{}-{}", si, n))).collect();
            for d in dirs.iter() { std::fs::create_dir_all(d).unwrap(); }
            let (l, f1, f2) = (inst_start_node(&dirs[0], 1).await, inst_start_node(&dirs[1], 2).await, inst_start_node(&dirs[2], 3).await);
            let reqs: Vec<ClientRequest> = seq.iter().map(|i| bat_request(*i)).collect();
            let idx: Vec<u64> = (1..=reqs.len() as u64).collect();
            for (i, r) in reqs.iter().enumerate() { l.store.apply_entry_to_state_machine(&idx[i], r).await.unwrap(); }
            let whole: Vec<(&u64, &ClientRequest)> = idx.iter().zip(reqs.iter()).collect();
            f1.store.replicate_to_state_machine(&whole).await.unwrap();
            for chunk in whole.chunks(2) { f2.store.replicate_to_state_machine(chunk).await.unwrap(); }
            tokio::time::sleep(Duration::from_millis(5)).await;
            let (ol, o1, o2) = (inst_observe(&l).await, inst_observe(&f1).await, inst_observe(&f2).await);
            if (o1 != ol || o2 != ol) && bad.len() < 10 {
                bad.push(format!("VX-BOUNDED-FAIL BATCH sequence {:?}: leader (entry by entry) serves: {} | follower (one batch): {} | follower (batches of two): {}", seq, ol, o1, o2));
            }
            for d in dirs.iter() { let _ = std::fs::remove_dir_all(d); }
        }
        (bad, seqs.len())
    });
    let _ = std::fs::remove_dir_all(&base);
    println!("vx_bounded_c07_batches: {} committed sequences applied entry by entry, as one batch and in batches of two", runs);
    for b in bad.iter() { println!("{}", b); }
    assert!(bad.is_empty(), "{} sequences: a follower that got the entries in batches serves something else than the leader", bad.len());
}
