verus! {
// ---- actix, reduced to what the dispatch paths use.  Trusted environment.
pub trait Message { type Result; }
#[derive(Debug)]
pub struct MailboxError { pub vx_opaque: u8 }
impl From<MailboxError> for anyhow::Error {
    #[verifier::external_body]
    fn from(e: MailboxError) -> Self { anyhow::vx_mk_err() }
}
#[verifier::external_body]
#[verifier::reject_recursive_types(A)]
pub struct Addr<A> { inner: core::marker::PhantomData<A> }
impl<A> Addr<A> {
    /// fire and forget
    #[verifier::external_body]
    pub fn do_send<M: Message>(&self, msg: M) { unimplemented!() }
    /// actix returns a `Request` future; awaiting it yields the handler's result or a mailbox error
    /// (`reply_sane`: uninterpreted; the only thing it is ever assumed to say is A-INDEXSANE below)
    #[verifier::external_body]
    pub async fn send<M: Message>(&self, msg: M) -> (r: Result<M::Result, MailboxError>)
        ensures r is Ok ==> reply_sane(r.unwrap()) && reply_fits(msg, r.unwrap())
    { unimplemented!() }
}

pub uninterp spec fn reply_sane<R>(r: R) -> bool;
/// the answer belongs to the question (uninterpreted; the only thing it is ever assumed to say is A-REPLYSHAPE below)
pub uninterp spec fn reply_fits<M: Message>(m: M, r: M::Result) -> bool;
/// A-REPLYSHAPE: the snapshot manager answers `NewSnapshotForLoad` with `NewSnapshotForLoad(path, id)` or an error (its handler, not under contract)
pub broadcast axiom fn axiom_reply_new_snapshot_for_load(r: anyhow::Result<RaftSnapshotResponse>)
    requires #[trigger] reply_fits(RaftSnapshotRequest::NewSnapshotForLoad, r)
    ensures r is Ok ==> r.unwrap() is NewSnapshotForLoad;
/// A-INDEXSANE: the index manager never reports a snapshot that ends at the largest log index (`end_index + 1` is computed from it)
pub broadcast axiom fn axiom_index_reply_sane(r: anyhow::Result<RaftIndexResponse>)
    requires #[trigger] reply_sane(r)
    ensures r matches Ok(RaftIndexResponse::RaftIndexInfo { raft_index, last_applied_log })
        ==> last_applied_log < u64::MAX && forall|i: int| 0 <= i < raft_index.snapshots@.len() ==> (#[trigger] raft_index.snapshots@[i]).end_index < u64::MAX;

// ---- T17: the ghost effect log
/// the abstract value of a message (uninterpreted: two messages are the same only if they are equal as values)
pub ghost struct Msg { pub ty: int, pub payload: int }
pub uninterp spec fn msg_of<M>(m: M) -> Msg;
/// the identity of the actor behind an address (uninterpreted: two address fields are the same actor only if equal)
pub uninterp spec fn addr_id<A>(a: Addr<A>) -> int;
/// one message handed to one actor
pub ghost struct Eff { pub to: int, pub msg: Msg }
pub open spec fn sent<A, M>(to: Addr<A>, m: M) -> Eff { Eff { to: addr_id(to), msg: msg_of(m) } }
pub tracked struct VxLog { pub ghost s: Seq<Eff> }
/// the reply log of a function flagged `replies` (a second ghost parameter, only of those functions)
pub tracked struct VxReplies { pub ghost r: Seq<ReplyVal> }
#[verifier::external_body]
pub fn vx_note<A, M>(to: &Addr<A>, m: M, Tracked(log): Tracked<&mut VxLog>) -> (r: M)
    ensures r == m, final(log).s == old(log).s.push(sent(*to, m))
{ m }
/// T17 (reply log, flag `replies`): the answers a function got to the messages it sent with `send(..).await`, in order
pub ghost enum ReplyVal {
    Index(Result<anyhow::Result<RaftIndexResponse>, MailboxError>),
    Log(Result<anyhow::Result<RaftLogResponse>, MailboxError>),
    Snapshot(Result<anyhow::Result<RaftSnapshotResponse>, MailboxError>),
    Apply(Result<anyhow::Result<StateApplyResponse>, MailboxError>),
    Other,
}
pub broadcast axiom fn axiom_reply_val_log(r: Result<anyhow::Result<RaftLogResponse>, MailboxError>)
    ensures #[trigger] reply_val(r) == ReplyVal::Log(r);
pub broadcast axiom fn axiom_reply_val_apply(r: Result<anyhow::Result<StateApplyResponse>, MailboxError>)
    ensures #[trigger] reply_val(r) == ReplyVal::Apply(r);
pub broadcast axiom fn axiom_reply_val_snapshot(r: Result<anyhow::Result<RaftSnapshotResponse>, MailboxError>)
    ensures #[trigger] reply_val(r) == ReplyVal::Snapshot(r);
pub uninterp spec fn reply_val<R>(r: R) -> ReplyVal;
pub broadcast axiom fn axiom_reply_val_index(r: Result<anyhow::Result<RaftIndexResponse>, MailboxError>)
    ensures #[trigger] reply_val(r) == ReplyVal::Index(r);
#[verifier::external_body]
pub fn vx_reply<R>(r: R, Tracked(log): Tracked<&mut VxReplies>) -> (o: R)
    ensures o == r, final(log).r == old(log).r.push(reply_val(r))
{ r }

/// a membership message is its list of node ids (the capacity of the Vec that carries it is not part of the message)
pub open spec fn member_msg(m: Vec<u64>) -> RaftIndexRequest { RaftIndexRequest::SaveMember { member: m, member_after_consensus: None, node_addr: None } }
pub broadcast axiom fn axiom_eff_member(a: Vec<u64>, b: Vec<u64>)
    requires a@ == b@
    ensures #[trigger] msg_of(RaftIndexRequest::SaveMember { member: a, member_after_consensus: None, node_addr: None })
        == #[trigger] msg_of(RaftIndexRequest::SaveMember { member: b, member_after_consensus: None, node_addr: None });

/// a membership message in general: member list, joint-consensus list, address table — as VALUES (which Vec / HashMap carries them
/// is not part of the message)
pub uninterp spec fn save_member_msg(member: Seq<u64>, after: Option<Seq<u64>>, addrs: Option<AddrTbl>) -> Msg;
/// the VALUE of an address table: a function of its key set and of the address each key maps to
pub ghost struct AddrTbl { pub id: int }
pub uninterp spec fn addr_tbl(h: HashMap<u64, Arc<String>>) -> AddrTbl;
pub broadcast axiom fn axiom_addr_tbl(a: HashMap<u64, Arc<String>>, b: HashMap<u64, Arc<String>>)
    requires a@.dom() =~= b@.dom(), forall|k: u64| #[trigger] a@.contains_key(k) ==> a@[k] == b@[k]
    ensures #[trigger] addr_tbl(a) == #[trigger] addr_tbl(b);
pub broadcast axiom fn axiom_eff_save_member(m: Vec<u64>, mac: Option<Vec<u64>>, na: Option<HashMap<u64, Arc<String>>>)
    ensures #[trigger] msg_of(RaftIndexRequest::SaveMember { member: m, member_after_consensus: mac, node_addr: na })
        == save_member_msg(m@, match mac { Some(v) => Some(v@), None => None }, match na { Some(h) => Some(addr_tbl(h)), None => None });

/// a table write is (table name TEXT, key, value): which Arc carries the name is not part of the message
pub uninterp spec fn table_set_msg(name: Seq<char>, key: Vec<u8>, value: Vec<u8>) -> Msg;
pub broadcast axiom fn axiom_eff_table_set(t: Arc<String>, key: Vec<u8>, value: Vec<u8>)
    ensures #[trigger] msg_of(TableManagerReq::Set { table_name: t, key: key, value: value, last_seq_id: None }) == table_set_msg((*t)@, key, value);

// ---- opaque component requests / results
pub struct NamespaceRaftReq { pub vx_opaque: u8 }
pub struct SequenceRaftReq { pub vx_opaque: u8 }
pub struct McpManagerRaftReq { pub vx_opaque: u8 }
pub struct NamingRaftReq { pub vx_opaque: u8 }
pub struct CacheManagerRaftReq { pub vx_opaque: u8 }
pub struct TableManagerResult { pub vx_opaque: u8 }
pub struct NamespaceRaftResult { pub vx_opaque: u8 }
pub struct SequenceRaftResult { pub vx_opaque: u8 }
pub struct McpManagerRaftResult { pub vx_opaque: u8 }
pub struct NamingRaftResult { pub vx_opaque: u8 }
pub struct CacheManagerRaftResult { pub vx_opaque: u8 }
pub struct ConfigRaftResult { pub vx_opaque: u8 }
pub struct ConfigKey { pub vx_opaque: u8 }
pub struct ConfigValue { pub vx_opaque: u8 }
pub struct ConfigValueDO { pub vx_opaque: u8 }

impl Message for TableManagerReq { type Result = anyhow::Result<TableManagerResult>; }
impl Message for NamespaceRaftReq { type Result = anyhow::Result<NamespaceRaftResult>; }
impl Message for SequenceRaftReq { type Result = anyhow::Result<SequenceRaftResult>; }
impl Message for McpManagerRaftReq { type Result = anyhow::Result<McpManagerRaftResult>; }
impl Message for NamingRaftReq { type Result = anyhow::Result<NamingRaftResult>; }
impl Message for CacheManagerRaftReq { type Result = anyhow::Result<CacheManagerRaftResult>; }
impl Message for ConfigRaftCmd { type Result = anyhow::Result<ConfigRaftResult>; }
impl Message for RaftIndexRequest { type Result = anyhow::Result<RaftIndexResponse>; }

pub struct ConfigActor { pub vx_opaque: u8 }
pub struct TableManager { pub vx_opaque: u8 }
pub struct NamespaceActor { pub vx_opaque: u8 }
pub struct SequenceDbManager { pub vx_opaque: u8 }
pub struct McpManager { pub vx_opaque: u8 }
pub struct NamingActor { pub vx_opaque: u8 }
pub struct DirectCacheManager { pub vx_opaque: u8 }
pub struct RaftIndexManager { pub vx_opaque: u8 }
pub struct SnapshotWriterActor { pub vx_opaque: u8 }
pub struct ConfigQueryParam { pub vx_opaque: u8 }
pub struct ConfigHistoryParam { pub vx_opaque: u8 }
pub struct ListenerItem { pub vx_opaque: u8 }
pub struct ListenerSenderType { pub vx_opaque: u8 }
pub struct ConfigResult { pub vx_opaque: u8 }
pub struct RaftApplyDataResponse { pub vx_opaque: u8 }
impl Message for ConfigCmd { type Result = anyhow::Result<ConfigResult>; }
impl Message for RaftApplyDataRequest { type Result = anyhow::Result<RaftApplyDataResponse>; }
impl Message for TableManagerInnerReq { type Result = anyhow::Result<TableManagerResult>; }
impl<A> Clone for Addr<A> {
    #[verifier::external_body]
    fn clone(&self) -> (r: Self) ensures r == *self { unimplemented!() }
}
/// std: strict UTF-8 decoding and big-endian ids, as uninterpreted functions of the bytes
#[verifier::external_type_specification]
#[verifier::external_body]
pub struct ExFromUtf8Error(std::string::FromUtf8Error);
impl From<std::string::FromUtf8Error> for anyhow::Error {
    #[verifier::external_body]
    fn from(e: std::string::FromUtf8Error) -> Self { anyhow::vx_mk_err() }
}
pub assume_specification[ String::from_utf8 ](v: Vec<u8>) -> (r: Result<String, std::string::FromUtf8Error>)
    ensures r is Ok <==> utf8_text(v@) is Some, r is Ok ==> r.unwrap()@ == utf8_text(v@).unwrap();
pub uninterp spec fn utf8_text(b: Seq<u8>) -> Option<Seq<char>>;
pub uninterp spec fn be_id(b: Seq<u8>) -> u64;
#[verifier::external_body]
pub fn bin_to_id(buf: &[u8]) -> (r: u64)
    ensures r == be_id(buf@)
{ unimplemented!() }

pub struct RaftLogManager { pub vx_opaque: u8 }
#[verifier::external_body]
#[verifier::reject_recursive_types(A)]
pub struct Context<A> { inner: core::marker::PhantomData<A> }

// ---- async-raft log entries, reduced to what the replay path reads
pub struct EntryNormal<D> { pub data: D }
pub struct EntryConfigChange { pub vx_opaque: u8 }
pub struct EntrySnapshotPointer { pub vx_opaque: u8 }
pub enum EntryPayload<D> { Blank, Normal(EntryNormal<D>), ConfigChange(EntryConfigChange), SnapshotPointer(EntrySnapshotPointer) }
pub struct Entry<D> { pub term: u64, pub index: u64, pub payload: EntryPayload<D> }
/// the JSON decoding of a stored log record: a deterministic function of the record (uninterpreted)
pub uninterp spec fn entry_of_record(r: LogRecordDto) -> Option<Entry<ClientRequest>>;
pub struct StoreUtils {}
impl StoreUtils {
    #[verifier::external_body]
    pub fn log_record_to_entry(record: LogRecordDto) -> (r: anyhow::Result<Entry<ClientRequest>>)
        ensures r is Ok <==> entry_of_record(record) is Some, r is Ok ==> r.unwrap() == entry_of_record(record).unwrap()
    { unimplemented!() }
}

// ---- std: lossy UTF-8 decoding, as an uninterpreted function of the bytes
/// vstd: `to_string` on a Display value ensures `to_string_from_display_ensures(value, result)`; a lossily decoded
/// text prints as itself
pub uninterp spec fn cow_target<'a, 'b, T: ?Sized + ToOwned>(c: &'b std::borrow::Cow<'a, T>) -> &'b T;
pub assume_specification<'a>[ String::from_utf8_lossy ](v: &'a [u8]) -> (r: std::borrow::Cow<'a, str>)
    ensures cow_target(&r)@ == key_text(v@),
        forall|s: String| #[trigger] vstd::string::to_string_from_display_ensures::<std::borrow::Cow<'a, str>>(&r, s) ==> s@ == key_text(v@);
pub assume_specification<'a, 'b, T: ?Sized + ToOwned>[ <std::borrow::Cow<'a, T> as AsRef<T>>::as_ref ](c: &'b std::borrow::Cow<'a, T>) -> (r: &'b T)
    ensures r == cow_target(c);

// ---- the conversions of the ConfigFullValue arm: deterministic functions of the bytes (uninterpreted)
pub uninterp spec fn key_text(b: Seq<u8>) -> Seq<char>;
pub uninterp spec fn key_of_text(s: Seq<char>) -> ConfigKey;
pub uninterp spec fn do_of_bytes(b: Seq<u8>) -> Option<ConfigValueDO>;
pub uninterp spec fn value_of_do(d: ConfigValueDO) -> ConfigValue;

impl ConfigValueDO {
    #[verifier::external_body]
    pub fn from_bytes(data: &[u8]) -> (r: anyhow::Result<Self>)
        ensures r is Ok <==> do_of_bytes(data@) is Some, r is Ok ==> r.unwrap() == do_of_bytes(data@).unwrap()
    { unimplemented!() }
}
impl From<ConfigValueDO> for ConfigValue {
    #[verifier::external_body]
    fn from(value: ConfigValueDO) -> (r: Self)
        ensures r == value_of_do(value)
    { unimplemented!() }
}
impl From<&str> for ConfigKey {
    #[verifier::external_body]
    fn from(value: &str) -> (r: Self)
        ensures r == key_of_text(value@)
    { unimplemented!() }
}

// ---- the storage actors' requests the start-up chain sends
impl Message for RaftSnapshotRequest { type Result = anyhow::Result<RaftSnapshotResponse>; }
/// model of raftlog::RaftLogManagerAsyncRequest (pinned by [[expect_text]]): the loader is the one implementor of LogRecordLoader
pub enum RaftLogManagerAsyncRequest {
    Query { start: u64, end: u64 },
    GetLastLogIndex,
    Load { start: u64, end: u64, loader: Arc<LogRecordLoaderInstance> },
}
/// model of raftlog::RaftLogResponse restricted to the answers the storage boundary looks at
pub enum RaftLogResponse { None, QueryResult(Vec<LogRecordDto>), LastLogIndex(LogIndexInfo) }
impl Message for RaftLogManagerAsyncRequest { type Result = anyhow::Result<RaftLogResponse>; }
/// a replay request is (first index, end index, the loader's wiring) — which Arc carries the loader is not part of the message
pub uninterp spec fn load_msg(start: u64, end: u64, loader: LogRecordLoaderInstance) -> Msg;
pub broadcast axiom fn axiom_eff_load(start: u64, end: u64, loader: Arc<LogRecordLoaderInstance>)
    ensures #[trigger] msg_of(RaftLogManagerAsyncRequest::Load { start, end, loader }) == load_msg(start, end, *loader);

// ---- the snapshot file, as the apply manager sees it (SnapshotReader: assumed here, see unit snapshot)
/// header / records a snapshot file image holds; `snap_readable`: no I/O fault on this handle and every frame of the image decodes
pub uninterp spec fn snap_hdr(c: Seq<u8>) -> Option<SnapshotHeaderDto>;
pub uninterp spec fn snap_recs(c: Seq<u8>) -> Seq<SnapshotRecordDto>;
pub uninterp spec fn snap_readable(f: tokio::fs::File) -> bool;
/// A-SNAPIMAGE: the bytes are a snapshot image as SnapshotWriterActor writes it (every length prefix fits 32 bits, < 4 GiB)
pub uninterp spec fn snap_image_ok(c: Seq<u8>) -> bool;
#[verifier::external_body]
pub struct SnapshotReader { vx: u8 }
/// The contracts below are PROVED on the real SnapshotReader in unit snapshot, where snap_hdr / snap_recs / snap_readable /
/// snap_image_ok / wf / hdr / remaining / faulty are DEFINED over the bytes of the file; the clause text between the
/// `<<abstract` markers is compared with that unit's on every run ([[same_block]] in unit.toml).
impl SnapshotReader {
    pub uninterp spec fn wf(&self) -> bool;
    pub uninterp spec fn hdr(&self) -> SnapshotHeaderDto;
    /// the records not handed out yet
    pub uninterp spec fn remaining(&self) -> Seq<SnapshotRecordDto>;
    /// some read of the underlying file can fail or some frame is not a record
    pub uninterp spec fn faulty(&self) -> bool;
    #[verifier::external_body]
    pub async fn init_by_file(file: Box<tokio::fs::File>) -> (r: anyhow::Result<Self>)
        requires snap_image_ok(file.contents())
        ensures
            r is Ok ==> r.unwrap().wf(),
        // <<abstract:init_by_file (the contract unit raftdata assumes)
        r is Ok ==> snap_hdr(file.contents()) == Some(r.unwrap().hdr()) && r.unwrap().remaining() == snap_recs(file.contents())
            && (snap_readable(*file) ==> !r.unwrap().faulty()),
        r is Err ==> !snap_readable(*file),
        // >>abstract
    { unimplemented!() }
    #[verifier::external_body]
    pub async fn init(path: &str) -> (r: anyhow::Result<Self>)
        requires snap_image_ok(disk_at_open(path@))
        ensures
            r is Ok ==> r.unwrap().wf(),
        // <<abstract:init (the contract unit raftdata assumes)
        r is Ok ==> snap_hdr(disk_at_open(path@)) == Some(r.unwrap().hdr()) && r.unwrap().remaining() == snap_recs(disk_at_open(path@)),
        // >>abstract
    { unimplemented!() }
    /// `reader.header` (field read of the real struct; the reader is modelled opaquely here)
    #[verifier::external_body]
    pub fn vx_into_header(self) -> (r: SnapshotHeaderDto)
        ensures r == self.hdr()
    { unimplemented!() }
    #[verifier::external_body]
    pub fn get_header(&self) -> (r: &SnapshotHeaderDto)
        ensures *r == self.hdr()
    { unimplemented!() }
    #[verifier::external_body]
    pub async fn read_record(&mut self) -> (r: anyhow::Result<Option<SnapshotRecordDto>>)
        requires old(self).wf()
        ensures
            r is Ok ==> final(self).wf(),
        // <<abstract:read_record (the contract unit raftdata assumes)
        r is Ok ==> final(self).faulty() == old(self).faulty(), final(self).hdr() == old(self).hdr(),
        match r {
            Ok(Some(x)) => old(self).remaining().len() > 0 && x == old(self).remaining()[0] && final(self).remaining() == old(self).remaining().skip(1),
            Ok(None) => old(self).remaining().len() == 0 && final(self).remaining() == old(self).remaining(),
            Err(_) => old(self).faulty(),
        }
        // >>abstract
    { unimplemented!() }
}

/// `&v[0..k]`: the first k elements of a slice
#[verifier::external_body]
pub fn vx_prefix<T>(s: &[T], k: usize) -> (r: &[T])
    requires k <= s@.len()
    ensures r@ == s@.take(k as int)
{ &s[0..k] }
/// std::fs::remove_file: removing a file of the snapshot directory has no effect any contract here talks about
pub mod vx_std_fs { 
    use vstd::prelude::*;
    verus! {
    #[verifier::external_body]
    pub fn remove_file(path: String) -> (r: Result<(), crate::std_io_shim::IoError>) { unimplemented!() }
    }
}
// ---- the RaftStorage boundary (FileStore): what async-raft calls
impl Message for StateApplyRequest { type Result = anyhow::Result<StateApplyResponse>; }
impl Message for StateApplyAsyncRequest { type Result = anyhow::Result<StateApplyResponse>; }
/// tokio::sync::oneshot, reduced: a channel is a pair with a common (ghost) identity; awaiting the receiver yields whatever the
/// other side sent, or a receive error when the sender was dropped
pub mod oneshot_shim {
    use vstd::prelude::*;
    verus! {
    #[verifier::external_body]
    #[verifier::reject_recursive_types(T)]
    pub struct Sender<T> { inner: core::marker::PhantomData<T> }
    #[verifier::external_body]
    #[verifier::reject_recursive_types(T)]
    pub struct Receiver<T> { inner: core::marker::PhantomData<T> }
    #[derive(Debug)]
    pub struct RecvError { pub vx_opaque: u8 }
    pub uninterp spec fn tx_id<T>(s: Sender<T>) -> int;
    pub uninterp spec fn rx_id<T>(r: Receiver<T>) -> int;
    #[verifier::external_body]
    pub fn channel<T>() -> (r: (Sender<T>, Receiver<T>)) ensures tx_id(r.0) == rx_id(r.1) { unimplemented!() }
    impl<T> Receiver<T> {
        #[verifier::external_body]
        pub async fn vx_recv(self) -> (r: Result<T, RecvError>) { unimplemented!() }
    }
    }
}
impl From<oneshot_shim::RecvError> for anyhow::Error {
    #[verifier::external_body]
    fn from(e: oneshot_shim::RecvError) -> Self { anyhow::vx_mk_err() }
}
pub type LogWriteResultSender = oneshot_shim::Sender<anyhow::Result<WriteLogResult>>;
/// model of raftlog::RaftLogManagerRequest without the `Load` variant (its loader is a trait object; start-up uses the async request)
pub enum RaftLogManagerRequest {
    Write { record: LogRecordDto, sender: LogWriteResultSender },
    WriteBatch { records: Vec<LogRecordDto>, sender: LogWriteResultSender },
    StripLogToIndex { end_index: u64, sender: LogWriteResultSender },
    SplitOff(u64), BuildSnapshotPointerLog(LogRecordDto), InstallSnapshotPointerLog(LogRecordDto),
}
impl Message for RaftLogManagerRequest { type Result = anyhow::Result<RaftLogResponse>; }
pub assume_specification<T: std::default::Default + std::marker::Destruct, E: std::marker::Destruct>[ std::result::Result::<T, E>::unwrap_or_default ](r: std::result::Result<T, E>) -> (o: T)
    ensures r matches Ok(v) ==> o == v;
impl Default for LogRecordDto {
    #[verifier::external_body]
    fn default() -> (r: Self) ensures r.index == 0, r.term == 0, r.value@.len() == 0 { unimplemented!() }
}
pub struct SnapshotWriterResponse { pub vx_opaque: u8 }
pub enum SnapshotWriterRequest { Record(SnapshotRecordDto), Flush }
impl Message for SnapshotWriterRequest { type Result = anyhow::Result<SnapshotWriterResponse>; }
/// async-raft's CurrentSnapshotData, reduced to its fields
pub struct CurrentSnapshotData<S> { pub term: u64, pub index: u64, pub membership: MembershipConfig, pub snapshot: Box<S> }
/// `u64::to_string`: a function of the number
pub uninterp spec fn u64_text(v: u64) -> Seq<char>;
#[verifier::external_body]
pub fn vx_u64_to_string(v: u64) -> (r: String) ensures r@ == u64_text(v) { unimplemented!() }
/// async-raft's InitialState, reduced to its fields
pub struct InitialState { pub last_log_index: u64, pub last_log_term: u64, pub last_applied_log: u64, pub hard_state: HardState, pub membership: MembershipConfig }
impl InitialState {
    #[verifier::external_body]
    pub fn new_initial(id: u64) -> (r: Self) { unimplemented!() }
}
impl Default for LogIndexInfo {
    #[verifier::external_body]
    fn default() -> (r: Self) ensures r.index == 0, r.term == 0 { unimplemented!() }
}
/// async-raft's HardState / MembershipConfig, reduced to their fields
pub struct HardState { pub current_term: u64, pub voted_for: Option<u64> }
pub struct MembershipConfig { pub members: HashSet<u64>, pub members_after_consensus: Option<HashSet<u64>> }
impl Clone for MembershipConfig {
    #[verifier::external_body]
    fn clone(&self) -> (r: Self) ensures r == *self { unimplemented!() }
}
impl MembershipConfig {
    #[verifier::external_body]
    pub fn new_initial(id: u64) -> (r: Self) { unimplemented!() }
}
#[verifier::external_body]
pub fn vec_to_set(list: &Vec<u64>) -> (r: HashSet<u64>) ensures r@ == list@.to_set() { unimplemented!() }
/// the storage object async-raft talks to: its node id and the four storage actors (pinned by [[expect_text]])
pub struct FileStore {
    pub node_id: u64,
    pub index_manager: Addr<RaftIndexManager>,
    pub snapshot_manager: Addr<RaftSnapshotManager>,
    pub log_manager: Addr<RaftLogManager>,
    pub apply_manager: Addr<StateApplyManager>,
}
impl FileStore {
    /// the raft write switch (an AtomicBool read): uninterpreted
    pub uninterp spec fn closed(&self) -> bool;
    #[verifier::external_body]
    pub fn is_close_write(&self) -> (r: bool) ensures r == self.closed() { unimplemented!() }
}
/// `str::parse::<u64>`: a function of the text
pub uninterp spec fn parse_u64(s: Seq<char>) -> Option<u64>;
#[verifier::external_body]
pub fn vx_parse_u64(s: &String) -> (r: anyhow::Result<u64>)
    ensures r is Ok <==> parse_u64(s@) is Some, r is Ok ==> r.unwrap() == parse_u64(s@).unwrap()
{ unimplemented!() }
/// the snapshot-pointer entry async-raft stores in the log, and its JSON record: functions of their arguments
pub uninterp spec fn pointer_entry(index: u64, term: u64, id: Seq<char>, m: MembershipConfig) -> Entry<ClientRequest>;
pub uninterp spec fn record_of_entry(e: Entry<ClientRequest>) -> Option<LogRecordDto>;
impl Entry<ClientRequest> {
    #[verifier::external_body]
    pub fn new_snapshot_pointer(index: u64, term: u64, id: String, membership: MembershipConfig) -> (r: Self)
        ensures r == pointer_entry(index, term, id@, membership)
    { unimplemented!() }
}
impl StoreUtils {
    #[verifier::external_body]
    pub fn entry_to_record(entry: &Entry<ClientRequest>) -> (r: anyhow::Result<LogRecordDto>)
        ensures r is Ok <==> record_of_entry(*entry) is Some, r is Ok ==> r.unwrap() == record_of_entry(*entry).unwrap()
    { unimplemented!() }
}
} // verus!
