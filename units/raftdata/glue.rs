verus! {
// ---- actix, reduced to what the dispatch paths use.  Trusted environment.
pub trait Message { type Result; }
#[derive(Debug)]
pub struct MailboxError { pub vx_opaque: u8 }
impl From<MailboxError> for anyhow::Error {
    #[verifier::external_body]
    fn from(e: MailboxError) -> Self { anyhow::vx_mk_err() }
}
#[verifier::external_body]
#[verifier::reject_recursive_types(A)]
pub struct Addr<A> { inner: core::marker::PhantomData<A> }
impl<A> Addr<A> {
    /// fire and forget
    #[verifier::external_body]
    pub fn do_send<M: Message>(&self, msg: M) { unimplemented!() }
    /// actix returns a `Request` future; awaiting it yields the handler's result or a mailbox error
    #[verifier::external_body]
    pub async fn send<M: Message>(&self, msg: M) -> Result<M::Result, MailboxError> { unimplemented!() }
}

// ---- T17: the ghost effect log
/// one message handed to a component actor; the message TYPE fixes the component (only one actor type handles each)
pub ghost struct Eff { pub ty: int, pub payload: int }
pub tracked struct VxLog { pub ghost s: Seq<Eff> }
/// injective abstraction of a message value (uninterpreted: two messages have the same effect only if they are equal)
pub uninterp spec fn eff_of<M>(m: M) -> Eff;
#[verifier::external_body]
pub fn vx_note<M>(m: M, Tracked(log): Tracked<&mut VxLog>) -> (r: M)
    ensures r == m, final(log).s == old(log).s.push(eff_of(m))
{ m }

/// a membership message is its list of node ids (the capacity of the Vec that carries it is not part of the message)
pub open spec fn member_msg(m: Vec<u64>) -> RaftIndexRequest { RaftIndexRequest::SaveMember { member: m, member_after_consensus: None, node_addr: None } }
pub broadcast axiom fn axiom_eff_member(a: Vec<u64>, b: Vec<u64>)
    requires a@ == b@
    ensures #[trigger] eff_of(RaftIndexRequest::SaveMember { member: a, member_after_consensus: None, node_addr: None })
        == #[trigger] eff_of(RaftIndexRequest::SaveMember { member: b, member_after_consensus: None, node_addr: None });

// ---- opaque component requests / results
pub struct TableManagerReq { pub vx_opaque: u8 }
pub struct NamespaceRaftReq { pub vx_opaque: u8 }
pub struct SequenceRaftReq { pub vx_opaque: u8 }
pub struct McpManagerRaftReq { pub vx_opaque: u8 }
pub struct NamingRaftReq { pub vx_opaque: u8 }
pub struct CacheManagerRaftReq { pub vx_opaque: u8 }
pub struct TableManagerResult { pub vx_opaque: u8 }
pub struct NamespaceRaftResult { pub vx_opaque: u8 }
pub struct SequenceRaftResult { pub vx_opaque: u8 }
pub struct McpManagerRaftResult { pub vx_opaque: u8 }
pub struct NamingRaftResult { pub vx_opaque: u8 }
pub struct CacheManagerRaftResult { pub vx_opaque: u8 }
pub struct ConfigRaftResult { pub vx_opaque: u8 }
pub struct RaftIndexResponse { pub vx_opaque: u8 }
pub struct LogRange { pub vx_opaque: u8 }
pub struct SnapshotRange { pub vx_opaque: u8 }
pub struct ConfigKey { pub vx_opaque: u8 }
pub struct ConfigValue { pub vx_opaque: u8 }
pub struct ConfigValueDO { pub vx_opaque: u8 }

impl Message for TableManagerReq { type Result = anyhow::Result<TableManagerResult>; }
impl Message for NamespaceRaftReq { type Result = anyhow::Result<NamespaceRaftResult>; }
impl Message for SequenceRaftReq { type Result = anyhow::Result<SequenceRaftResult>; }
impl Message for McpManagerRaftReq { type Result = anyhow::Result<McpManagerRaftResult>; }
impl Message for NamingRaftReq { type Result = anyhow::Result<NamingRaftResult>; }
impl Message for CacheManagerRaftReq { type Result = anyhow::Result<CacheManagerRaftResult>; }
impl Message for ConfigRaftCmd { type Result = anyhow::Result<ConfigRaftResult>; }
impl Message for RaftIndexRequest { type Result = anyhow::Result<RaftIndexResponse>; }

pub struct ConfigActor { pub vx_opaque: u8 }
pub struct TableManager { pub vx_opaque: u8 }
pub struct NamespaceActor { pub vx_opaque: u8 }
pub struct SequenceDbManager { pub vx_opaque: u8 }
pub struct McpManager { pub vx_opaque: u8 }
pub struct NamingActor { pub vx_opaque: u8 }
pub struct DirectCacheManager { pub vx_opaque: u8 }
pub struct RaftIndexManager { pub vx_opaque: u8 }
pub struct RaftSnapshotManager { pub vx_opaque: u8 }
pub struct RaftLogManager { pub vx_opaque: u8 }
pub struct SnapshotHeaderDto { pub vx_opaque: u8 }
#[verifier::external_body]
#[verifier::reject_recursive_types(A)]
pub struct Context<A> { inner: core::marker::PhantomData<A> }

// ---- async-raft log entries, reduced to what the replay path reads
pub struct EntryNormal<D> { pub data: D }
pub struct EntryConfigChange { pub vx_opaque: u8 }
pub struct EntrySnapshotPointer { pub vx_opaque: u8 }
pub enum EntryPayload<D> { Blank, Normal(EntryNormal<D>), ConfigChange(EntryConfigChange), SnapshotPointer(EntrySnapshotPointer) }
pub struct Entry<D> { pub term: u64, pub index: u64, pub payload: EntryPayload<D> }
/// the JSON decoding of a stored log record: a deterministic function of the record (uninterpreted)
pub uninterp spec fn entry_of_record(r: LogRecordDto) -> Option<Entry<ClientRequest>>;
pub struct StoreUtils {}
impl StoreUtils {
    #[verifier::external_body]
    pub fn log_record_to_entry(record: LogRecordDto) -> (r: anyhow::Result<Entry<ClientRequest>>)
        ensures r is Ok <==> entry_of_record(record) is Some, r is Ok ==> r.unwrap() == entry_of_record(record).unwrap()
    { unimplemented!() }
}

// ---- std: lossy UTF-8 decoding, as an uninterpreted function of the bytes
/// vstd: `to_string` on a Display value ensures `to_string_from_display_ensures(value, result)`; a lossily decoded
/// text prints as itself
pub assume_specification<'a>[ String::from_utf8_lossy ](v: &'a [u8]) -> (r: std::borrow::Cow<'a, str>)
    ensures forall|s: String| #[trigger] vstd::string::to_string_from_display_ensures::<std::borrow::Cow<'a, str>>(&r, s) ==> s@ == key_text(v@);

// ---- the conversions of the ConfigFullValue arm: deterministic functions of the bytes (uninterpreted)
pub uninterp spec fn key_text(b: Seq<u8>) -> Seq<char>;
pub uninterp spec fn key_of_text(s: Seq<char>) -> ConfigKey;
pub uninterp spec fn do_of_bytes(b: Seq<u8>) -> Option<ConfigValueDO>;
pub uninterp spec fn value_of_do(d: ConfigValueDO) -> ConfigValue;

impl ConfigValueDO {
    #[verifier::external_body]
    pub fn from_bytes(data: &[u8]) -> (r: anyhow::Result<Self>)
        ensures r is Ok <==> do_of_bytes(data@) is Some, r is Ok ==> r.unwrap() == do_of_bytes(data@).unwrap()
    { unimplemented!() }
}
impl From<ConfigValueDO> for ConfigValue {
    #[verifier::external_body]
    fn from(value: ConfigValueDO) -> (r: Self)
        ensures r == value_of_do(value)
    { unimplemented!() }
}
impl From<&str> for ConfigKey {
    #[verifier::external_body]
    fn from(value: &str) -> (r: Self)
        ensures r == key_of_text(value@)
    { unimplemented!() }
}
} // verus!
