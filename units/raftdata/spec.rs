verus! {
/// C07: THE messages one committed request stands for, in order — one function for all three paths.
/// Written from the property: every request variant goes to its one component, carrying every field unchanged.
pub open spec fn effs(h: RaftDataHandler, im: Addr<RaftIndexManager>, req: ClientRequest) -> Seq<Eff> {
    match req {
        ClientRequest::NodeAddr { id, addr } => seq![sent(im, RaftIndexRequest::AddNodeAddr(id, addr))],
        ClientRequest::Members(member) => seq![sent(im, member_msg(member))],
        ClientRequest::SequenceReq { req } => seq![sent(h.sequence_db, req)],
        ClientRequest::ConfigSet { key, value, config_type, desc, history_id, history_table_id, op_time, op_user } =>
            seq![sent(h.config, ConfigRaftCmd::ConfigAdd { key, value, config_type, desc, history_id, history_table_id, op_time, op_user })],
        ClientRequest::ConfigFullValue { key, value, last_seq_id } =>
            if do_of_bytes(value@) is Some {
                seq![sent(h.config, ConfigRaftCmd::SetFullValue { key: key_of_text(key_text(key@)), value: value_of_do(do_of_bytes(value@).unwrap()), last_id: last_seq_id })]
            } else { seq![] },
        ClientRequest::ConfigRemove { key } => seq![sent(h.config, ConfigRaftCmd::ConfigRemove { key })],
        ClientRequest::TableManagerReq(req) => seq![sent(h.table, req)],
        ClientRequest::NamespaceReq(req) => seq![sent(h.namespace, req)],
        ClientRequest::McpReq { req } => seq![sent(h.mcp_manager, req)],
        ClientRequest::NamingReq { req } => seq![sent(h.naming_actor, req)],
        ClientRequest::CacheReq { req } => seq![sent(h.direct_cache_manager, req)],
    }
}

/// a request none of the paths can decode (they all answer Err before sending anything)
pub open spec fn undecodable(req: ClientRequest) -> bool {
    req matches ClientRequest::ConfigFullValue { key, value, last_seq_id } && do_of_bytes(value@) is None
}

/// the request a stored log record carries (None: blank / membership / snapshot-pointer entries and undecodable records)
pub open spec fn req_of_record(rec: LogRecordDto) -> Option<ClientRequest> {
    match entry_of_record(rec) {
        Some(e) => match e.payload { EntryPayload::Normal(n) => Some(n.data), _ => None },
        None => None,
    }
}
pub open spec fn reqs_of(batch: Seq<ApplyRequestDto>) -> Seq<ClientRequest> { batch.map_values(|a: ApplyRequestDto| a.request) }
pub open spec fn saved_applied(im: Addr<RaftIndexManager>, i: u64) -> Eff { sent(im, RaftIndexRequest::SaveLastAppliedLog(i)) }
impl StateApplyManager {
    /// the manager after dependency injection
    pub open spec fn wired(&self) -> bool { self.data_wrap is Some && self.index_manager is Some }
    pub open spec fn h(&self) -> RaftDataHandler { *self.data_wrap.unwrap() }
    pub open spec fn im(&self) -> Addr<RaftIndexManager> { self.index_manager.unwrap() }
}

// ---------------------------------------------------------------- C01: snapshot records go to the component that owns their tree
pub open spec fn tree_is(rec: SnapshotRecordDto, name: Seq<char>) -> bool { (*rec.tree)@ == name }
/// a record the loader cannot decode (it answers Err before sending anything)
pub open spec fn snap_undecodable(rec: SnapshotRecordDto) -> bool {
    tree_is(rec, "T_CONFIG"@) && (utf8_text(rec.key@) is None || do_of_bytes(rec.value@) is None)
}
/// THE message one snapshot record stands for (first matching tree name wins, in the order of the statement: config,
/// sequences — the config history counter is kept by the config component — users, old cache table, cache, namespaces,
/// MCP servers / tool specs, persistent instances); records of an unknown tree are ignored
pub open spec fn snap_effs(h: RaftDataHandler, rec: SnapshotRecordDto) -> Seq<Eff> {
    if tree_is(rec, "T_CONFIG"@) {
        if snap_undecodable(rec) { seq![] } else {
            seq![sent(h.config, ConfigCmd::SetFullValue(key_of_text(utf8_text(rec.key@).unwrap()), value_of_do(do_of_bytes(rec.value@).unwrap())))]
        }
    } else if tree_is(rec, "T_SEQUENCE"@) {
        if key_text(rec.key@) == "SEQ_CONFIG"@ { seq![sent(h.config, ConfigCmd::InnerSetLastId(be_id(rec.value@)))] }
        else { seq![sent(h.sequence_db, RaftApplyDataRequest::LoadSnapshotRecord(rec))] }
    } else if tree_is(rec, "T_USER"@) {
        seq![Eff { to: addr_id(h.table), msg: table_set_msg("T_USER"@, rec.key, rec.value) }]
    } else if tree_is(rec, "T_CACHE"@) {
        seq![Eff { to: addr_id(h.table), msg: table_set_msg("T_CACHE"@, rec.key, rec.value) }]
    } else if tree_is(rec, "T_DIRECT_CACHE"@) { seq![sent(h.direct_cache_manager, RaftApplyDataRequest::LoadSnapshotRecord(rec))] }
    else if tree_is(rec, "T_NAMESPACE"@) { seq![sent(h.namespace, RaftApplyDataRequest::LoadSnapshotRecord(rec))] }
    else if tree_is(rec, "T_MCP_SERVER"@) || tree_is(rec, "T_MCP_TOOL_SPEC"@) { seq![sent(h.mcp_manager, RaftApplyDataRequest::LoadSnapshotRecord(rec))] }
    else if tree_is(rec, "T_NAMING_INSTANCE"@) { seq![sent(h.naming_actor, RaftApplyDataRequest::LoadSnapshotRecord(rec))] }
    else { seq![] }
}

/// the messages a whole snapshot stands for, in file order
pub open spec fn snap_effs_all(h: RaftDataHandler, recs: Seq<SnapshotRecordDto>) -> Seq<Eff>
    decreases recs.len()
{
    if recs.len() == 0 { seq![] } else { snap_effs_all(h, recs.drop_last()) + snap_effs(h, recs.last()) }
}
pub proof fn lemma_snap_effs_all_step(h: RaftDataHandler, recs: Seq<SnapshotRecordDto>, k: int)
    requires 0 <= k <= recs.len()
    ensures k < recs.len() ==> snap_effs_all(h, recs.take(k + 1)) == snap_effs_all(h, recs.take(k)) + snap_effs(h, recs[k]),
        snap_effs_all(h, recs.take(0)) == Seq::<Eff>::empty(),
        recs.take(recs.len() as int) == recs,
{
    if k < recs.len() {
        let a = recs.take(k + 1);
        assert(a.drop_last() =~= recs.take(k));
        assert(a.last() == recs[k]);
    }
    assert(recs.take(0).len() == 0);
    assert(recs.take(recs.len() as int) =~= recs);
}
pub proof fn lemma_snap_effs_all_step_arc(hw: Arc<RaftDataHandler>, recs: Seq<SnapshotRecordDto>, k: int)
    requires 0 <= k <= recs.len()
    ensures k < recs.len() ==> snap_effs_all(*hw, recs.take(k + 1)) == snap_effs_all(*hw, recs.take(k)) + snap_effs(*hw, recs[k]),
        snap_effs_all(*hw, recs.take(0)) == Seq::<Eff>::empty(),
        recs.take(recs.len() as int) == recs,
{
    if k < recs.len() {
        let a = recs.take(k + 1);
        assert(a.drop_last() =~= recs.take(k));
        assert(a.last() == recs[k]);
    }
    assert(recs.take(0).len() == 0);
    assert(recs.take(recs.len() as int) =~= recs);
}
/// C08: the membership message a snapshot header stands for (member list, joint-consensus list only when present, address table)
pub open spec fn snap_member_eff(im: Addr<RaftIndexManager>, h: SnapshotHeaderDto) -> Eff {
    Eff { to: addr_id(im), msg: save_member_msg(h.member@,
        if h.member_after_consensus@.len() == 0 { None } else { Some(h.member_after_consensus@) }, Some(addr_tbl(h.node_addrs))) }
}

/// A-SNAPIMAGE for the start-up chain: every file the snapshot manager names is a snapshot image
pub open spec fn all_snapshot_images_ok() -> bool { forall|p: Seq<char>| snap_image_ok(#[trigger] disk_at_open(p)) }
/// C01 (compaction): all seven components are asked to write their state to THE writer, each exactly once
pub open spec fn build_effs(h: RaftDataHandler, writer: Addr<SnapshotWriterActor>) -> Seq<Eff> {
    seq![sent(h.sequence_db, RaftApplyDataRequest::BuildSnapshot(writer)), sent(h.config, ConfigCmd::BuildSnapshot(writer)),
        sent(h.table, TableManagerInnerReq::BuildSnapshot(writer)), sent(h.namespace, RaftApplyDataRequest::BuildSnapshot(writer)),
        sent(h.mcp_manager, RaftApplyDataRequest::BuildSnapshot(writer)), sent(h.naming_actor, RaftApplyDataRequest::BuildSnapshot(writer)),
        sent(h.direct_cache_manager, RaftApplyDataRequest::BuildSnapshot(writer))]
}
/// C01: the end of loading is announced to the five components that wait for it
pub open spec fn complete_effs(h: RaftDataHandler) -> Seq<Eff> {
    seq![sent(h.namespace, RaftApplyDataRequest::LoadCompleted), sent(h.sequence_db, RaftApplyDataRequest::LoadCompleted),
        sent(h.mcp_manager, RaftApplyDataRequest::LoadCompleted), sent(h.naming_actor, RaftApplyDataRequest::LoadCompleted),
        sent(h.direct_cache_manager, RaftApplyDataRequest::LoadCompleted)]
}
impl StateApplyManager {
    /// C01 / C07: what the replay stage of a start-up sends — ONE request to the log manager for exactly the entries behind the last
    /// snapshot up to the last applied one, `[snapshot_next_index, last_applied_log + 1)`, with a loader wired to this node's components,
    /// then the end-of-loading announcements.  Nothing at all when nothing was ever applied (or the manager is not wired).
    pub open spec fn replay_effs(&self) -> Seq<Eff> {
        if self.last_applied_log == 0 || self.log_manager is None || self.data_wrap is None { seq![] }
        else {
            seq![Eff { to: addr_id(self.log_manager.unwrap()), msg: load_msg(self.snapshot_next_index, (self.last_applied_log + 1) as u64,
                LogRecordLoaderInstance { data_wrap: self.data_wrap.unwrap(), index_manager: self.index_manager.unwrap() }) }]
            + complete_effs(self.h())
        }
    }
    /// C01: what the snapshot stage + replay stage of a start-up send, from a manager that knows its two indexes
    pub open spec fn snapshot_stage(&self, before: Seq<Eff>, after: Seq<Eff>) -> bool {
        if self.snapshot_next_index == 0 { after == before + self.replay_effs() }
        else {
            after == before.push(sent(self.snapshot_manager.unwrap(), RaftSnapshotRequest::GetLastSnapshot)) + self.replay_effs()
            || exists|p: Seq<char>, k: int| 0 <= k <= snap_recs(disk_at_open(p)).len() && after
                == before.push(sent(self.snapshot_manager.unwrap(), RaftSnapshotRequest::GetLastSnapshot))
                    + snap_effs_all(self.h(), #[trigger] snap_recs(disk_at_open(p)).take(k)) + self.replay_effs()
        }
    }
    /// the two indexes a start-up takes from the index manager's answer: replay ends at the last APPLIED entry, and starts behind
    /// the LAST snapshot of the catalogue
    pub open spec fn indexes_from(&self, r: anyhow::Result<RaftIndexResponse>) -> (u64, u64) {
        match r {
            Ok(RaftIndexResponse::RaftIndexInfo { raft_index, last_applied_log }) =>
                (if raft_index.snapshots@.len() > 0 { (raft_index.snapshots@.last().end_index + 1) as u64 } else { self.snapshot_next_index }, last_applied_log),
            _ => (self.snapshot_next_index, self.last_applied_log),
        }
    }
    pub open spec fn fully_wired(&self) -> bool {
        self.data_wrap is Some && self.index_manager is Some && self.log_manager is Some && self.snapshot_manager is Some
            && self.last_applied_log < u64::MAX
    }
}

/// the messages a whole committed sequence stands for
pub open spec fn effs_all(h: RaftDataHandler, im: Addr<RaftIndexManager>, reqs: Seq<ClientRequest>) -> Seq<Eff>
    decreases reqs.len()
{
    if reqs.len() == 0 { seq![] } else { effs_all(h, im, reqs.drop_last()) + effs(h, im, reqs.last()) }
}

pub proof fn lemma_effs_all_step(h: RaftDataHandler, im: Addr<RaftIndexManager>, batch: Seq<ApplyRequestDto>, k: int)
    requires 0 <= k < batch.len()
    ensures effs_all(h, im, reqs_of(batch.take(k + 1))) == effs_all(h, im, reqs_of(batch.take(k))) + effs(h, im, batch[k].request),
        effs_all(h, im, reqs_of(batch.take(0))) == Seq::<Eff>::empty(),
        batch.take(batch.len() as int) == batch,
{
    let a = reqs_of(batch.take(k + 1));
    assert(a.drop_last() =~= reqs_of(batch.take(k)));
    assert(a.last() == batch[k].request);
    assert(reqs_of(batch.take(0)).len() == 0);
    assert(batch.take(batch.len() as int) =~= batch);
}

/// C07, relational form: whatever mixture of the three paths a node used for each entry (leader for some, follower
/// batches for others, replay after a restart), the component actors received the same messages in the same order.
/// `step(path, log, req)` is the postcondition shared by the three contracts.
pub open spec fn step(h: RaftDataHandler, im: Addr<RaftIndexManager>, before: Seq<Eff>, after: Seq<Eff>, req: ClientRequest) -> bool { after == before + effs(h, im, req) }

pub proof fn lemma_paths_agree(h: RaftDataHandler, im: Addr<RaftIndexManager>, reqs: Seq<ClientRequest>, logs_a: Seq<Seq<Eff>>, logs_b: Seq<Seq<Eff>>)
    requires
        logs_a.len() == reqs.len() + 1, logs_b.len() == reqs.len() + 1,
        logs_a[0] == logs_b[0],
        forall|i: int| 0 <= i < reqs.len() ==> #[trigger] step(h, im, logs_a[i], logs_a[i + 1], reqs[i]),
        forall|i: int| 0 <= i < reqs.len() ==> #[trigger] step(h, im, logs_b[i], logs_b[i + 1], reqs[i]),
    ensures logs_a.last() == logs_b.last(), logs_a.last() == logs_a[0] + effs_all(h, im, reqs)
    decreases reqs.len()
{
    if reqs.len() == 0 {
        assert(logs_a[0] + effs_all(h, im, reqs) =~= logs_a[0]);
    } else {
        let n = reqs.len() as int;
        lemma_paths_agree(h, im, reqs.drop_last(), logs_a.drop_last(), logs_b.drop_last());
        assert(step(h, im, logs_a[n - 1], logs_a[n], reqs[n - 1]));
        assert(step(h, im, logs_b[n - 1], logs_b[n], reqs[n - 1]));
        assert(logs_a.drop_last().last() == logs_a[n - 1]);
        assert(logs_b.drop_last().last() == logs_b[n - 1]);
        assert(forall|i: int| 0 <= i < n - 1 ==> #[trigger] step(h, im, logs_a.drop_last()[i], logs_a.drop_last()[i + 1], reqs.drop_last()[i])) by {
            assert forall|i: int| 0 <= i < n - 1 implies #[trigger] step(h, im, logs_a.drop_last()[i], logs_a.drop_last()[i + 1], reqs.drop_last()[i]) by {
                assert(step(h, im, logs_a[i], logs_a[i + 1], reqs[i]));
            }
        }
        assert((logs_a[0] + effs_all(h, im, reqs.drop_last())) + effs(h, im, reqs.last()) =~= logs_a[0] + effs_all(h, im, reqs));
    }
}
} // verus!
