verus! {
/// C07: THE messages one committed request stands for, in order — one function for all three paths.
/// Written from the property: every request variant goes to its one component, carrying every field unchanged.
pub open spec fn effs(req: ClientRequest) -> Seq<Eff> {
    match req {
        ClientRequest::NodeAddr { id, addr } => seq![eff_of(RaftIndexRequest::AddNodeAddr(id, addr))],
        ClientRequest::Members(member) => seq![eff_of(member_msg(member))],
        ClientRequest::SequenceReq { req } => seq![eff_of(req)],
        ClientRequest::ConfigSet { key, value, config_type, desc, history_id, history_table_id, op_time, op_user } =>
            seq![eff_of(ConfigRaftCmd::ConfigAdd { key, value, config_type, desc, history_id, history_table_id, op_time, op_user })],
        ClientRequest::ConfigFullValue { key, value, last_seq_id } =>
            if do_of_bytes(value@) is Some {
                seq![eff_of(ConfigRaftCmd::SetFullValue { key: key_of_text(key_text(key@)), value: value_of_do(do_of_bytes(value@).unwrap()), last_id: last_seq_id })]
            } else { seq![] },
        ClientRequest::ConfigRemove { key } => seq![eff_of(ConfigRaftCmd::ConfigRemove { key })],
        ClientRequest::TableManagerReq(req) => seq![eff_of(req)],
        ClientRequest::NamespaceReq(req) => seq![eff_of(req)],
        ClientRequest::McpReq { req } => seq![eff_of(req)],
        ClientRequest::NamingReq { req } => seq![eff_of(req)],
        ClientRequest::CacheReq { req } => seq![eff_of(req)],
    }
}

/// a request none of the paths can decode (they all answer Err before sending anything)
pub open spec fn undecodable(req: ClientRequest) -> bool {
    req matches ClientRequest::ConfigFullValue { key, value, last_seq_id } && do_of_bytes(value@) is None
}

/// the request a stored log record carries (None: blank / membership / snapshot-pointer entries and undecodable records)
pub open spec fn req_of_record(rec: LogRecordDto) -> Option<ClientRequest> {
    match entry_of_record(rec) {
        Some(e) => match e.payload { EntryPayload::Normal(n) => Some(n.data), _ => None },
        None => None,
    }
}
pub open spec fn reqs_of(batch: Seq<ApplyRequestDto>) -> Seq<ClientRequest> { batch.map_values(|a: ApplyRequestDto| a.request) }
pub open spec fn saved_applied(i: u64) -> Eff { eff_of(RaftIndexRequest::SaveLastAppliedLog(i)) }
impl StateApplyManager {
    /// the manager after dependency injection
    pub open spec fn wired(&self) -> bool { self.data_wrap is Some && self.index_manager is Some }
}

/// the messages a whole committed sequence stands for
pub open spec fn effs_all(reqs: Seq<ClientRequest>) -> Seq<Eff>
    decreases reqs.len()
{
    if reqs.len() == 0 { seq![] } else { effs_all(reqs.drop_last()) + effs(reqs.last()) }
}

pub proof fn lemma_effs_all_step(batch: Seq<ApplyRequestDto>, k: int)
    requires 0 <= k < batch.len()
    ensures effs_all(reqs_of(batch.take(k + 1))) == effs_all(reqs_of(batch.take(k))) + effs(batch[k].request),
        effs_all(reqs_of(batch.take(0))) == Seq::<Eff>::empty(),
        batch.take(batch.len() as int) == batch,
{
    let a = reqs_of(batch.take(k + 1));
    assert(a.drop_last() =~= reqs_of(batch.take(k)));
    assert(a.last() == batch[k].request);
    assert(reqs_of(batch.take(0)).len() == 0);
    assert(batch.take(batch.len() as int) =~= batch);
}

/// C07, relational form: whatever mixture of the three paths a node used for each entry (leader for some, follower
/// batches for others, replay after a restart), the component actors received the same messages in the same order.
/// `step(path, log, req)` is the postcondition shared by the three contracts.
pub open spec fn step(before: Seq<Eff>, after: Seq<Eff>, req: ClientRequest) -> bool { after == before + effs(req) }

pub proof fn lemma_paths_agree(reqs: Seq<ClientRequest>, logs_a: Seq<Seq<Eff>>, logs_b: Seq<Seq<Eff>>)
    requires
        logs_a.len() == reqs.len() + 1, logs_b.len() == reqs.len() + 1,
        logs_a[0] == logs_b[0],
        forall|i: int| 0 <= i < reqs.len() ==> #[trigger] step(logs_a[i], logs_a[i + 1], reqs[i]),
        forall|i: int| 0 <= i < reqs.len() ==> #[trigger] step(logs_b[i], logs_b[i + 1], reqs[i]),
    ensures logs_a.last() == logs_b.last(), logs_a.last() == logs_a[0] + effs_all(reqs)
    decreases reqs.len()
{
    if reqs.len() == 0 {
        assert(logs_a[0] + effs_all(reqs) =~= logs_a[0]);
    } else {
        let n = reqs.len() as int;
        lemma_paths_agree(reqs.drop_last(), logs_a.drop_last(), logs_b.drop_last());
        assert(step(logs_a[n - 1], logs_a[n], reqs[n - 1]));
        assert(step(logs_b[n - 1], logs_b[n], reqs[n - 1]));
        assert(logs_a.drop_last().last() == logs_a[n - 1]);
        assert(logs_b.drop_last().last() == logs_b[n - 1]);
        assert(forall|i: int| 0 <= i < n - 1 ==> #[trigger] step(logs_a.drop_last()[i], logs_a.drop_last()[i + 1], reqs.drop_last()[i])) by {
            assert forall|i: int| 0 <= i < n - 1 implies #[trigger] step(logs_a.drop_last()[i], logs_a.drop_last()[i + 1], reqs.drop_last()[i]) by {
                assert(step(logs_a[i], logs_a[i + 1], reqs[i]));
            }
        }
        assert((logs_a[0] + effs_all(reqs.drop_last())) + effs(reqs.last()) =~= logs_a[0] + effs_all(reqs));
    }
}
} // verus!
