// Bounded stand-in (always run, labelled bounded, never counted as proved) for the START-UP half of C01 that no contract
// reaches: StateApplyManager::{init, load_index, load_snapshot, load_log} (async blocks chained with into_actor / wait),
// RaftSnapshotManager, RaftLogManager and RaftIndexManager working on one real data directory.
// A node built from the real storage actors commits a history (log write + leader apply, as the Raft core does), optionally
// compacts (the real do_build_snapshot) after p entries and commits the rest; its data directory is copied (the running node
// keeps the directory lock) and a second node runs the REAL start-up sequence over the copy.  The restarted node must answer
// every query as the node did before it stopped.  Every history that is a prefix (1..=7 entries) of a fixed 7-entry history
// (sets, a delete, a namespace, a named sequence, a re-creation, a user row), with the compaction at every point p in 0..=n
// (p = 0: no snapshot at all): 35 runs, concurrently.
use super::*;

use crate::cache::core::DirectCacheManager;
use crate::config::core::{ConfigActor, ConfigCmd, ConfigKey, ConfigResult};
use crate::mcp::core::McpManager;
use crate::namespace::model::{NamespaceParam, NamespaceQueryReq, NamespaceQueryResult, NamespaceRaftReq};
use crate::namespace::NamespaceActor;
use crate::naming::core::NamingActor;
use crate::raft::db::table::{TableManager, TableManagerQueryReq, TableManagerReq, TableManagerResult};
use crate::raft::filestore::raftlog::RaftLogManagerRequest;
use crate::raft::store::ClientRequest;
use crate::sequence::core::SequenceDbManager;
use crate::sequence::model::{SequenceRaftReq, SequenceRaftResult};
use async_raft::raft::{Entry, EntryNormal};
use std::time::Duration;

struct Node {
    index_manager: Addr<RaftIndexManager>,
    log_manager: Addr<RaftLogManager>,
    snapshot_manager: Addr<RaftSnapshotManager>,
    data_wrap: Arc<RaftDataHandler>,
}

fn start_node(base_path: Arc<String>) -> Node {
    let index_manager = RaftIndexManager::new(base_path.clone()).start();
    let log_manager = RaftLogManager::new(base_path.clone(), Some(index_manager.clone())).start();
    let snapshot_manager = RaftSnapshotManager::new(base_path.clone(), Some(index_manager.clone())).start();
    let data_wrap = Arc::new(RaftDataHandler {
        config: ConfigActor::new().start(),
        table: TableManager::new().start(),
        namespace: NamespaceActor::new(1).start(),
        sequence_db: SequenceDbManager::new().start(),
        mcp_manager: McpManager::new().start(),
        naming_actor: NamingActor::new().start(),
        direct_cache_manager: DirectCacheManager::new().start(),
    });
    Node { index_manager, log_manager, snapshot_manager, data_wrap }
}

fn key_str(data_id: &str) -> String { format!("{}\x02DEFAULT_GROUP\x02", data_id) }

fn config_set(data_id: &str, value: &str, history_id: u64) -> ClientRequest {
    ClientRequest::ConfigSet { key: key_str(data_id), value: Arc::new(value.to_owned()), config_type: None, desc: None, history_id,
        history_table_id: Some(history_id), op_time: 1_700_000_000_000 + history_id as i64, op_user: None }
}

const HISTORY_LEN: usize = 7;

fn history(i: usize) -> ClientRequest {
    match i {
        0 => config_set("a", "value-a", 1),
        1 => config_set("b", "value-b", 2),
        2 => ClientRequest::NamespaceReq(NamespaceRaftReq::Set(NamespaceParam { namespace_id: Arc::new("ns1".to_owned()), namespace_name: Some("first".to_owned()), r#type: None })),
        3 => ClientRequest::ConfigRemove { key: key_str("a") },
        4 => ClientRequest::SequenceReq { req: SequenceRaftReq::NextRange(Arc::new("seq".to_owned()), 10) },
        5 => config_set("a", "value-a2", 6),
        _ => ClientRequest::TableManagerReq(TableManagerReq::Set { table_name: Arc::new("T_USER".to_owned()), key: b"u1".to_vec(), value: b"user-one".to_vec(), last_seq_id: None }),
    }
}

/// what the Raft core does for one committed client write: append the entry to the log, then apply it through the leader path
/// (which also records the last-applied index)
async fn commit(node: &Node, index: u64, req: ClientRequest) {
    let entry = Entry { term: 1, index, payload: EntryPayload::Normal(EntryNormal { data: req.clone() }) };
    let record = StoreUtils::entry_to_record(&entry).unwrap();
    let (tx, rx) = tokio::sync::oneshot::channel();
    node.log_manager.send(RaftLogManagerRequest::Write { record, sender: tx }).await.unwrap().unwrap();
    rx.await.unwrap().unwrap();
    StateApplyManager::async_apply_request_to_state_machine(ApplyRequestDto::new(index, req), &node.data_wrap, node.index_manager.clone()).await.unwrap();
}

async fn observe(node: &Node) -> String {
    let mut out = String::new();
    for id in ["a", "b"] {
        match node.data_wrap.config.send(ConfigCmd::GET(ConfigKey::new(id, "DEFAULT_GROUP", ""))).await.unwrap().unwrap() {
            ConfigResult::Data { value, md5, .. } => out.push_str(&format!("cfg[{}]=({},{}) ", id, value, md5)),
            _ => out.push_str(&format!("cfg[{}]=none ", id)),
        }
    }
    if let ConfigResult::SequenceSection { start, .. } = node.data_wrap.config.send(ConfigCmd::GetSequenceSection(1)).await.unwrap().unwrap() {
        out.push_str(&format!("cfgseq={} ", start));
    }
    if let NamespaceQueryResult::List(list) = node.data_wrap.namespace.send(NamespaceQueryReq::List).await.unwrap().unwrap() {
        let mut l: Vec<String> = list.iter().map(|x| format!("{}={}", x.namespace_id, x.namespace_name)).collect();
        l.sort();
        out.push_str(&format!("ns={:?} ", l));
    }
    if let SequenceRaftResult::NextId(id) = node.data_wrap.sequence_db.send(SequenceRaftReq::NextId(Arc::new("seq".to_owned()))).await.unwrap().unwrap() {
        out.push_str(&format!("seq={} ", id));
    }
    if let TableManagerResult::PageListResult(size, list) = node.data_wrap.table.send(TableManagerQueryReq::QueryPageList {
        table_name: Arc::new("T_USER".to_owned()), like_key: None, offset: None, limit: None, is_rev: false }).await.unwrap().unwrap() {
        out.push_str(&format!("users={}:{:?} ", size, list));
    }
    out
}

fn copy_data_dir(from: &std::path::Path, to: &std::path::Path) {
    for item in std::fs::read_dir(from).unwrap() {
        let item = item.unwrap();
        if item.file_name().to_string_lossy() == "db_lock" { continue; }
        if item.path().is_file() { std::fs::copy(item.path(), to.join(item.file_name())).unwrap(); }
    }
}

/// the real start-up sequence of StateApplyManager (load_index -> load_snapshot -> load_log) over a data directory
async fn restart_from(dir: &std::path::Path) -> Node {
    let node = start_node(Arc::new(dir.to_string_lossy().into_owned()));
    let (index_manager, snapshot_manager, log_manager, data_wrap) =
        (node.index_manager.clone(), node.snapshot_manager.clone(), node.log_manager.clone(), node.data_wrap.clone());
    let apply = StateApplyManager::create(move |ctx| {
        let mut act = StateApplyManager::new();
        act.index_manager = Some(index_manager);
        act.snapshot_manager = Some(snapshot_manager);
        act.log_manager = Some(log_manager);
        act.data_wrap = Some(data_wrap);
        act.init(ctx);
        act
    });
    // answered only after the start-up loading (ctx.wait chain) has finished
    apply.send(StateApplyRequest::GetLastAppliedLog).await.unwrap().unwrap();
    tokio::time::sleep(Duration::from_millis(300)).await;
    node
}

/// the index file shows the last-applied index `n` (big-endian header) — i.e. the unflushed header write has reached the file
fn header_is(dir: &std::path::Path, n: u64) -> bool {
    match std::fs::read(dir.join("index")) { Ok(b) => b.len() >= 8 && b[..8] == n.to_be_bytes(), Err(_) => false }
}

async fn one_run(base: std::path::PathBuf, n: usize, p: usize) -> Option<String> {
    let dir1 = base.join(format!("n{}p{}", n, p));
    let dir2 = base.join(format!("n{}p{}-restart", n, p));
    std::fs::create_dir_all(&dir1).unwrap();
    std::fs::create_dir_all(&dir2).unwrap();
    let node = start_node(Arc::new(dir1.to_string_lossy().into_owned()));
    // what cluster initialisation does first on every real node: membership and own address are saved (this also keeps the index
    // image above the 20 bytes below which the recorded finding S5 applies)
    let mut addrs = std::collections::HashMap::new();
    addrs.insert(1u64, Arc::new("127.0.0.1:9848".to_owned()));
    node.index_manager.send(RaftIndexRequest::SaveMember { member: vec![1], member_after_consensus: None, node_addr: Some(addrs) }).await.unwrap().unwrap();
    for i in 0..n {
        commit(&node, i as u64 + 1, history(i)).await;
        if p > 0 && i + 1 == p {
            if let Err(e) = StateApplyManager::do_build_snapshot(node.log_manager.clone(), node.index_manager.clone(), node.snapshot_manager.clone(), node.data_wrap.clone(), p as u64).await {
                return Some(format!("VX-BOUNDED-FAIL STARTUP n{} p{}: compaction failed: {}", n, p, e));
            }
        }
    }
    let before = observe(&node).await;
    // let the log flush timer (500 ms) and the unflushed last-applied header reach the files
    tokio::time::sleep(Duration::from_millis(1500)).await;
    for _ in 0..100 { if header_is(&dir1, n as u64) { break; } tokio::time::sleep(Duration::from_millis(100)).await; }
    copy_data_dir(&dir1, &dir2);
    let node2 = restart_from(&dir2).await;
    let after = observe(&node2).await;
    if before != after {
        let logs = match node2.log_manager.send(RaftLogManagerAsyncRequest::Query { start: 1, end: n as u64 + 1 }).await {
            Ok(Ok(crate::raft::filestore::raftlog::RaftLogResponse::QueryResult(l))) => l.len() as i64, _ => -1 };
        let idx = match node2.index_manager.send(RaftIndexRequest::LoadIndexInfo).await {
            Ok(Ok(RaftIndexResponse::RaftIndexInfo { raft_index, last_applied_log })) => format!("last_applied {} logs {:?} snapshots {:?}", last_applied_log, raft_index.logs, raft_index.snapshots), _ => "?".to_owned() };
        println!("   [diagnostic n{} p{}] restarted node: {} log entries readable in [1,{}], index: {}; files: {:?}", n, p, logs, n + 1, idx,
            std::fs::read_dir(&dir2).map(|d| d.map(|e| { let e = e.unwrap(); (e.file_name().to_string_lossy().to_string(), e.metadata().map(|m| m.len()).unwrap_or(0)) }).collect::<Vec<_>>()).unwrap_or_default());
        return Some(format!("VX-BOUNDED-FAIL STARTUP n{} p{}: {} entries committed, compaction after {} (0 = none); served before the stop: {} | after the restart: {}", n, p, n, p, before, after));
    }
    None
}

/// several compactions on one data directory (the catalogue keeps the last two snapshots), then a restart: the node must come back from
/// the LATEST snapshot plus the entries behind it
async fn many_compactions_run(base: std::path::PathBuf, compact_after: &[usize]) -> Option<String> {
    let tag = format!("c{}", compact_after.iter().map(|x| x.to_string()).collect::<Vec<_>>().join("-"));
    let dir1 = base.join(&tag);
    let dir2 = base.join(format!("{}-restart", tag));
    std::fs::create_dir_all(&dir1).unwrap();
    std::fs::create_dir_all(&dir2).unwrap();
    let node = start_node(Arc::new(dir1.to_string_lossy().into_owned()));
    let mut addrs = std::collections::HashMap::new();
    addrs.insert(1u64, Arc::new("127.0.0.1:9848".to_owned()));
    node.index_manager.send(RaftIndexRequest::SaveMember { member: vec![1], member_after_consensus: None, node_addr: Some(addrs) }).await.unwrap().unwrap();
    for i in 0..HISTORY_LEN {
        commit(&node, i as u64 + 1, history(i)).await;
        if compact_after.contains(&(i + 1)) {
            if let Err(e) = StateApplyManager::do_build_snapshot(node.log_manager.clone(), node.index_manager.clone(), node.snapshot_manager.clone(), node.data_wrap.clone(), i as u64 + 1).await {
                return Some(format!("VX-BOUNDED-FAIL STARTUP-MANY {}: compaction after {} failed: {}", tag, i + 1, e));
            }
            tokio::time::sleep(Duration::from_millis(150)).await;
        }
    }
    let before = observe(&node).await;
    tokio::time::sleep(Duration::from_millis(1500)).await;
    for _ in 0..100 { if header_is(&dir1, HISTORY_LEN as u64) { break; } tokio::time::sleep(Duration::from_millis(100)).await; }
    copy_data_dir(&dir1, &dir2);
    let node2 = restart_from(&dir2).await;
    let after = observe(&node2).await;
    let last = match node2.snapshot_manager.send(RaftSnapshotRequest::GetLastSnapshot).await {
        Ok(Ok(RaftSnapshotResponse::LastSnapshot(path, header))) => format!("{:?} last_index {:?} exists {}", path, header.as_ref().map(|h| h.last_index), path.as_ref().map(|p| std::path::Path::new(p).exists()).unwrap_or(false)), _ => "?".to_owned() };
    let want = *compact_after.last().unwrap() as u64;
    if before != after || !last.contains(&format!("last_index Some({})", want)) || !last.contains("exists true") {
        return Some(format!("VX-BOUNDED-FAIL STARTUP-MANY {}: compactions after {:?} of {} entries; served before the stop: {} | after the restart: {} | last snapshot after the restart: {}", tag, compact_after, HISTORY_LEN, before, after, last));
    }
    None
}

#[test]
fn vx_bounded_c01_startup() {
    let base = std::env::temp_dir().join(format!("vx_c01s_{}", std::process::id()));
    let _ = std::fs::remove_dir_all(&base);
    std::fs::create_dir_all(&base).unwrap();
    let sys = actix::System::new();
    let (failures, runs) = sys.block_on(async {
        let mut futs = vec![];
        for n in 1..=HISTORY_LEN { for p in 0..=n { futs.push(one_run(base.clone(), n, p)); } }
        let runs = futs.len() + 3;
        let res = futures_util::future::join_all(futs).await;
        let mut all = res.into_iter().flatten().collect::<Vec<String>>();
        for cs in [vec![2usize, 4], vec![1, 3, 5], vec![2, 3, 5, 6]] { if let Some(f) = many_compactions_run(base.clone(), &cs).await { all.push(f); } }
        (all, runs)
    });
    let _ = std::fs::remove_dir_all(&base);
    println!("vx_bounded_c01_startup: {} (history, compaction point) runs through the real start-up sequence", runs);
    for f in failures.iter() { println!("{}", f); }
    assert!(failures.is_empty(), "{} restarts served something else than the node did before", failures.len());
}
