// Bounded stand-in (always run, labelled bounded, never counted as proved) for the DRIVER of C13:
// NamingActor::time_check (values_mut loop over the registry, wall clock, thresholds from the configuration, per-tick work
// limit) is outside Verus; unit service proves Service::time_check for given cut-off instants only.
// Real time, small thresholds (health 600 ms, removal 1200 ms): four services — a beating and a silent HTTP instance
// together, a silent one alone, a beating one alone, and a silent gRPC-owned plus a silent persistent instance — 26 ticks
// of 100 ms, each: heartbeats, then the periodic sweep.  After every tick, for every HTTP ephemeral instance:
// silent longer than the removal time-out (+ slack) => gone; silent longer than the health time-out (+ slack) =>
// unhealthy or gone; beat within the health time-out (- slack) => present and healthy.  The others are never touched.
use super::*;

fn mk(service: &str, ip: &str, ephemeral: bool, grpc: bool) -> Instance {
    let mut i = Instance::new(ip.to_owned(), 8080);
    i.namespace_id = Arc::new("public".to_owned());
    i.service_name = Arc::new(service.to_owned());
    i.group_name = Arc::new("DEFAULT_GROUP".to_owned());
    i.cluster_name = "DEFAULT".to_owned();
    i.ephemeral = ephemeral;
    if grpc { i.from_grpc = true; i.client_id = Arc::new("0_7".to_owned()); }
    i.init();
    i
}

#[test]
fn vx_bounded_c13_expiry_driver() {
    const HEALTH: u128 = 600;
    const REMOVE: u128 = 1200;
    const SLACK: u128 = 250;
    let mut naming = NamingActor::new();
    naming.sys_config.instance_health_timeout_millis = HEALTH as i64;
    naming.sys_config.instance_timeout_millis = REMOVE as i64;
    // (service, ip, ephemeral, grpc, beats?)
    let cast = [("s-mixed", "10.0.0.1", true, false, true), ("s-mixed", "10.0.0.2", true, false, false), ("s-silent", "10.0.0.3", true, false, false),
                ("s-alive", "10.0.0.4", true, false, true), ("s-other", "10.0.0.5", true, true, false), ("s-other", "10.0.0.6", false, false, false)];
    let beat_tag = InstanceUpdateTag { weight: false, metadata: false, enabled: false, ephemeral: false, from_update: false };
    let start = std::time::Instant::now();
    let mut last_beat: Vec<u128> = vec![0; cast.len()];
    for (n, c) in cast.iter().enumerate() {
        let i = mk(c.0, c.1, c.2, c.3);
        let key = i.get_service_key();
        naming.update_instance(&key, i, None, false, None);
        last_beat[n] = start.elapsed().as_millis();
    }
    let mut failures: Vec<String> = vec![];
    let mut seen_unhealthy = 0usize;
    let mut seen_removed = 0usize;
    for step in 1..=26u64 {
        let target = std::time::Duration::from_millis(step * 100);
        let elapsed = start.elapsed();
        if target > elapsed { std::thread::sleep(target - elapsed); }
        for (n, c) in cast.iter().enumerate() {
            if c.4 {
                let i = mk(c.0, c.1, c.2, c.3);
                let key = i.get_service_key();
                naming.update_instance(&key, i, Some(beat_tag.clone()), false, None);
                last_beat[n] = start.elapsed().as_millis();
            }
        }
        let before = start.elapsed().as_millis();
        naming.time_check();
        let after = start.elapsed().as_millis();
        for (n, c) in cast.iter().enumerate() {
            let probe = mk(c.0, c.1, c.2, c.3);
            let got = naming.get_instance(&probe.get_service_key(), &probe.get_short_key());
            let http_ephemeral = c.2 && !c.3;
            if !http_ephemeral {
                match &got { Some(i) if i.healthy => {}, other => failures.push(format!("VX-BOUNDED-FAIL EXPIRY {} {} (ephemeral {}, gRPC {}) was touched by the heartbeat clock at tick {}: {:?}", c.0, c.1, c.2, c.3, step, other.as_ref().map(|i| i.healthy))) }
                continue;
            }
            let silent_min = before.saturating_sub(last_beat[n]);   // silent for at least this long when the sweep started
            let silent_max = after.saturating_sub(last_beat[n]);
            match &got {
                None => { seen_removed += 1; if silent_max + SLACK < REMOVE { failures.push(format!("VX-BOUNDED-FAIL EXPIRY {} {} removed {} ms after its last heartbeat (removal time-out {} ms) at tick {}", c.0, c.1, silent_max, REMOVE, step)); } }
                Some(i) => {
                    if silent_min > REMOVE + SLACK { failures.push(format!("VX-BOUNDED-FAIL EXPIRY {} {} still registered {} ms after its last heartbeat (removal time-out {} ms) at tick {}", c.0, c.1, silent_min, REMOVE, step)); }
                    if !i.healthy { seen_unhealthy += 1; if silent_max + SLACK < HEALTH { failures.push(format!("VX-BOUNDED-FAIL EXPIRY {} {} unhealthy {} ms after its last heartbeat (health time-out {} ms) at tick {}", c.0, c.1, silent_max, HEALTH, step)); } }
                    else if silent_min > HEALTH + SLACK { failures.push(format!("VX-BOUNDED-FAIL EXPIRY {} {} still healthy {} ms after its last heartbeat (health time-out {} ms) at tick {}", c.0, c.1, silent_min, HEALTH, step)); }
                }
            }
        }
        if failures.len() > 6 { break; }
    }
    if failures.is_empty() && (seen_unhealthy == 0 || seen_removed == 0) { failures.push(format!("VX-BOUNDED the run never saw an unhealthy ({}) or a removed ({}) instance: not exercised", seen_unhealthy, seen_removed)); }
    failures.dedup();
    assert!(failures.is_empty(), "{} failing observation(s):\n{}", failures.len(), failures.iter().take(6).cloned().collect::<Vec<_>>().join("\n"));
}
