// Bounded stand-in (always run, labelled bounded, never counted as proved) for C13 over SCHEDULES on a virtual clock: the
// functions themselves (Service::{update_instance, time_check, update_instance_healthy_invalid, remove_instance}) are under
// contract in this unit; this enumeration decides the statement over whole heartbeat schedules when a rewrite (a new helper,
// a reshaped body) takes their text out of the proof's reach.
// One service with two ephemeral HTTP instances, a persistent instance and a gRPC-owned instance; the 2 s tick of
// NamingActor::time_check is driven on a synthetic clock (time-outs 15 s / 30 s, 150 s); each HTTP instance follows one of 12
// heartbeat patterns (always, never, stop after a while, silent long enough to be unhealthy / removed and then one late beat
// or a resumed rhythm, periods just below / above the health time-out); every pair of patterns.  After every tick:
//  * an instance whose last beat is younger than the health time-out is registered and healthy;
//  * one whose last beat is older than the health time-out by at least one tick is not healthy;
//  * one whose last beat is older than the instance time-out by at least one tick is gone;
//  * the persistent and the gRPC-owned instance are there and healthy all the time.
use super::*;
use crate::naming::model::{Instance, InstanceShortKey, InstanceUpdateTag};

const H: i64 = 15_000;
const I: i64 = 30_000;
const STEP: i64 = 2_000;
const STEPS: i64 = 75;

fn inst(ip: &str, at: i64) -> Instance {
    let mut i = Instance::new(ip.to_owned(), 8080);
    i.id = Arc::new(i.get_id_string());
    i.ephemeral = true;
    i.healthy = true;
    i.last_modified_millis = at;
    i
}
fn register(service: &mut Service, ip: &str, at: i64) { service.update_instance(inst(ip, at), Some(InstanceUpdateTag::default()), false, &None); }
fn beat(service: &mut Service, ip: &str, at: i64) {
    let tag = InstanceUpdateTag { weight: false, enabled: false, ephemeral: false, metadata: false, from_update: false };
    service.update_instance(inst(ip, at), Some(tag), false, &None);
}

/// does the pattern beat at step s (s >= 1; step 0 is the registration)?
fn beats(p: usize, s: i64) -> bool {
    match p {
        0 => s % 2 == 0,                              // every 4 s for ever
        1 => false,                                   // never
        2 => s % 2 == 0 && s <= 4,                    // stops early
        3 => s % 2 == 0 && s <= 20,                   // stops later
        4 => s == 9,                                  // silent 18 s (unhealthy), one late beat, silent
        5 => s == 12,                                 // silent 24 s, one late beat, silent
        6 => s >= 9 && s % 2 == 1,                    // silent 18 s, then a steady rhythm for ever
        7 => s == 17,                                 // silent 34 s (removed), comes back once, silent
        8 => s % 7 == 0,                              // every 14 s: just inside the health time-out
        9 => s % 8 == 0,                              // every 16 s: just outside
        10 => s == 9 || s == 18 || s == 27,           // three late beats, 18 s apart
        _ => s % 2 == 0 && (s <= 6 || (s >= 30 && s <= 40)),   // two bursts with 48 s of silence between them
    }
}

#[test]
fn vx_bounded_c13_schedules() {
    let mut failures: Vec<String> = vec![];
    let mut ticks = 0u64;
    let t0: i64 = 1_700_000_000_000;
    let ips = ["10.0.0.1", "10.0.0.2"];
    'outer: for pa in 0..12usize { for pb in 0..12usize {
        let pats = [pa, pb];
        let mut service = Service::default();
        register(&mut service, ips[0], t0);
        register(&mut service, ips[1], t0);
        let mut pers = inst("10.0.0.3", t0); pers.ephemeral = false;
        service.update_instance(pers, Some(InstanceUpdateTag::default()), false, &None);
        let mut grpc = inst("10.0.0.4", t0); grpc.from_grpc = true; grpc.client_id = Arc::new("0_77".to_owned());
        service.update_instance(grpc, Some(InstanceUpdateTag::default()), false, &None);
        let mut last = [t0, t0];
        for s in 1..=STEPS {
            let now = t0 + s * STEP;
            for k in 0..2 { if beats(pats[k], s) { beat(&mut service, ips[k], now); last[k] = now; } }
            service.time_check(now - H, now - I);
            ticks += 1;
            for k in 0..2 {
                let key = InstanceShortKey::new(Arc::new(ips[k].to_owned()), 8080);
                let got = service.get_instance(&key).map(|i| i.healthy);
                let silent = now - last[k];
                let what = if silent < H { if got == Some(true) { None } else { Some("is beating within the health time-out and must be registered and healthy") } }
                    else if silent >= I + STEP { if got.is_none() { None } else { Some("has been silent longer than the instance time-out and must be gone") } }
                    else if silent >= H + STEP && silent < I { if got == Some(false) { None } else { Some("has been silent longer than the health time-out and must be reported unhealthy (and still be registered)") } }
                    else { None };
                if let Some(w) = what {
                    failures.push(format!("VX-BOUNDED-FAIL SCHEDULE patterns ({}, {}) step {} ({} ms after the last beat of instance {}): it {} — observed {:?}", pa, pb, s, silent, k, w, got));
                    if failures.len() > 8 { break 'outer; }
                }
            }
            for (ip, name) in [("10.0.0.3", "persistent"), ("10.0.0.4", "gRPC-owned")] {
                let key = InstanceShortKey::new(Arc::new(ip.to_owned()), 8080);
                if service.get_instance(&key).map(|i| i.healthy) != Some(true) {
                    failures.push(format!("VX-BOUNDED-FAIL SCHEDULE patterns ({}, {}) step {}: the {} instance was touched by the heartbeat clock", pa, pb, s, name));
                    if failures.len() > 8 { break 'outer; }
                }
            }
            if !failures.is_empty() { continue 'outer; }
        }
    } }
    assert!(ticks > 9000 || !failures.is_empty(), "only {} ticks", ticks);
    assert!(failures.is_empty(), "{} failing schedule(s), first ones:\n{}", failures.len(), failures.iter().take(6).cloned().collect::<Vec<_>>().join("\n"));
}
