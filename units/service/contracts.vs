@@ Instance::is_from_cluster spec
    ensures r == (self.from_cluster > 0)
@@ Instance::is_enable_timeout spec
    ensures r == timeout_enabled(*self)
@@ Instance::get_short_key spec
    ensures r == key_of(*self)
@@ InstanceUpdateTag::is_none spec
    ensures r == (!self.weight && !self.metadata && !self.enabled && !self.ephemeral)
@@ ServiceKey::new_by_arc spec
    ensures r.namespace_id == namespace_id, r.group_name == group_name, r.service_name == service_name
@@ InstanceMetaDto::new spec
    ensures r.service_key == service_key, r.instance_key == instance_key, r.metadata == metadata
@@ Service::get_service_meta_list external
@@ Service::get_service_key spec
    ensures r.namespace_id == self.namespace_id, r.group_name == self.group_name, r.service_name == self.service_name
@@ Service::get_service_info spec
    requires self.wf()
    // C11: the reported counts are the counts of the instance map
    ensures r.instance_size == self.instances@.dom().len(), r.healthy_instance_size == healthy_keys(self.instances@).len(),
@@ Service::get_instance spec
    ensures match r {
            Some(i) => self.instances@.contains_key(*instance_key) && cloned::<Arc<Instance>>(self.instances@[*instance_key], i),
            None => !self.instances@.contains_key(*instance_key),
        }
@@ Service::get_instance entry
    broadcast use axiom_short_key_model;
    broadcast use vstd::std_specs::hash::group_hash_axioms;
@@ Service::remove_instance spec
    requires old(self).wf()   // @C11
    ensures final(self).wf(),   // @C11
        match r {   // @C11 @C12
            Some(old_i) => old(self).instances@.contains_key(*instance_key)
                && old_i == old(self).instances@[*instance_key]
                && final(self).instances@ == old(self).instances@.remove(*instance_key),
            None => final(self).instances@ == old(self).instances@,
        },
        // C12: an ephemeral instance owned by another client is not removed
        (client_id is Some && old(self).instances@.contains_key(*instance_key)   // @C12
            && old(self).instances@[*instance_key].ephemeral && client_id.unwrap()@.len() > 0
            && old(self).instances@[*instance_key].client_id@ != client_id.unwrap()@) ==> r is None,
        // otherwise exactly this key is removed
        (old(self).instances@.contains_key(*instance_key) && !(client_id is Some   // @C12
            && old(self).instances@[*instance_key].ephemeral && client_id.unwrap()@.len() > 0
            && old(self).instances@[*instance_key].client_id@ != client_id.unwrap()@)) ==> r is Some,
        final(self).healthy_timeout_set == old(self).healthy_timeout_set, final(self).unhealthy_timeout_set == old(self).unhealthy_timeout_set,   // @C13
@@ Service::remove_instance entry
    broadcast use axiom_short_key_model;
    broadcast use vstd::std_specs::hash::group_hash_axioms;
    proof {
        if self.instances@.contains_key(*instance_key) { lemma_remove_counts(self.instances@, *instance_key); }
        else { assert(self.instances@.remove(*instance_key) =~= self.instances@); }
    }
@@ Service::time_check t10 1
@@ Service::time_check t10 2
@@ Service::time_check spec
    requires old(self).wf(), healthy_time >= 0, offline_time >= 0
    ensures final(self).wf(),   // @C11
        // C13: persistent, gRPC-connected and cluster-owned instances are never touched by the heartbeat clock
        forall|k: InstanceShortKey| #[trigger] old(self).instances@.contains_key(k) && !timeout_enabled(*old(self).instances@[k])   // @C13
            ==> final(self).instances@.contains_key(k) && final(self).instances@[k] == old(self).instances@[k],
        // C13: an instance whose heartbeat is newer than the thresholds is neither removed nor marked unhealthy
        forall|k: InstanceShortKey| #[trigger] old(self).instances@.contains_key(k) && old(self).instances@[k].last_modified_millis > offline_time   // @C13
            ==> final(self).instances@.contains_key(k),
        forall|k: InstanceShortKey| #[trigger] old(self).instances@.contains_key(k) && old(self).instances@[k].last_modified_millis > offline_time   // @C13
            && old(self).instances@[k].last_modified_millis > healthy_time ==> final(self).instances@[k] == old(self).instances@[k],
        // nothing is invented; survivors keep everything but possibly the health bit
        forall|k: InstanceShortKey| #[trigger] final(self).instances@.contains_key(k) ==> old(self).instances@.contains_key(k)   // @C12 @C13
            && (final(self).instances@[k] == old(self).instances@[k]
                || (old(self).instances@[k].healthy && *final(self).instances@[k] == (Instance { healthy: false, ..*old(self).instances@[k] }))),
        // C13 (under A-TS): a silent instance whose removal entry is due is removed; one whose health entry is due is marked unhealthy
        forall|k: InstanceShortKey| #[trigger] old(self).unhealthy_timeout_set.due(offline_time as u64, k) && old(self).instances@.contains_key(k)   // @C13
            && timeout_enabled(*old(self).instances@[k]) && old(self).instances@[k].last_modified_millis <= offline_time
            ==> !final(self).instances@.contains_key(k),
        forall|k: InstanceShortKey| #[trigger] old(self).healthy_timeout_set.due(healthy_time as u64, k) && final(self).instances@.contains_key(k)   // @C13
            && timeout_enabled(*old(self).instances@[k]) && old(self).instances@[k].last_modified_millis <= healthy_time
            ==> !final(self).instances@[k].healthy,
@@ Service::time_check entry
    broadcast use axiom_short_key_model;
    broadcast use vstd::std_specs::hash::group_hash_axioms;
    broadcast use group_std_extra;
    let ghost m0 = self.instances@;
    let ghost ts1 = self.unhealthy_timeout_set;
    let ghost ts2 = self.healthy_timeout_set;
@@ Service::time_check loop 1
    invariant vx_it_1.obeys_prophetic_iter_laws(), vx_it_1.decrease() is Some,
        self.wf(),   // @C11
        offline_time >= 0, healthy_time >= 0,
        self.healthy_timeout_set == ts2,   // @C13
        tc_keep1(m0, self.instances@, offline_time),   // @C13
        forall|v: InstanceShortKey| #[trigger] ts1.due(offline_time as u64, v) && m0.contains_key(v) && timeout_enabled(*m0[v])   // @C13
            && m0[v].last_modified_millis <= offline_time ==> vx_it_1.remaining().contains(v) || !self.instances@.contains_key(v),
    ensures vx_it_1.remaining().len() == 0
    decreases vx_it_1.decrease()->0
@@ Service::time_check loop 1 body_entry
    broadcast use axiom_short_key_model;
    broadcast use vstd::std_specs::hash::group_hash_axioms;
    broadcast use group_std_extra;
    proof { lemma_drop_first_contains(vx_it_1.remaining()); }
@@ Service::time_check after_loop 1
    let ghost m1 = self.instances@;
@@ Service::time_check loop 2
    invariant vx_it_2.obeys_prophetic_iter_laws(), vx_it_2.decrease() is Some,
        self.wf(),   // @C11
        offline_time >= 0, healthy_time >= 0,
        tc_keep1(m0, m1, offline_time),   // @C13
        forall|v: InstanceShortKey| #[trigger] ts1.due(offline_time as u64, v) && m0.contains_key(v) && timeout_enabled(*m0[v])   // @C13
            && m0[v].last_modified_millis <= offline_time ==> !m1.contains_key(v),
        tc_keep2(m1, self.instances@, healthy_time),   // @C13
        forall|v: InstanceShortKey| #[trigger] ts2.due(healthy_time as u64, v) && m1.contains_key(v) && timeout_enabled(*m1[v])   // @C13
            && m1[v].last_modified_millis <= healthy_time ==> vx_it_2.remaining().contains(v) || !self.instances@[v].healthy,
    ensures vx_it_2.remaining().len() == 0
    decreases vx_it_2.decrease()->0
@@ Service::time_check loop 2 body_entry
    broadcast use axiom_short_key_model;
    broadcast use vstd::std_specs::hash::group_hash_axioms;
    broadcast use group_std_extra;
    proof { lemma_drop_first_contains(vx_it_2.remaining()); }
@@ Service::update_instance spec
    requires old(self).wf(), old(self).instances@.dom().len() < 0x7fff_ffff
    ensures final(self).wf(),   // @C11
        // exactly the key of the incoming address is (re)bound, every other entry is unchanged
        final(self).instances@.dom() == old(self).instances@.dom().insert(key_of(instance)),   // @C11 @C12
        forall|k: InstanceShortKey| k != key_of(instance) && old(self).instances@.contains_key(k)   // @C11 @C12
            ==> final(self).instances@[k] == old(self).instances@[k],
        // C12: a newly registered instance carries the address, flags, weight and owner it was registered with
        !old(self).instances@.contains_key(key_of(instance)) ==> ({   // @C12
            let f = final(self).instances@[key_of(instance)];
            f.ip == instance.ip && f.port == instance.port && f.ephemeral == instance.ephemeral && f.enabled == instance.enabled
            && f.weight == instance.weight && f.healthy == instance.healthy && f.client_id == instance.client_id
            && f.from_grpc == instance.from_grpc && f.from_cluster == instance.from_cluster
            && f.last_modified_millis == instance.last_modified_millis
        }),
        // C12: an HTTP re-registration over a gRPC-owned ephemeral instance keeps the gRPC owner
        (old(self).instances@.contains_key(key_of(instance)) && instance.ephemeral && !instance.from_grpc   // @C12
            && old(self).instances@[key_of(instance)].from_grpc) ==> ({
            let f = final(self).instances@[key_of(instance)];
            let o = old(self).instances@[key_of(instance)];
            f.from_grpc && f.client_id == o.client_id && f.from_cluster == o.from_cluster
        }),
        // C12: the previous owner is reported exactly when the address had a (non-empty) owner and the stored owner differs from it,
        // so that the caller can drop the key from that client's connection record
        r.1 == (if old(self).instances@.contains_key(key_of(instance)) && old(self).instances@[key_of(instance)].client_id@.len() > 0   // @C12
                    && final(self).instances@[key_of(instance)].client_id@ != old(self).instances@[key_of(instance)].client_id@
                { Some(old(self).instances@[key_of(instance)].client_id) } else { None }),
        // the change tag: New exactly for an address that was not registered, otherwise a value / time update
        (r.0 is New <==> !old(self).instances@.contains_key(key_of(instance))), r.0 is New || r.0 is UpdateValue || r.0 is UpdateTime,   // @C11
        final(self).instances@[key_of(instance)].last_modified_millis == instance.last_modified_millis,   // @C13
        // C13: a heartbeat (any update of the address) carries its health flag into the registry: an instance that was marked unhealthy
        // and beats again is healthy again — no update tag keeps the old flag
        final(self).instances@[key_of(instance)].healthy == instance.healthy,   // @C13
        // C13: a heart-beating HTTP instance is (re)armed on the health clock at its heartbeat time
        (timeout_enabled(*final(self).instances@[key_of(instance)]) && !from_sync) ==>   // @C13
            final(self).healthy_timeout_set.armed(instance.last_modified_millis as u64, key_of(instance)),
        final(self).unhealthy_timeout_set == old(self).unhealthy_timeout_set,   // @C13
@@ Service::update_instance entry
    broadcast use axiom_short_key_model;
    broadcast use vstd::std_specs::hash::group_hash_axioms;
    broadcast use group_std_extra;
    let ghost old_m = self.instances@;
    let ghost gk = key_of(instance);
    proof { old_m.dom().lemma_len_filter(|k: InstanceShortKey| old_m[k].healthy); }
@@ Service::update_instance before_tail
    proof {
        lemma_insert_counts(old_m, gk, self.instances@[gk]);
        assert(self.instances@ =~= old_m.insert(gk, self.instances@[gk]));
        assert(self.perpetual_host_set@ =~= perpetual_keys(self.instances@));   // @C11 @C01
    }
@@ Service::update_instance_healthy_invalid spec
    requires old(self).wf()   // @C11
    ensures final(self).wf(),   // @C11
        final(self).instances@.dom() == old(self).instances@.dom(),
        forall|k: InstanceShortKey| k != *instance_id && old(self).instances@.contains_key(k) ==> final(self).instances@[k] == old(self).instances@[k],
        // a healthy instance becomes unhealthy (nothing else about it changes) and is armed on the removal clock
        (old(self).instances@.contains_key(*instance_id) && old(self).instances@[*instance_id].healthy) ==> ({   // @C13
            let o = *old(self).instances@[*instance_id];
            *final(self).instances@[*instance_id] == (Instance { healthy: false, ..o })
            && final(self).unhealthy_timeout_set.armed(o.last_modified_millis as u64, *instance_id)
        }),
        !(old(self).instances@.contains_key(*instance_id) && old(self).instances@[*instance_id].healthy) ==>
            final(self).instances@ == old(self).instances@ && final(self).unhealthy_timeout_set == old(self).unhealthy_timeout_set,
        final(self).healthy_timeout_set == old(self).healthy_timeout_set,
@@ Service::update_instance_healthy_invalid entry
    broadcast use axiom_short_key_model;
    broadcast use vstd::std_specs::hash::group_hash_axioms;
    broadcast use group_std_extra;
    let ghost old_m = self.instances@;
    let ghost gk = *instance_id;
    proof {
        if old_m.contains_key(gk) { lemma_remove_counts(old_m, gk); }
        else { assert(old_m.remove(gk) =~= old_m); }
    }
@@ Service::update_instance_healthy_invalid before_return *
    proof {
        assert(self.instances@ =~= old_m);
    }
@@ Service::update_instance_healthy_invalid exit
    proof {
        if old_m.contains_key(gk) && old_m[gk].healthy {
            lemma_insert_counts(old_m.remove(gk), gk, self.instances@[gk]);
            assert(self.instances@ =~= old_m.remove(gk).insert(gk, self.instances@[gk]));
            assert(self.instances@.dom() =~= old_m.dom());
            assert(perpetual_keys(self.instances@) =~= perpetual_keys(old_m));   // @C11 @C01
        } else {
            assert(self.instances@ =~= old_m);
        }
    }
@@ Service::update_perpetual_instance_healthy_valid spec
    requires old(self).wf(), old(self).instances@.dom().len() < 0x7fff_ffff
    ensures final(self).wf(),   // @C11
        final(self).instances@.dom() == old(self).instances@.dom(),
        forall|k: InstanceShortKey| k != *instance_id && old(self).instances@.contains_key(k) ==> final(self).instances@[k] == old(self).instances@[k],
        (old(self).instances@.contains_key(*instance_id) && !old(self).instances@[*instance_id].healthy && !old(self).instances@[*instance_id].ephemeral) ==>
            *final(self).instances@[*instance_id] == (Instance { healthy: true, ..*old(self).instances@[*instance_id] }),
        !(old(self).instances@.contains_key(*instance_id) && !old(self).instances@[*instance_id].healthy && !old(self).instances@[*instance_id].ephemeral) ==>
            final(self).instances@ == old(self).instances@,
        final(self).healthy_timeout_set == old(self).healthy_timeout_set, final(self).unhealthy_timeout_set == old(self).unhealthy_timeout_set,   // @C13
@@ Service::update_perpetual_instance_healthy_valid entry
    broadcast use axiom_short_key_model;
    broadcast use vstd::std_specs::hash::group_hash_axioms;
    broadcast use group_std_extra;
    let ghost old_m = self.instances@;
    let ghost gk = *instance_id;
    proof {
        old_m.dom().lemma_len_filter(|k: InstanceShortKey| old_m[k].healthy);
        if old_m.contains_key(gk) { lemma_remove_counts(old_m, gk); }
        else { assert(old_m.remove(gk) =~= old_m); }
    }
@@ Service::update_perpetual_instance_healthy_valid before_return *
    proof {
        assert(self.instances@ =~= old_m);
    }
@@ Service::update_perpetual_instance_healthy_valid exit
    proof {
        if old_m.contains_key(gk) && !old_m[gk].healthy && !old_m[gk].ephemeral {
            lemma_insert_counts(old_m.remove(gk), gk, self.instances@[gk]);
            assert(self.instances@ =~= old_m.remove(gk).insert(gk, self.instances@[gk]));
            assert(self.instances@.dom() =~= old_m.dom());
            assert(perpetual_keys(self.instances@) =~= perpetual_keys(old_m));   // @C11 @C01
        } else {
            assert(self.instances@ =~= old_m);
        }
    }
