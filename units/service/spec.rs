verus! {

/// A-KEY: derived Hash/Eq of InstanceShortKey are lawful
pub broadcast axiom fn axiom_short_key_model()
    ensures #[trigger] vstd::std_specs::hash::obeys_key_model::<InstanceShortKey>();

pub type IMap = Map<InstanceShortKey, Arc<Instance>>;

pub open spec fn healthy_keys(m: IMap) -> Set<InstanceShortKey> {
    m.dom().filter(|k: InstanceShortKey| m[k].healthy)
}
pub open spec fn perpetual_keys(m: IMap) -> Set<InstanceShortKey> {
    m.dom().filter(|k: InstanceShortKey| !m[k].ephemeral)
}
pub open spec fn key_of(i: Instance) -> InstanceShortKey { InstanceShortKey { ip: i.ip, port: i.port } }

/// the heartbeat clock applies: ephemeral, registered over HTTP on this node
pub open spec fn timeout_enabled(i: Instance) -> bool { i.ephemeral && !i.from_grpc && !(i.from_cluster > 0) }

pub proof fn lemma_remove_counts(m: IMap, k: InstanceShortKey)
    requires m.dom().contains(k)
    ensures
        m[k].healthy ==> healthy_keys(m.remove(k)).len() == healthy_keys(m).len() - 1,
        !m[k].healthy ==> healthy_keys(m.remove(k)).len() == healthy_keys(m).len(),
        !m[k].ephemeral ==> perpetual_keys(m.remove(k)) == perpetual_keys(m).remove(k),
        m[k].ephemeral ==> perpetual_keys(m.remove(k)) == perpetual_keys(m),
        healthy_keys(m).len() <= m.dom().len(),
        m.remove(k).dom().len() == m.dom().len() - 1,
{
    let r = m.remove(k);
    m.dom().lemma_len_filter(|k: InstanceShortKey| m[k].healthy);
    if m[k].healthy {
        assert(healthy_keys(r) =~= healthy_keys(m).remove(k));
    } else {
        assert(healthy_keys(r) =~= healthy_keys(m));
    }
    if !m[k].ephemeral {
        assert(perpetual_keys(r) =~= perpetual_keys(m).remove(k));
    } else {
        assert(perpetual_keys(r) =~= perpetual_keys(m));
    }
}

pub proof fn lemma_insert_counts(m: IMap, k: InstanceShortKey, v: Arc<Instance>)
    ensures
        m.dom().contains(k) ==> m.insert(k, v).dom().len() == m.dom().len(),
        !m.dom().contains(k) ==> m.insert(k, v).dom().len() == m.dom().len() + 1,
        healthy_keys(m.insert(k, v)).len() == healthy_keys(m).len()
            - (if m.dom().contains(k) && m[k].healthy { 1int } else { 0int }) + (if v.healthy { 1int } else { 0int }),
        perpetual_keys(m.insert(k, v)) == (if v.ephemeral { perpetual_keys(m).remove(k) } else { perpetual_keys(m).insert(k) }),
        healthy_keys(m).len() <= m.dom().len(),
{
    let r = m.insert(k, v);
    m.dom().lemma_len_filter(|k: InstanceShortKey| m[k].healthy);
    let hm = healthy_keys(m);
    let hr = healthy_keys(r);
    if v.healthy {
        assert(hr =~= hm.insert(k));
    } else {
        assert(hr =~= hm.remove(k));
    }
    if v.ephemeral {
        assert(perpetual_keys(r) =~= perpetual_keys(m).remove(k));
    } else {
        assert(perpetual_keys(r) =~= perpetual_keys(m).insert(k));
    }
    if m.dom().contains(k) {
        assert(r.dom() =~= m.dom());
    }
}

/// time_check, removal loop: survivors are unchanged; protected instances survive
pub open spec fn tc_keep1(m0: IMap, m: IMap, offline: i64) -> bool {
    &&& forall|k: InstanceShortKey| #[trigger] m.contains_key(k) ==> m0.contains_key(k) && m[k] == m0[k]
    &&& forall|k: InstanceShortKey| #[trigger] m0.contains_key(k) && (!timeout_enabled(*m0[k]) || m0[k].last_modified_millis > offline) ==> m.contains_key(k)
}
/// time_check, health loop: same keys; only the health bit of unprotected instances may drop
pub open spec fn tc_keep2(m1: IMap, m: IMap, healthy: i64) -> bool {
    &&& m.dom() == m1.dom()
    &&& forall|k: InstanceShortKey| #[trigger] m.contains_key(k) ==> (m[k] == m1[k] || (m1[k].healthy && *m[k] == (Instance { healthy: false, ..*m1[k] })))
    &&& forall|k: InstanceShortKey| #[trigger] m1.contains_key(k) && (!timeout_enabled(*m1[k]) || m1[k].last_modified_millis > healthy) ==> m[k] == m1[k]
}
pub proof fn lemma_drop_first_contains<A>(s: Seq<A>)
    ensures forall|v: A| s.len() > 0 && #[trigger] s.contains(v) && v != s[0] ==> s.drop_first().contains(v)
{
    assert forall|v: A| s.len() > 0 && #[trigger] s.contains(v) && v != s[0] implies s.drop_first().contains(v) by {
        let i = choose|i: int| 0 <= i < s.len() && s[i] == v;
        assert(s.drop_first()[i - 1] == v);
    }
}

impl Service {
    /// C11: the counters and the persistent set are functions of the instance map
    pub open spec fn wf(&self) -> bool {
        &&& self.instance_size == self.instances@.dom().len()
        &&& self.healthy_instance_size == healthy_keys(self.instances@).len()
        &&& self.perpetual_host_set@ == perpetual_keys(self.instances@)
        &&& forall|k: InstanceShortKey| self.instances@.contains_key(k) ==> key_of(*#[trigger] self.instances@[k]) == k
    }
}

} // verus!
