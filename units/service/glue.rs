use std::collections::LinkedList;
verus! {

/// A-CLOCK: the wall clock (ms since 1970) stays below 2^62
#[verifier::external_body]
pub fn now_millis() -> (r: u64) ensures r < 0x4000_0000_0000_0000 { unimplemented!() }

/// model of inner_mem_cache::TimeoutSet<T> (0.1.7: BTreeMap<u64, LinkedList<T>>) — assumption A-TS
#[verifier::external_body]
#[verifier::reject_recursive_types(T)]
pub struct TimeoutSet<T> { inner: core::marker::PhantomData<T> }

impl<T> TimeoutSet<T> {
    /// value `v` is armed to fire at time `t`
    pub uninterp spec fn armed(&self, t: u64, v: T) -> bool;
    /// some entry of `v` fires at or before `time`
    pub open spec fn due(&self, time: u64, v: T) -> bool { exists|t: u64| t <= time && #[trigger] self.armed(t, v) }

    #[verifier::external_body]
    pub fn add(&mut self, time: u64, val: T)
        ensures forall|t: u64, v: T| #[trigger] final(self).armed(t, v) <==> (old(self).armed(t, v) || (t == time && v == val))
    { unimplemented!() }

    /// remove timeout values and return them
    #[verifier::external_body]
    pub fn timeout(&mut self, time: u64) -> (r: Vec<T>)
        ensures
            forall|i: int| 0 <= i < r@.len() ==> #[trigger] old(self).due(time, r@[i]),
            forall|v: T| #[trigger] old(self).due(time, v) ==> r@.contains(v),
            forall|t: u64, v: T| #[trigger] final(self).armed(t, v) <==> (t > time && old(self).armed(t, v)),
    { unimplemented!() }

    #[verifier::external_body]
    pub fn item_size(&self) -> usize { unimplemented!() }
}

pub struct InstanceMetaManager {}
pub enum InstanceMetaManagerReq {
    UpdateServiceMeta { service_key: ServiceKey, records: Vec<InstanceMetaDto> },
    RemoveServiceMeta { service_keys: Vec<ServiceKey> },
}

/// actix::Addr<A>: sending has no specified effect on any state visible to these contracts
#[verifier::external_body]
#[verifier::reject_recursive_types(A)]
pub struct Addr<A> { inner: core::marker::PhantomData<A> }
impl<A> Addr<A> {
    #[verifier::external_body]
    pub fn do_send<M>(&self, msg: M) { unimplemented!() }
}

} // verus!
