verus! {
/// binrw header of a log file (src/raft/filestore/model.rs): plain data here; its 32-byte big-endian image is not modelled
pub struct LogIndexHeaderDo {
    pub magic: u32, pub version: u16, pub last_term: u64, pub first_index: u64, pub data_area_index: u16,
    pub index_interval: u16, pub all_index_count: u16, pub status: u8, pub ext1: u8, pub ext2: u8, pub ext3: u8,
}
/// generated protobuf message LogRecord<'a> (src/raft/filestore/log.rs): opaque here
pub struct LogRecord { pub vx: u64 }
impl PbMessage for LogRecord { uninterp spec fn pb_bytes(&self) -> Seq<u8>; }
/// DTO <-> message conversion (field-wise copies in model.rs; assumed round trip)
pub uninterp spec fn rec_msg(d: LogRecordDto) -> LogRecord;
pub uninterp spec fn rec_dto(m: LogRecord) -> LogRecordDto;
pub broadcast axiom fn axiom_rec_roundtrip(d: LogRecordDto)
    ensures #[trigger] rec_dto(rec_msg(d)) == d;
/// a log entry is never encoded as the empty message (index, term or payload is non-zero), and fits 32 bits
pub broadcast axiom fn axiom_rec_nonempty(d: LogRecordDto)
    ensures 1 <= #[trigger] rec_msg(d).pb_bytes().len() < 0x1000_0000;
impl LogRecordDto {
    #[verifier::external_body]
    pub fn to_record_do(&self) -> (r: LogRecord) ensures r == rec_msg(*self) { unimplemented!() }
}
impl From<LogRecord> for LogRecordDto {
    #[verifier::external_body]
    fn from(value: LogRecord) -> (r: Self) ensures r == rec_dto(value) { unimplemented!() }
}
} // verus!
