verus! {
/// binrw header of a log file (src/raft/filestore/model.rs): plain data here; its 32-byte big-endian image is not modelled
pub struct LogIndexHeaderDo {
    pub magic: u32, pub version: u16, pub last_term: u64, pub first_index: u64, pub data_area_index: u16,
    pub index_interval: u16, pub all_index_count: u16, pub status: u8, pub ext1: u8, pub ext2: u8, pub ext3: u8,
}
/// generated protobuf message LogRecord<'a> (src/raft/filestore/log.rs): opaque here
pub struct LogRecord { pub vx: u64 }
impl PbMessage for LogRecord { uninterp spec fn pb_bytes(&self) -> Seq<u8>; }
/// DTO <-> message conversion (field-wise copies in model.rs; assumed round trip)
pub uninterp spec fn rec_msg(d: LogRecordDto) -> LogRecord;
pub uninterp spec fn rec_dto(m: LogRecord) -> LogRecordDto;
pub broadcast axiom fn axiom_rec_roundtrip(d: LogRecordDto)
    ensures #[trigger] rec_dto(rec_msg(d)) == d;
/// a log entry is never encoded as the empty message (index, term or payload is non-zero), and fits 32 bits
pub broadcast axiom fn axiom_rec_nonempty(d: LogRecordDto)
    ensures 1 <= #[trigger] rec_msg(d).pb_bytes().len() < 0x1000_0000;
impl LogRecordDto {
    #[verifier::external_body]
    pub fn to_record_do(&self) -> (r: LogRecord) ensures r == rec_msg(*self) { unimplemented!() }
}
impl From<LogRecord> for LogRecordDto {
    #[verifier::external_body]
    fn from(value: LogRecord) -> (r: Self) ensures r == rec_dto(value) { unimplemented!() }
}

// ------------------------------------------------------------------ binrw header I/O through std::io::Cursor (used by LogInnerManager::init only)
/// 32-byte big-endian image of the header (binrw derive; not modelled byte by byte)
pub uninterp spec fn hdr_bytes(h: LogIndexHeaderDo) -> Seq<u8>;
/// the header a 32-byte image decodes to
pub uninterp spec fn hdr_of(b: Seq<u8>) -> LogIndexHeaderDo;
pub broadcast axiom fn axiom_hdr_roundtrip(h: LogIndexHeaderDo)
    ensures #[trigger] hdr_bytes(h).len() == 32, hdr_of(hdr_bytes(h)) == h;

impl LogIndexHeaderDo {
    /// `impl Default` in model.rs is `Self::new()`: magic, data area at 4096, index interval 128, everything else 0
    #[verifier::external_body]
    pub fn default() -> (r: Self)
        ensures r.magic == 0x42313644, r.version == 0, r.last_term == 0, r.first_index == 0, r.data_area_index == 4096, r.index_interval == 128,
            r.all_index_count == 0, r.status == 0, r.ext1 == 0, r.ext2 == 0, r.ext3 == 0
    { unimplemented!() }
}
pub struct Default {}
impl Default { 
    #[verifier::external_body]
    pub fn default() -> (r: LogIndexHeaderDo)
        ensures r.magic == 0x42313644, r.version == 0, r.last_term == 0, r.first_index == 0, r.data_area_index == 4096, r.index_interval == 128,
            r.all_index_count == 0, r.status == 0, r.ext1 == 0, r.ext2 == 0, r.ext3 == 0
    { unimplemented!() }
}

#[derive(Debug)]
pub struct BinError { pub vx: u8 }

pub struct Cursor<T> { pub inner: T, pub pos: u64 }
impl<T> Cursor<T> {
    pub fn new(inner: T) -> (r: Self) ensures r.inner == inner, r.pos == 0 { Cursor { inner, pos: 0 } }
    pub fn set_position(&mut self, p: u64) ensures final(self).inner == old(self).inner, final(self).pos == p { self.pos = p; }
    pub fn get_mut(&mut self) -> (r: &mut T)
        ensures *r == old(self).inner, *final(r) == final(self).inner, final(self).pos == old(self).pos
    { &mut self.inner }
}
impl Cursor<Vec<u8>> {
    /// binrw `write_be` of the header at the cursor: overwrites 32 bytes
    #[verifier::external_body]
    pub fn write_be(&mut self, h: &LogIndexHeaderDo) -> (r: Result<(), BinError>)
        requires old(self).pos == 0, old(self).inner@.len() >= 32
        ensures r is Ok ==> final(self).inner@.len() == old(self).inner@.len() && final(self).inner@.take(32) == hdr_bytes(*h)
            && final(self).inner@.skip(32) == old(self).inner@.skip(32),
    { unimplemented!() }
}
impl<'a> Cursor<&'a Vec<u8>> {
    /// binrw `read_be` of a header at the cursor
    #[verifier::external_body]
    pub fn read_be(&mut self) -> (r: Result<LogIndexHeaderDo, BinError>)
        requires old(self).pos == 0
        ensures final(self).inner == old(self).inner, r is Ok ==> old(self).inner@.len() >= 32 && r.unwrap() == hdr_of(old(self).inner@.take(32)),
    { unimplemented!() }
}
} // verus!
impl From<BinError> for crate::anyhow::Error {
    fn from(_e: BinError) -> Self { crate::anyhow::Error { vx_opaque: 0 } }
}
verus! {
pub assume_specification[ <crate::anyhow::Error as From<BinError>>::from ](e: BinError) -> (r: crate::anyhow::Error);

// ---- T17 for load_record: what the start-up replay hands to the loader, in order
pub tracked struct VxLog { pub ghost s: Seq<LogRecordDto> }
/// the part of the log behind the first n entries
pub open spec fn got(l: Seq<LogRecordDto>, l0: Seq<LogRecordDto>) -> Seq<LogRecordDto> { l.skip(l0.len() as int) }
/// stands for `dyn LogRecordLoader` (an async trait object: outside Verus); whatever it answers, it was handed the record
pub struct VxLoader { pub vx_opaque: u8 }
impl VxLoader {
    #[verifier::external_body]
    pub async fn load(&self, record: LogRecordDto, Tracked(log): Tracked<&mut VxLog>) -> (r: anyhow::Result<()>)
        ensures final(log).s == old(log).s.push(record)
    { unimplemented!() }
}
} // verus!
