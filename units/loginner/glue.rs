verus! {
/// binrw header of a log file (src/raft/filestore/model.rs): plain data here; its 32-byte big-endian image is not modelled
pub struct LogIndexHeaderDo {
    pub magic: u32, pub version: u16, pub last_term: u64, pub first_index: u64, pub data_area_index: u16,
    pub index_interval: u16, pub all_index_count: u16, pub status: u8, pub ext1: u8, pub ext2: u8, pub ext3: u8,
}
} // verus!
