// Bounded stand-in (always run, labelled bounded, never counted as proved) for the SINGLE-FILE level of C02 / C03 / C01:
// the functions themselves are under contract in unit loginner (write / strip_log_to / init / read_records, reopen theorem);
// this enumeration decides the statements on a stated domain when a rewrite of those functions (a new helper, a reshaped
// body) takes the text out of the proof's reach (exit 2 would otherwise be the only answer).
// The REAL LogInnerManager is driven over histories of {append, truncate (delete-from), re-append, read, reopen} and compared
// after EVERY step and after a reopen with a model list of (index, term, payload).  Payload sizes are taken from the
// boundaries named by the properties: 1-, 2-, 3-byte length prefixes, records around the 1024-byte read chunk, records that
// end exactly on / one byte before / one byte behind the preallocated end of the file, more than 128 records (index steps),
// removed suffixes larger than a page that are re-appended shorter / equal / longer, entries larger than the 1 MiB preallocation step.
use super::*;

type Model = Vec<(u64, u64, Vec<u8>)>;

fn payload(index: u64, len: usize) -> Vec<u8> {
    // never 0 and different for every index: stale bytes of a removed entry are recognisable
    let pat: Vec<u8> = (0..64usize).map(|i| (((index as usize).wrapping_mul(31) + i.wrapping_mul(7)) % 251) as u8 + 1).collect();
    let mut v = Vec::with_capacity(len);
    while v.len() + 64 <= len { v.extend_from_slice(&pat); }
    let rest = len - v.len();
    v.extend_from_slice(&pat[..rest]);
    v
}
fn rec(index: u64, term: u64, len: usize) -> LogRecordDto { LogRecordDto { index, term, value: payload(index, len) } }

/// bytes the record occupies in the file (length prefix + message), by the store's own encoder
fn frame_len(r: &LogRecordDto) -> u64 {
    let mut buf = Vec::new();
    let mut writer = Writer::new(&mut buf);
    writer.write_message(&r.to_record_do()).unwrap();
    buf.len() as u64
}

async fn open(path: &str, start: u64) -> LogInnerManager { LogInnerManager::init(path.to_owned(), start, 0, start).await.unwrap() }

/// `term`: also compare the reported last term (C02 demands it of a REOPENED store; the open handle keeps the term of the last APPEND,
/// so after a truncation it is compared only once something was appended again or the file was reopened)
async fn compare(tag: &str, f: &mut LogInnerManager, start: u64, model: &Model, term: bool, full: bool, bad: &mut Vec<String>) -> bool {
    let want_end = start + model.len() as u64;
    if f.get_end_index() != want_end { bad.push(format!("VX-BOUNDED-FAIL {} end index {} instead of {}", tag, f.get_end_index(), want_end)); return false; }
    if let (true, Some(l)) = (term, model.last()) { if f.get_last_term() != l.1 { bad.push(format!("VX-BOUNDED-FAIL {} last term {} instead of {}", tag, f.get_last_term(), l.1)); return false; } }
    // everything, then windows around the 128-record index steps and both ends, then behind the end
    // (the whole log is read back after every reopen; the handle that made the change is probed at the windows only)
    let mut windows: Vec<(u64, u64)> = vec![(want_end, want_end + 50)];
    if full || model.len() <= 6 { windows.push((start, want_end + 5)); }
    let n = model.len() as u64;
    for p in [0u64, 1, 127, 128, 129, 255, 256, 257, n.saturating_sub(2), n.saturating_sub(1)] { if p < n && model.len() > 6 { windows.push((start + p, (start + p + 3).min(want_end + 2))); } }
    for (a, b) in windows {
        let got = match f.read_records(a, b).await { Ok(v) => v, Err(e) => { bad.push(format!("VX-BOUNDED-FAIL {} read [{}, {}) fails: {}", tag, a, b, e)); return false; } };
        let want: Vec<&(u64, u64, Vec<u8>)> = model.iter().filter(|e| e.0 >= a && e.0 < b).collect();
        let same = got.len() == want.len() && got.iter().zip(want.iter()).all(|(g, w)| g.index == w.0 && g.term == w.1 && g.value == w.2);
        if !same {
            bad.push(format!("VX-BOUNDED-FAIL {} read [{}, {}) returns {} entries {:?} instead of {} {:?}", tag, a, b, got.len(),
                got.iter().take(3).map(|g| (g.index, g.term, g.value.len())).collect::<Vec<_>>(), want.len(), want.iter().take(3).map(|w| (w.0, w.1, w.2.len())).collect::<Vec<_>>()));
            return false;
        }
    }
    true
}

async fn append(f: &mut LogInnerManager, start: u64, model: &mut Model, term: u64, len: usize, tag: &str, bad: &mut Vec<String>) -> bool {
    let index = start + model.len() as u64;
    let r = rec(index, term, len);
    match f.write(&r).await {
        Ok(LogWriteMark::Success) | Ok(LogWriteMark::SuccessToEnd) => { model.push((index, term, r.value)); true }
        Ok(_) => { bad.push(format!("VX-BOUNDED-FAIL {} append at the end index {} (payload {}) refused", tag, index, len)); false }
        Err(e) => { bad.push(format!("VX-BOUNDED-FAIL {} append at {} fails: {}", tag, index, e)); false }
    }
}

/// compare, reopen, compare again (the handle that is returned is the reopened one)
async fn check_and_reopen(tag: &str, f: LogInnerManager, path: &str, start: u64, model: &Model, bad: &mut Vec<String>) -> Option<LogInnerManager> {
    let mut f = f;
    if !compare(&format!("{} [open handle]", tag), &mut f, start, model, true, false, bad).await { return None; }
    f.flush_log().await.unwrap();
    drop(f);
    let mut g = open(path, start).await;
    if !compare(&format!("{} [after reopen]", tag), &mut g, start, model, true, true, bad).await { return None; }
    Some(g)
}

/// one history: a size profile, a cut, a re-append profile
async fn history(name: &str, start: u64, sizes: &[usize], cut_back: u64, again: &[usize], bad: &mut Vec<String>) {
    let temp = tempfile::tempdir().unwrap();
    let path = temp.path().join("log_1").to_string_lossy().into_owned();
    let mut model: Model = vec![];
    let mut f = open(&path, start).await;
    for (i, s) in sizes.iter().enumerate() { if !append(&mut f, start, &mut model, 1 + (i as u64) / 100, *s, name, bad).await { return; } }
    let Some(mut f) = check_and_reopen(&format!("{} APPEND", name), f, &path, start, &model, bad).await else { return; };
    if cut_back == 0 { return; }
    let cut = start + (model.len() as u64).saturating_sub(cut_back);
    if let Err(e) = f.strip_log_to(cut).await { bad.push(format!("VX-BOUNDED-FAIL {} truncation at {} fails: {}", name, cut, e)); return; }
    model.retain(|e| e.0 < cut);
    // truncation alone + reopen on a COPY of the file (the history goes on with the open handle, as in the store)
    if !compare(&format!("{} TRUNCATE {} [open handle]", name, cut), &mut f, start, &model, false, false, bad).await { return; }
    f.flush_log().await.unwrap();
    let copy = temp.path().join("copy_1").to_string_lossy().into_owned();
    std::fs::copy(&path, &copy).unwrap();
    { let mut g = open(&copy, start).await; if !compare(&format!("{} TRUNCATE {} [reopened copy]", name, cut), &mut g, start, &model, true, true, bad).await { return; } }
    for (i, s) in again.iter().enumerate() { if !append(&mut f, start, &mut model, 7 + (i as u64) / 100, *s, name, bad).await { return; } }
    let Some(mut f) = check_and_reopen(&format!("{} TRUNCATE {} + RE-APPEND x{}", name, cut, again.len()), f, &path, start, &model, bad).await else { return; };
    // the reopened log stays appendable
    for s in [3usize, 200] { if !append(&mut f, start, &mut model, 9, s, name, bad).await { return; } }
    check_and_reopen(&format!("{} + APPEND AFTER REOPEN", name), f, &path, start, &model, bad).await;
}

/// records of `big` bytes until the next one would not fit, then ONE record whose frame ends exactly `delta` bytes before (+) /
/// behind (-) the current end of the preallocated file; then reopen; then more appends
async fn boundary_history(name: &str, lead_small: usize, big: usize, delta: i64, bad: &mut Vec<String>) {
    let temp = tempfile::tempdir().unwrap();
    let path = temp.path().join("log_1").to_string_lossy().into_owned();
    let start = 1u64;
    let mut model: Model = vec![];
    let mut f = open(&path, start).await;
    for _ in 0..lead_small { if !append(&mut f, start, &mut model, 1, 10, name, bad).await { return; } }
    loop {
        let probe = rec(start + model.len() as u64, 2, big);
        if f.data_cursor + frame_len(&probe) + 2 * (big as u64) + 64 >= f.file_len { break; }
        if !append(&mut f, start, &mut model, 2, big, name, bad).await { return; }
    }
    // the last record: frame ends at file_len - delta
    let room = (f.file_len as i64 - delta - f.data_cursor as i64) as u64;
    let index = start + model.len() as u64;
    let mut len = room as usize - 12;
    let mut hit = false;
    for _ in 0..40 {
        let fl = frame_len(&rec(index, 3, len));
        if fl == room { hit = true; break; }
        if fl < room { len += (room - fl) as usize; } else { len -= (fl - room) as usize; }
    }
    if !hit { bad.push(format!("VX-BOUNDED-FAIL {} could not build a record of frame length {}", name, room)); return; }
    if !append(&mut f, start, &mut model, 3, len, name, bad).await { return; }
    let Some(mut f) = check_and_reopen(&format!("{} LAST RECORD ENDS {} BYTES BEFORE THE PREALLOCATED END", name, delta), f, &path, start, &model, bad).await else { return; };
    for s in [5usize, 300, 5] { if !append(&mut f, start, &mut model, 4, s, name, bad).await { return; } }
    check_and_reopen(&format!("{} + APPEND AFTER REOPEN", name), f, &path, start, &model, bad).await;
}

#[actix::test]
async fn vx_bounded_log_single_file() {
    let t0 = std::time::Instant::now();
    let mut bad: Vec<String> = vec![];
    let mut n = 0usize;
    // ---- size profiles (payload bytes)
    let small: Vec<usize> = (0..300).map(|i| 1 + (i * 7) % 23).collect();                          // 1-byte prefixes, > 2 index steps
    let mid: Vec<usize> = (0..140).map(|i| [100usize, 117, 118, 119, 120, 127, 128, 129, 200, 250][i % 10]).collect();   // prefix 1 <-> 2 bytes
    let chunk: Vec<usize> = (0..70).map(|i| 1000 + (i * 3) % 40).collect();                         // around the 1024-byte read chunk
    let page: Vec<usize> = (0..60).map(|i| [700usize, 5000, 16370, 16384, 300][i % 5]).collect();   // > 1 page, 2 <-> 3 byte prefixes
    let mixed: Vec<usize> = (0..200).map(|i| [1usize, 9, 130, 1015, 40, 2, 4100, 64][i % 8]).collect();
    let profiles: Vec<(&str, &Vec<usize>)> = vec![("small", &small), ("mid", &mid), ("chunk", &chunk), ("page", &page), ("mixed", &mixed)];
    // ---- re-append profiles: shorter / equal-ish / longer than what was removed, tiny, exactly one page and a bit
    let again_sets: Vec<(&str, Vec<usize>)> = vec![
        ("tiny", vec![1, 2, 3]),
        ("page+", vec![4200]),
        ("pages", vec![2100, 2100, 900]),
        ("many-small", (0..150).map(|i| 5 + i % 9).collect()),
        ("long", vec![30000, 50000]),
    ];
    for (pname, sizes) in profiles.iter() {
        for cut_back in [1u64, 20, 60, 129, 0] {
            if cut_back as usize >= sizes.len() { continue; }
            for (ai, (aname, again)) in again_sets.iter().enumerate() {
                if cut_back == 0 && *aname != "tiny" { continue; }
                // every (profile, cut) pair sees three of the five re-append profiles
                if cut_back != 0 && (ai + cut_back as usize) % 5 >= 3 { continue; }
                let start = if (ai + cut_back as usize) % 2 == 0 { 1u64 } else { 1000 };
                history(&format!("profile={} start={} cut_back={} again={}", pname, start, cut_back, aname), start, sizes, cut_back, again, &mut bad).await;
                n += 1;
            }
        }
    }
    // ---- cuts that pop SEVERAL sparse index entries at once, with block sizes for which the SUM of the popped file-offset deltas
    //      needs a wider varint than each delta alone (128 x ~104 bytes < 16384 <= 2 blocks; 128 x ~20 bytes: 7 blocks)
    let mid_long: Vec<usize> = (0..420).map(|i| 96 + (i * 5) % 9).collect();
    for (cut_back, aname, again) in [(150u64, "tiny", vec![1usize, 2, 3]), (220, "ten-short", (0..10).map(|i| 40 + i).collect::<Vec<usize>>()), (300, "many-small", (0..150).map(|i| 5 + i % 9).collect())] {
        history(&format!("profile=mid-long start=1 cut_back={} again={}", cut_back, aname), 1, &mid_long, cut_back, &again, &mut bad).await;
        n += 1;
    }
    let small_long: Vec<usize> = (0..1300).map(|i| 8 + (i * 7) % 11).collect();
    history("profile=small-long start=1000 cut_back=1100 again=ten-short", 1000, &small_long, 1100, &(0..10).map(|i| 40 + i).collect::<Vec<usize>>(), &mut bad).await;
    n += 1;
    // ---- exactly k x 128 records at a reopen (the last index entry points at the end of the log: the end-of-log scan passes no record)
    for k in [128usize, 256] {
        let exact: Vec<usize> = (0..k).map(|i| 3 + i % 5).collect();
        history(&format!("profile=exact{} start=1 cut_back=0 again=tiny", k), 1, &exact, 0, &[1, 2, 3], &mut bad).await;
        history(&format!("profile=exact{} start=1000 cut_back=1 again=one", k), 1000, &exact, 1, &[9], &mut bad).await;   // truncated to k-1, one re-append: k again
        n += 2;
    }
    // ---- entries larger than the preallocation step (1 MiB): the file grows by the entry, later appends must not cut it
    //      (more than the room that is left + two steps, so that the file is longer than the next TWO growth steps assume)
    let huge: Vec<usize> = vec![64, 3_300_000, 64, 300];
    history("profile=huge start=1 cut_back=0 again=tiny", 1, &huge, 0, &[1, 2, 3], &mut bad).await;
    history("profile=huge start=1 cut_back=1 again=huge", 1, &huge, 1, &[3_200_000, 5, 9], &mut bad).await;
    n += 2;
    // ---- the preallocated end of the file (1 MiB steps): record ends before / exactly at / would end behind it; with and without
    //      leading small records (so that the record count is / is not a multiple of the index interval)
    for (lead, big) in [(0usize, 250000usize), (5, 250000), (128, 250000), (131, 60000)] {
        for delta in [1i64, 0, -1] {
            boundary_history(&format!("boundary lead={} big={}", lead, big), lead, big, delta, &mut bad).await;
            n += 1;
        }
    }
    boundary_history("boundary lead=5 big=250000", 5, 250000, -5000, &mut bad).await;
    n += 1;
    assert!(n >= 78, "only {} histories", n);
    bad.sort(); bad.dedup();
    println!("VX-BOUNDED single-file histories: {} in {:?}", n, t0.elapsed());
    assert!(bad.is_empty(), "{} failing probe(s):\n{}", bad.len(), bad.join("\n"));
}
