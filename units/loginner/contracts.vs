@@ LogInnerManager::get_start_index external
@@ LogInnerManager::get_start_index skip_body
@@ LogInnerManager::move_to_index_by_count attrs
#[verifier::exec_allows_no_decreases_clause]
@@ LogInnerManager::move_to_index_by_count spec
    requires
        last_index.log_index >= start_index,
        last_index.file_index <= old(file).contents().len(),
        old(file).contents().len() < 0x1_0000_0000,
        last_index.log_index - start_index + count < 0x1_0000_0000_0000,
        // the bytes from the index entry on are records written by the store, followed by an end marker
        ok_stream(old(file).contents().skip(last_index.file_index as int)),
        terminated(old(file).contents().skip(last_index.file_index as int)),
    ensures
        final(file).contents() == old(file).contents(),
        // C20/C02/C03: for EVERY chunking of the reads the scan consumes exactly the first `count` records (all of them if
        // fewer; none if count == 0) and stops exactly at the first zero length
        r is Ok ==> ({
            let sc = scan(old(file).contents().skip(last_index.file_index as int), count as nat);
            r.unwrap().0 == last_index.file_index + sc.0 && r.unwrap().1 == last_index.log_index - start_index + sc.1
        }),
@@ LogInnerManager::move_to_index_by_count entry
    let ghost cts = file.contents();
    let ghost f0 = last_index.file_index as int;
    let ghost s0 = cts.skip(f0);
    proof { lemma_scan_bounds(s0, count as nat); assert(cts.skip(f0).skip(0) =~= cts.skip(f0)); }
@@ LogInnerManager::move_to_index_by_count loop 1
    invariant_except_break
        reader.view().len() == 0 || reader.view()[0] != 0,
        first_rec(reader.view()) is None,
    invariant
        file.contents() == cts, cts == old(file).contents(), buffer@.len() == 1024, reader.wf(),
        cts.len() < 0x1_0000_0000, count > 0, c < count, msg_count == last_index.log_index - start_index,
        msg_count + count < 0x1_0000_0000_0000,
        f0 == last_index.file_index, s0 == cts.skip(f0),
        f0 <= data_cursor, data_cursor + reader.view().len() == file.pos(), file.pos() <= cts.len(),
        reader.view() == cts.subrange(data_cursor as int, file.pos() as int),
        scan(s0, count as nat) == (data_cursor - f0 + scan(cts.skip(data_cursor as int), (count - c) as nat).0,
                                   (c + scan(cts.skip(data_cursor as int), (count - c) as nat).1) as nat),
        ok_stream(cts.skip(data_cursor as int)), terminated(cts.skip(data_cursor as int)),
    ensures
        reader.view().len() > 0 && reader.view()[0] == 0,
        file.contents() == cts, c < count,
        scan(s0, count as nat) == (data_cursor - f0 + scan(cts.skip(data_cursor as int), (count - c) as nat).0,
                                   (c + scan(cts.skip(data_cursor as int), (count - c) as nat).1) as nat),
        reader.view() == cts.subrange(data_cursor as int, file.pos() as int), file.pos() <= cts.len(), f0 <= data_cursor,
        msg_count == last_index.log_index - start_index, msg_count + count < 0x1_0000_0000_0000,
@@ LogInnerManager::read_indexs spec
    requires 10 <= index_buf@.len() < 0x1_0000, index_interval < 0x1_0000,
        first_index.log_index < 0x1_0000_0000_0000, first_index.file_index < 0x8000_0000,
        // index area written by the store: every varint in it is below 2^32
        forall|off: int| 0 <= off < index_buf@.len() ==> #[trigger] idx_val_ok(index_buf@, off),
    // C02: reopening rebuilds exactly the index the area encodes: entry j = entry j-1 + (interval, delta_j), up to the first zero delta
    ensures r is Ok ==> ({
            let d = dec_from(index_buf@, 0, read_at(index_buf@, 0), index_buf@.len() - 10);
            r.unwrap().0@ == idx_build(first_index, index_interval as int, d) && r.unwrap().1 == deltas_bytes(d)
        }),
@@ LogInnerManager::read_indexs entry
    let ghost s = index_buf@;
    let ghost le = s.len() - 10;
    let ghost mut consumed: Seq<nat> = Seq::empty();
    let ghost first = first_index;
    proof { assert(s.skip(0) =~= s); assert(idx_val_ok(s, 0)); }
@@ LogInnerManager::read_indexs loop 1
    invariant_except_break
        dec_from(s, 0, read_at(s, 0), le) == consumed.add(dec_from(s, offset as int, next_index as nat, le)),
        offset <= le, next_index == read_at(s, offset as int),
    invariant
        s == index_buf@, le == s.len() - 10, last_end == le, 10 <= s.len() < 0x1_0000, index_interval < 0x1_0000,
        forall|off: int| 0 <= off < s.len() ==> #[trigger] idx_val_ok(s, off),
        next_index < 0x1_0000_0000,
        indexs@ == idx_build(first, index_interval as int, consumed), consumed.len() <= offset, offset == deltas_bytes(consumed), offset <= s.len(),
        indexs@.len() == consumed.len() + 1,
        last_log_index == indexs@.last().log_index, last_file_index == indexs@.last().file_index,
        last_log_index <= first.log_index + consumed.len() * 0x1_0000, last_file_index <= first.file_index + consumed.len() * 0x1_0000_0000,
        first.log_index < 0x1_0000_0000_0000, first.file_index < 0x8000_0000,
    ensures
        dec_from(s, 0, read_at(s, 0), le) == consumed,
    decreases s.len() - offset
@@ LogInnerManager::read_indexs loop 1 body_entry
    let ghost c0 = consumed;
    let ghost off0 = offset as int;
    proof {
        lemma_enc_len_table(next_index as nat);
        consumed = consumed.push(next_index as nat);
        assert(consumed.drop_last() =~= c0);
        lemma_idx_build_len(first, index_interval as int, c0);
    }
@@ LogInnerManager::read_indexs loop 1 body_exit
    proof {
        assert(idx_val_ok(s, offset as int));
        assert(c0.add(seq![c0.len() as nat * 0 + consumed.last()]) =~= consumed);
        assert(c0.add(seq![consumed.last()].add(dec_from(s, offset as int, next_index as nat, le))) =~= consumed.add(dec_from(s, offset as int, next_index as nat, le)));
    }
@@ LogInnerManager::move_to_index_by_count loop 1 body_entry
    let ghost v_in = reader.view();
    let ghost p_in = file.pos() as int;
    let ghost dc_in = data_cursor as int;
@@ LogInnerManager::move_to_index_by_count before_return@loop1 1
    proof {
        // end of file reached with nothing buffered that could be an end marker: impossible for a terminated stream
        let r = cts.skip(data_cursor as int);
        assert(reader.view() =~= r);
        assert(first_rec(r) is None);
        assert(residue(r) == r);
    }
@@ LogInnerManager::move_to_index_by_count before_loop 2
    proof {
        assert(reader.view() =~= cts.subrange(data_cursor as int, file.pos() as int)) by {
            assert(buffer@.subrange(0, read_len as int) =~= buffer@.take(read_len as int));
        }
        let r = cts.skip(data_cursor as int);
        assert(r.take(reader.view().len() as int) =~= reader.view());
        lemma_view_pre(r, reader.view().len() as int);
    }
@@ LogInnerManager::move_to_index_by_count loop 2
    invariant
        file.contents() == cts, cts == old(file).contents(), reader.wf(), cts.len() < 0x1_0000_0000, count > 0, c < count,
        msg_count == last_index.log_index - start_index, msg_count + count < 0x1_0000_0000_0000,
        f0 == last_index.file_index, s0 == cts.skip(f0),
        f0 <= data_cursor, data_cursor + reader.view().len() == file.pos(), file.pos() <= cts.len(),
        reader.view() == cts.subrange(data_cursor as int, file.pos() as int),
        scan(s0, count as nat) == (data_cursor - f0 + scan(cts.skip(data_cursor as int), (count - c) as nat).0,
                                   (c + scan(cts.skip(data_cursor as int), (count - c) as nat).1) as nat),
        ok_stream(cts.skip(data_cursor as int)), terminated(cts.skip(data_cursor as int)),
        vlen(reader.view()) is Some ==> (vlen(reader.view()).unwrap() <= 10 && vval(reader.view()) < 0x1_0000_0000),
    ensures
        reader.view().len() > 0 && reader.view()[0] != 0 ==> first_rec(reader.view()) is None,
@@ LogInnerManager::move_to_index_by_count loop 2 body_entry
    proof {
        // `v` is the first record of the buffered window, hence of the stream at the cursor
        let r = cts.skip(data_cursor as int);
        let n = (file.pos() - data_cursor) as int;
        assert(r.take(n) =~= cts.subrange(data_cursor as int, file.pos() as int));
        lemma_consume(r, n, v@.len() as int, (count - c) as nat);
        assert(r.skip(v@.len() as int) =~= cts.skip(data_cursor + v@.len()));
    }
@@ LogInnerManager::move_to_index_by_count loop 2 body_exit
    proof {
        let r = cts.skip(data_cursor as int);
        assert(reader.view() =~= cts.subrange(data_cursor as int, file.pos() as int));
        assert(r.take(reader.view().len() as int) =~= reader.view());
        lemma_view_pre(r, reader.view().len() as int);
    }
@@ LogInnerManager::move_to_index_by_count before_return@loop2 1
    proof {
        assert(scan(cts.skip(data_cursor as int), 0) == (0int, 0nat));
    }
@@ LogInnerManager::move_to_index_by_count before_tail
    proof {
        let r = cts.skip(data_cursor as int);
        assert(r[0] == reader.view()[0]);
        assert(first_rec(r) is None);
    }
@@ LogInnerManager::get_file_index_by_log_index foriter 1 it
@@ LogInnerManager::get_file_index_by_log_index spec
    requires idx_wf(self.indexs@, self.header.index_interval as int), self.indexs@.len() < 0x1000,
    ensures r is Ok ==> ({
            let ix = self.indexs@;
            let (item, bytes, pops) = r.unwrap();
            exists|p: int| 0 <= p < ix.len() && item == #[trigger] ix[p]
                // C03: the greatest index entry at or below the cut
                && ix[p].log_index <= log_index && (p + 1 < ix.len() ==> ix[p + 1].log_index > log_index)
                // the entries behind it are popped ...
                && pops == ix.len() - 1 - p
                // ... and the index cursor is rewound by exactly the bytes those entries occupy in the index area
                && bytes == idx_bytes_after(ix, p)
        }),
        // a cut at or above the first entry always finds one
        log_index >= self.indexs@[0].log_index ==> r is Ok,
@@ LogInnerManager::get_file_index_by_log_index entry
    let ghost ix = self.indexs@;
    let ghost n = ix.len() as int;
@@ LogInnerManager::get_file_index_by_log_index loop 1
    invariant
        ix == self.indexs@, n == ix.len(), 1 <= n < 0x1000, idx_wf(ix, self.header.index_interval as int),
        it.seq().len() == n,
        forall|i: int| 0 <= i < n ==> *it.seq()[i] == ix[n - 1 - i],
        // entries visited so far are above the cut
        forall|j: int| n - it.index@ <= j < n ==> #[trigger] ix[j].log_index > log_index,
        // last_index is the entry visited last (the last entry before the first iteration)
        *last_index == ix[if it.index@ == 0 { n - 1 } else { n - it.index@ }],
        pop_index_count == (if it.index@ == 0 { 0int } else { it.index@ - 1 }),
        file_index_len == idx_bytes_after(ix, if it.index@ == 0 { n - 1 } else { n - it.index@ }),
@@ LogInnerManager::get_file_index_by_log_index loop 1 body_entry
    proof {
        let p = n - 1 - it.index@;
        if p + 1 < n {
            assert(idx_adj(ix, self.header.index_interval as int, p + 1));
            lemma_idx_bytes_step(ix, p);
            lemma_enc_len_table((ix[p + 1].file_index - ix[p].file_index) as nat);
        }
        lemma_idx_bytes_bound(ix, p);
        if p + 1 < n { lemma_idx_bytes_bound(ix, p + 1); }
    }
@@ LogInnerManager::get_file_index_by_log_index before_tail
    proof {
        // the loop visited every entry: all of them are above the cut
        assert(ix[0].log_index > log_index);
    }
@@ LogInnerManager::move_to_end spec
    requires
        last_index.log_index >= start_index,
        last_index.file_index <= old(file).contents().len(),
        old(file).contents().len() < 0x1_0000_0000,
        last_index.log_index - start_index < 0x1_0000_0000_0000 - 0xffff,
        ok_stream(old(file).contents().skip(last_index.file_index as int)),
        terminated(old(file).contents().skip(last_index.file_index as int)),
    ensures
        final(file).contents() == old(file).contents(),
        // C02: reopening finds the end of the log exactly at the first zero length after the last index entry
        r is Ok ==> ({
            let sc = scan(old(file).contents().skip(last_index.file_index as int), 0xffff);
            r.unwrap().0 == last_index.file_index + sc.0 && r.unwrap().1 == last_index.log_index - start_index + sc.1
        }),
@@ LogInnerManager::get_end_index spec
    requires self.start_index + self.msg_count <= u64::MAX
    ensures r == self.start_index + self.msg_count
@@ LogInnerManager::get_last_term spec
    ensures r == self.last_term
@@ LogInnerManager::get_last_index_info spec
    requires self.start_index + self.msg_count <= u64::MAX
    // C02: the last log index is the index of the last acknowledged entry (0 for an empty log starting at 0), with its term
    ensures r.term == self.last_term,
        r.index == (if self.start_index + self.msg_count == 0 { 0int } else { self.start_index + self.msg_count - 1 }),
@@ LogInnerManager::get_start_index spec
    requires idx_wf(self.indexs@, self.header.index_interval as int)
    // greatest index entry at or below `start` (the first entry if none) — assumed (closure-based binary_search_by_key is outside Verus)
    ensures exists|p: int| 0 <= p < self.indexs@.len() && *r == #[trigger] self.indexs@[p]
        && (self.indexs@[p].log_index <= start || p == 0) && (p + 1 < self.indexs@.len() ==> self.indexs@[p + 1].log_index > start),
@@ LogInnerManager::flush_log spec
    requires old(self).start_index + old(self).msg_count <= u64::MAX
    ensures final(self).data_file.contents() == old(self).data_file.contents(), final(self).index_file.contents() == old(self).index_file.contents(),
        final(self).data_file.pos() == old(self).data_file.pos(),
        final(self).header == old(self).header, final(self).indexs == old(self).indexs, final(self).start_index == old(self).start_index,
        final(self).index_cursor == old(self).index_cursor, final(self).file_len == old(self).file_len, final(self).data_cursor == old(self).data_cursor,
        final(self).msg_count == old(self).msg_count, final(self).last_term == old(self).last_term,
        final(self).current_index_count == old(self).current_index_count, final(self).need_seek_at_write == old(self).need_seek_at_write,
        final(self).split_off_index == old(self).split_off_index,
@@ LogInnerManager::write spec
    requires old(self).wf()
    ensures r is Ok ==> (match r.unwrap() {
            // C02: an acknowledged append stores exactly this entry behind the entries already there and nothing else changes
            LogWriteMark::Success | LogWriteMark::SuccessToEnd =>
                final(self).wf() && final(self).start_index == old(self).start_index && final(self).msg_count == old(self).msg_count + 1
                && record.index == old(self).start_index + old(self).msg_count && final(self).last_term == record.term
                && final(self).data_file.contents().subrange(old(self).data_cursor as int, final(self).data_cursor as int) == pb_frame(rec_msg(*record))
                && final(self).data_file.contents().take(old(self).data_cursor as int) == old(self).data_file.contents().take(old(self).data_cursor as int),
            // C03: an append at any index other than the end index is refused and changes nothing
            LogWriteMark::IndexEqualError => *final(self) == *old(self) && record.index != old(self).start_index + old(self).msg_count,
            // a full file refuses the append and keeps every byte
            LogWriteMark::Failure => final(self).wf() && final(self).data_file.contents() == old(self).data_file.contents()
                && final(self).index_file.contents() == old(self).index_file.contents() && final(self).msg_count == old(self).msg_count
                && final(self).start_index == old(self).start_index,
            LogWriteMark::Error => true,
        }),
@@ LogInnerManager::write entry
    broadcast use group_std_extra;
    broadcast use axiom_rec_nonempty;
    let ghost o = *self;
    let ghost d0 = self.data_file.contents();
    let ghost s0 = self.recs();
    let ghost k0 = self.msg_count as nat;
    let ghost b0 = self.used();
@@ LogInnerManager::write before_stmt 7
    let ghost body = rec_msg(*record).pb_bytes();
    let ghost frame = enc(body.len() as nat).add(body);
    let ghost c0 = o.data_cursor as int;
    proof {
        lemma_enc_len_table(body.len() as nat);
        assert(buf@ =~= frame);
    }
@@ LogInnerManager::write before_stmt 8
    let ghost d_mid = self.data_file.contents();
    proof {
        assert(d_mid.take(c0) =~= d0.take(c0));
        assert forall|i: int| c0 <= i < d_mid.len() implies #[trigger] d_mid[i] == 0u8 by {
            if i < d0.len() { assert(d0[i] == 0u8); }
        }
        assert(zero_from(d_mid, c0));
    }
@@ LogInnerManager::write before_stmt 10
    let ghost d1 = self.data_file.contents();
    proof {
        assert(d1.take(c0) =~= d0.take(c0)) by {
            assert forall|i: int| 0 <= i < c0 implies d1[i] == d0[i] by { assert(d_mid.take(c0)[i] == d0.take(c0)[i]); }
        }
        assert forall|i: int| c0 + frame.len() <= i < d1.len() implies #[trigger] d1[i] == 0u8 by {
            assert(d_mid[i] == 0u8);
        }
        assert(zero_from(d1, c0 + frame.len()));
        assert(d1.subrange(c0, c0 + frame.len()) =~= frame);
    }
@@ LogInnerManager::write before_stmt 14
    proof {
        lemma_scan_mono(o.recs(), (o.indexs@.last().log_index - o.start_index) as nat, o.msg_count as nat);
        lemma_enc_len(body.len() as nat);
        lemma_enc_len_table((self.data_cursor - o.indexs@.last().file_index) as nat);
        lemma_idx_area_len(o.indexs@);
    }
@@ LogInnerManager::write crashpoints write_all set_len
@@ LogInnerManager::write crash_pre
    let ghost vx_pd = self.data_file.contents(); let ghost vx_pi = self.index_file.contents();   // @C04
@@ LogInnerManager::write crash_inv
    // C04: the disk image at crash point $N is the log as it was, or the log with exactly this record appended.  The script is the
    // same at every point: it speaks of the state at entry (`o`), of the contents of the two handles just before this mutation
    // (vx_pd, vx_pi) and of their contents now, so it fits wherever the writes stand in the text.
    proof {   // @C04
        let vx_body = rec_msg(*record).pb_bytes();   // @C04
        let vx_frame = enc(vx_body.len() as nat).add(vx_body);   // @C04
        let vx_d0 = o.data_file.contents(); let vx_d1 = self.data_file.contents();   // @C04
        let vx_i0 = o.index_file.contents(); let vx_i1 = self.index_file.contents();   // @C04
        let vx_c0 = o.data_cursor as int;   // @C04
        let vx_delta = (vx_c0 + vx_frame.len() - o.indexs@.last().file_index) as nat;   // @C04
        lemma_enc_len_table(vx_body.len() as nat);   // @C04
        // what the files looked like before this mutation (holds by the previous crash point, or trivially at the first one)
        assert(grown_by_zeros(vx_d0, vx_pd) || appended_at(vx_d0, vx_pd, vx_c0, vx_frame));   // @C04
        if vx_d1 != vx_pd && !grown_by_zeros(vx_d0, vx_d1) {   // @C04
            assert forall|i: int| 0 <= i < vx_c0 implies #[trigger] vx_d1[i] == vx_d0[i] by { assert(vx_pd[i] == vx_d0[i]); }   // @C04
            assert forall|i: int| 0 <= i < vx_frame.len() implies #[trigger] vx_d1[vx_c0 + i] == vx_frame[i] by {   // @C04
                assert(vx_d1.subrange(vx_c0, vx_c0 + vx_frame.len())[i] == vx_d1[vx_c0 + i]);   // @C04
            }   // @C04
            assert forall|i: int| vx_c0 + vx_frame.len() <= i < vx_d1.len() implies #[trigger] vx_d1[i] == 0u8 by {   // @C04
                if i < vx_pd.len() { assert(vx_pd[i] == 0u8) by { if i < vx_d0.len() { assert(vx_d0[i] == 0u8); } } }   // @C04
            }   // @C04
            assert(appended_at(vx_d0, vx_d1, vx_c0, vx_frame));   // @C04
        }   // @C04
        if vx_i1 != vx_pi {   // @C04
            let vx_e = enc(vx_delta);   // @C04
            assert forall|i: int| 0 <= i < vx_e.len() implies #[trigger] vx_i1[o.index_cursor + i] == vx_e[i] by {   // @C04
                assert(vx_i1.subrange(o.index_cursor as int, o.index_cursor + vx_e.len())[i] == vx_i1[o.index_cursor + i]);   // @C04
            }   // @C04
        }   // @C04
        lemma_crash_append_step(o, *self, vx_body);   // @C04
    }   // @C04
    assert(crash_ok_append(o, self.disk_image(), rec_msg(*record).pb_bytes()));   // @C04
@@ LogInnerManager::write before_return 3
    proof {
        assert(write_data_step(o, *self, body));   // @C02
        lemma_write_wf(o, *self, body);   // @C02
    }
@@ LogInnerManager::write before_tail
    proof {
        assert(write_data_step(o, *self, body));   // @C02
        lemma_write_wf(o, *self, body);   // @C02
    }
@@ LogInnerManager::strip_log_to foriter 1 it
@@ LogInnerManager::strip_log_to spec
    requires old(self).wf()
    ensures r is Ok ==> (
        if end_index >= old(self).start_index + old(self).msg_count {
            // nothing at or above the cut: nothing changes
            *final(self) == *old(self)
        } else {
            // C03: exactly the suffix is removed: the entries below the cut stay byte for byte, the end index becomes the cut
            // (so the next append at the cut is accepted), and the invariant holds — in particular every byte behind the new
            // cursor and every popped index byte is zero, so nothing of the removed suffix can be read back, also after a reopen
            final(self).wf() && final(self).start_index == old(self).start_index
            && final(self).msg_count == end_index - old(self).start_index
            && final(self).data_file.contents().take(final(self).data_cursor as int) == old(self).data_file.contents().take(final(self).data_cursor as int)
        }),
@@ LogInnerManager::strip_log_to entry
    let ghost o = *self;
    let ghost ix = self.indexs@;
    let ghost s0 = self.recs();
    let ghost k0 = self.msg_count as nat;
@@ LogInnerManager::strip_log_to before_stmt 4
    let ghost p = choose|p: int| 0 <= p < ix.len() && index_dto == #[trigger] ix[p]
        && ix[p].log_index <= end_index && (p + 1 < ix.len() ==> ix[p + 1].log_index > end_index)
        && pop_index_count == ix.len() - 1 - p && file_index_len == idx_bytes_after(ix, p);
    proof {
        lemma_idx_area_split(ix, p);
        lemma_idx_bytes_bound(ix, p);
    }
@@ LogInnerManager::strip_log_to loop 1
    invariant
        self.indexs@ == ix.take(ix.len() - it.index@), it.index@ <= pop_index_count, pop_index_count == ix.len() - 1 - p, 0 <= p < ix.len(),
        self.data_file == o.data_file, self.index_file == o.index_file, self.header == o.header, self.start_index == o.start_index,
        self.index_cursor == o.index_cursor, self.file_len == o.file_len, self.data_cursor == o.data_cursor, self.msg_count == o.msg_count,
        self.last_term == o.last_term, self.current_index_count == o.current_index_count, self.need_seek_at_write == o.need_seek_at_write,
        self.last_flush_index == o.last_flush_index, self.split_off_index == o.split_off_index,
@@ LogInnerManager::strip_log_to loop 1 body_exit
    proof { assert(self.indexs@ =~= ix.take(ix.len() - it.index@ - 1)); }
@@ LogInnerManager::strip_log_to crashpoints write_all set_len
@@ LogInnerManager::strip_log_to crash_inv
    // C04: the disk image at crash point $N is a prefix of the log as it was, at least as long as the cut asks for, the records
    // below the cut byte for byte (for removals within the 0xffff records the reopen scan walks behind the last index entry)
    proof {   // @C04
        let vx_k = (end_index - o.start_index) as nat;   // @C04
        let vx_a0 = o.index_file.contents(); let vx_a1 = self.index_file.contents();   // @C04
        let vx_d0 = o.data_file.contents(); let vx_d1 = self.data_file.contents();   // @C04
        let vx_nc = o.index_cursor - idx_bytes_after(ix, p);   // @C04
        let vx_dc = 4096 + scan(o.recs(), vx_k).0;   // @C04
        lemma_idx_bytes_bound(ix, p);   // @C04
        assert forall|i: int| 0 <= i < vx_a0.len() implies #[trigger] vx_a1[i] == (if vx_nc <= i < o.index_cursor { 0u8 } else { vx_a0[i] }) by {   // @C04
            if vx_nc <= i < o.index_cursor { assert(vx_a1.subrange(vx_nc as int, o.index_cursor as int)[i - vx_nc] == vx_a1[i]); }   // @C04
        }   // @C04
        if vx_d1 != vx_d0 {   // @C04
            assert forall|i: int| 0 <= i < vx_d0.len() implies #[trigger] vx_d1[i] == (if i >= vx_dc { 0u8 } else { vx_d0[i] }) by {   // @C04
                if vx_dc <= i < o.data_cursor { assert(vx_d1.subrange(vx_dc as int, o.data_cursor as int)[i - vx_dc] == vx_d1[i]); }   // @C04
                else if i >= o.data_cursor { assert(vx_d0[i] == 0u8); }   // @C04
            }   // @C04
        }   // @C04
        if o.msg_count - (ix[p].log_index - o.start_index) <= 0xffff { lemma_crash_strip_step(o, *self, p, vx_k); }   // @C04
    }   // @C04
    assert(o.msg_count - (ix[p].log_index - o.start_index) <= 0xffff ==> crash_ok_strip(o, self.disk_image(), (end_index - o.start_index) as nat));   // @C04
@@ LogInnerManager::strip_log_to before_stmt 7
    let ghost jj = (ix[p].log_index - o.start_index) as nat;
    let ghost cnt = (end_index - ix[p].log_index) as nat;
    let ghost fi = ix[p].file_index as int;
    let ghost suffix = o.data_file.contents().skip(fi);
    proof {
        assert(ix.take(p + 1) =~= self.indexs@ || pop_index_count == 0);
        if p + 1 < ix.len() { assert(idx_adj(ix, o.header.index_interval as int, p + 1)); }
        assert(cnt < o.header.index_interval);
        lemma_scan_mono(s0, jj, k0);
        lemma_scan_bounds(s0, jj);
        assert(suffix =~= s0.skip(scan(s0, jj).0));
        assert(jj + (k0 - jj) as nat == k0);
        lemma_ok_prefixes_suffix(s0, jj, (k0 - jj) as nat);
        lemma_scan_split(s0, jj, (k0 - jj) as nat);
        assert forall|i: int| scan(suffix, (k0 - jj) as nat).0 <= i < suffix.len() implies suffix[i] == 0u8 by {
            assert(o.data_file.contents()[i + fi] == 0u8);
        }
        lemma_records_then_zeros(suffix, (k0 - jj) as nat);
        // what the scan of `cnt` records from the index entry will return
        lemma_scan_mono(s0, (jj + cnt) as nat, k0);
        lemma_scan_split(s0, jj, cnt);
    }
@@ LogInnerManager::strip_log_to before_tail
    // (the shapes of the two files after both zeroing writes, whatever their order)
    proof {
        let a0 = o.index_file.contents();
        let a1 = self.index_file.contents();
        assert forall|i: int| 0 <= i < a0.len() implies #[trigger] a1[i] == (if self.index_cursor <= i < o.index_cursor { 0u8 } else { a0[i] }) by {
            if pop_index_count > 0 && self.index_cursor <= i < o.index_cursor {
                assert(a1.subrange(self.index_cursor as int, o.index_cursor as int)[i - self.index_cursor] == a1[i]);
            }
        }
    }
    proof {
        let d0 = o.data_file.contents();
        let d1 = self.data_file.contents();
        assert forall|i: int| 0 <= i < d0.len() implies #[trigger] d1[i] == (if i >= self.data_cursor { 0u8 } else { d0[i] }) by {
            if self.data_cursor <= i < o.data_cursor {
                assert(d1.subrange(self.data_cursor as int, o.data_cursor as int)[i - self.data_cursor] == d1[i]);
            } else if i >= o.data_cursor {
                assert(d0[i] == 0u8);
            }
        }
    }
    proof {
        let k = (end_index - o.start_index) as nat;
        assert(self.indexs@ =~= ix.take(p + 1));
        assert(strip_step(o, *self, p, k));
        lemma_strip_wf(o, *self, p, k);
    }
@@ LogInnerManager::read_records attrs
#[verifier::exec_allows_no_decreases_clause]
@@ LogInnerManager::read_records spec
    requires old(self).wf(), full_read_model(), old(self).split_off_index >= old(self).start_index,
        old(self).start_index + old(self).msg_count <= u64::MAX,
    ensures
        // C02: reading never disturbs the log — on EVERY exit (also a failed read) the state is well formed, so the next append lands at the end
        final(self).wf(),
        final(self).data_file.contents() == old(self).data_file.contents(), final(self).index_file == old(self).index_file,
        final(self).header == old(self).header, final(self).indexs == old(self).indexs, final(self).start_index == old(self).start_index,
        final(self).index_cursor == old(self).index_cursor, final(self).file_len == old(self).file_len, final(self).data_cursor == old(self).data_cursor,
        final(self).msg_count == old(self).msg_count, final(self).last_term == old(self).last_term,
        final(self).current_index_count == old(self).current_index_count, final(self).split_off_index == old(self).split_off_index,
        // C02: the entries [max(start, split_off), min(end, end index)) come back exactly as their framed images in the file decode, in order
        r is Ok ==> ({
            let a = if start >= old(self).split_off_index { start } else { old(self).split_off_index };
            let b = if end <= old(self).start_index + old(self).msg_count { end } else { (old(self).start_index + old(self).msg_count) as u64 };
            let from = old(self).recs().skip(scan(old(self).recs(), (a - old(self).start_index) as nat).0);
            if a >= b { r.unwrap()@.len() == 0 } else {
                r.unwrap()@.len() == b - a
                && forall|i: int| 0 <= i < b - a ==> #[trigger] r.unwrap()@[i] == rec_dto(frame_msg(frame_at(from, i as nat)))
            }
        }),
@@ LogInnerManager::read_records entry
    broadcast use group_std_extra;
    let ghost o = *self;
    let ghost cts = self.data_file.contents();
    let ghost s0 = self.recs();
    let ghost k0 = self.msg_count as nat;
    let ghost ix = self.indexs@;
@@ LogInnerManager::read_records before_call get_start_index 1
        let ghost a = start;
        let ghost b = end;
        let ghost aj = (a - o.start_index) as nat;
        let ghost cnt = (b - a) as nat;
        proof { assert(o.start_index <= a && a < b && b <= o.start_index + k0); }
@@ LogInnerManager::read_records after_call get_start_index 1
        let ghost p = choose|p: int| 0 <= p < ix.len() && *index == #[trigger] ix[p] && (ix[p].log_index <= a || p == 0) && (p + 1 < ix.len() ==> ix[p + 1].log_index > a);
        let ghost jj = (ix[p].log_index - o.start_index) as nat;
        let ghost fi = ix[p].file_index as int;
        let ghost nn = (a - ix[p].log_index) as nat;
        let ghost rest = cts.skip(fi);
        let ghost from = s0.skip(scan(s0, aj).0);
        proof {
            assert(ix[p].log_index <= a);
            lemma_read_setup(o, a, b, p);
        }
@@ LogInnerManager::read_records before_loop 1
        let ghost p0 = msg_position.position as int;
        let ghost mut cur: int = p0;
        proof {
            assert(p0 == 4096 + scan(s0, aj).0);
            assert(cts.skip(p0) =~= from);
            assert(message_reader.view() =~= cts.subrange(p0, p0));
            lemma_view_pre(from, 0);
            assert(from.take(0) =~= message_reader.view());
        }
@@ LogInnerManager::read_records loop 1
    invariant
        self.data_file.contents() == cts, self.index_file == o.index_file, self.header == o.header, self.indexs == o.indexs,
        self.start_index == o.start_index, self.index_cursor == o.index_cursor, self.file_len == o.file_len, self.data_cursor == o.data_cursor,
        self.msg_count == o.msg_count, self.last_term == o.last_term, self.current_index_count == o.current_index_count,
        self.split_off_index == o.split_off_index, self.need_seek_at_write, self.last_flush_index == o.last_flush_index,
        o == *old(self), o.wf(), cts == o.data_file.contents(), cts.len() < 0x1_0000_0000, from == cts.skip(p0), 4096 <= p0 <= cts.len(),
        message_reader.wf(), scan(from, cnt).1 == cnt, cnt == b - a,
        rlist@.len() + c == cnt, rlist@.len() <= cnt,
        p0 <= cur, cur + message_reader.view().len() == self.data_file.pos(), self.data_file.pos() <= cts.len(),
        message_reader.view() == cts.subrange(cur, self.data_file.pos() as int),
        cur - p0 == scan(from, rlist@.len() as nat).0,
        ok_stream(cts.skip(cur)), terminated(cts.skip(cur)),
        vlen(message_reader.view()) is Some ==> (vlen(message_reader.view()).unwrap() <= 10 && vval(message_reader.view()) < 0x1_0000_0000),
        forall|i: int| 0 <= i < rlist@.len() ==> #[trigger] rlist@[i] == rec_dto(frame_msg(frame_at(from, i as nat))),
    ensures
        c == 0, rlist@.len() == cnt, self.data_file.contents() == cts,
        forall|i: int| 0 <= i < rlist@.len() ==> #[trigger] rlist@[i] == rec_dto(frame_msg(frame_at(from, i as nat))),
        self.index_file == o.index_file, self.header == o.header, self.indexs == o.indexs,
        self.start_index == o.start_index, self.index_cursor == o.index_cursor, self.file_len == o.file_len, self.data_cursor == o.data_cursor,
        self.msg_count == o.msg_count, self.last_term == o.last_term, self.current_index_count == o.current_index_count,
        self.split_off_index == o.split_off_index, self.need_seek_at_write,
@@ LogInnerManager::read_records loop 2
    invariant_except_break
        c > 0,
    invariant
        self.data_file.contents() == cts, self.index_file == o.index_file, self.header == o.header, self.indexs == o.indexs,
        self.start_index == o.start_index, self.index_cursor == o.index_cursor, self.file_len == o.file_len, self.data_cursor == o.data_cursor,
        self.msg_count == o.msg_count, self.last_term == o.last_term, self.current_index_count == o.current_index_count,
        self.split_off_index == o.split_off_index, self.need_seek_at_write, self.last_flush_index == o.last_flush_index,
        o == *old(self), o.wf(), cts == o.data_file.contents(), cts.len() < 0x1_0000_0000, from == cts.skip(p0), 4096 <= p0 <= cts.len(),
        message_reader.wf(), scan(from, cnt).1 == cnt, cnt == b - a,
        rlist@.len() + c == cnt, rlist@.len() <= cnt,
        p0 <= cur, cur + message_reader.view().len() == self.data_file.pos(), self.data_file.pos() <= cts.len(),
        message_reader.view() == cts.subrange(cur, self.data_file.pos() as int),
        cur - p0 == scan(from, rlist@.len() as nat).0,
        ok_stream(cts.skip(cur)), terminated(cts.skip(cur)),
        vlen(message_reader.view()) is Some ==> (vlen(message_reader.view()).unwrap() <= 10 && vval(message_reader.view()) < 0x1_0000_0000),
        forall|i: int| 0 <= i < rlist@.len() ==> #[trigger] rlist@[i] == rec_dto(frame_msg(frame_at(from, i as nat))),
    ensures
        c == 0 || (message_reader.view().len() > 0 && message_reader.view()[0] != 0 ==> first_rec(message_reader.view()) is None),
@@ LogInnerManager::read_records loop 2 body_entry
    let ghost j = rlist@.len() as nat;
    let ghost r = cts.skip(cur);
    let ghost n = (self.data_file.pos() - cur) as int;
    proof {
        assert(r.take(n) =~= cts.subrange(cur, self.data_file.pos() as int));
        lemma_consume(r, n, v@.len() as int, 1);
        assert(r.skip(v@.len() as int) =~= cts.skip(cur + v@.len()));
        // v is record number j counted from record a
        lemma_scan_mono(from, (j + 1) as nat, cnt);
        lemma_frame_at(from, j);
        assert(from.skip(scan(from, j).0) =~= r);
        assert(v@ =~= frame_at(from, j)) by { assert(r.take(v@.len() as int) =~= r.take(n).take(v@.len() as int)); }
        lemma_first_rec_bounds(r);
        lemma_first_rec_take(r, v@.len() as int);
        assert(r.take(v@.len() as int) =~= v@);
    }
@@ LogInnerManager::read_records after_call read_message 1
                proof {
                    lemma_read_message_is_frame(item, v@);
                }
@@ LogInnerManager::read_records after_call push 1
                proof {
                    cur = cur + v@.len();
                    let r2 = cts.skip(cur);
                    assert(message_reader.view() =~= cts.subrange(cur, self.data_file.pos() as int));
                    assert(r2.take(message_reader.view().len() as int) =~= message_reader.view());
                    lemma_view_pre(r2, message_reader.view().len() as int);
                }
@@ LogInnerManager::read_records after_call read 1
            proof {
                if read_len == 0 && c > 0 {
                    // end of file with records still owed: impossible, the stream holds them and is terminated
                    let r = cts.skip(cur);
                    assert(message_reader.view() =~= r);
                    let j = rlist@.len() as nat;
                    lemma_scan_mono(from, (j + 1) as nat, cnt);
                    lemma_frame_at(from, j);
                    assert(from.skip(scan(from, j).0) =~= r);
                    lemma_first_rec_bounds(r);
                    assert(false);
                }
            }
@@ LogInnerManager::read_records after_call append_next_buf 1
            proof {
                assert(message_reader.view() =~= cts.subrange(cur, self.data_file.pos() as int)) by {
                    assert(buf@.subrange(0, read_len as int) =~= buf@.take(read_len as int));
                }
                let r = cts.skip(cur);
                assert(r.take(message_reader.view().len() as int) =~= message_reader.view());
                lemma_view_pre(r, message_reader.view().len() as int);
            }
@@ LogInnerManager::load_record attrs
#[verifier::exec_allows_no_decreases_clause]
@@ LogInnerManager::load_record spec
    requires old(self).wf(), full_read_model(), old(self).split_off_index >= old(self).start_index,
        old(self).start_index + old(self).msg_count <= u64::MAX,
    ensures
        // C02: reading never disturbs the log — on EVERY exit (also a failed read) the state is well formed, so the next append lands at the end
        final(self).wf(),
        final(self).data_file.contents() == old(self).data_file.contents(), final(self).index_file == old(self).index_file,
        final(self).header == old(self).header, final(self).indexs == old(self).indexs, final(self).start_index == old(self).start_index,
        final(self).index_cursor == old(self).index_cursor, final(self).file_len == old(self).file_len, final(self).data_cursor == old(self).data_cursor,
        final(self).msg_count == old(self).msg_count, final(self).last_term == old(self).last_term,
        final(self).current_index_count == old(self).current_index_count, final(self).split_off_index == old(self).split_off_index,
        // C02: the entries [max(start, split_off), min(end, end index)) come back exactly as their framed images in the file decode, in order
        // everything handed to the loader before stays; C02/C01: the entries [max(start, split_off), min(end, end index)) are handed to the loader
        // exactly as their framed images in the file decode, each once, in log order
        final(vx_log).s.len() >= old(vx_log).s.len() && final(vx_log).s.take(old(vx_log).s.len() as int) == old(vx_log).s,
        r is Ok ==> ({
            let a = if start >= old(self).split_off_index { start } else { old(self).split_off_index };
            let b = if end <= old(self).start_index + old(self).msg_count { end } else { (old(self).start_index + old(self).msg_count) as u64 };
            let from = old(self).recs().skip(scan(old(self).recs(), (a - old(self).start_index) as nat).0);
            if a >= b { got(final(vx_log).s, old(vx_log).s).len() == 0 } else { got(final(vx_log).s, old(vx_log).s) == loaded(from, (b - a) as nat) }
        }),
@@ LogInnerManager::load_record effects_pass load
@@ LogInnerManager::load_record subst
    &Arc<dyn LogRecordLoader + Sync + Send + 'static> => &Arc<VxLoader>
@@ LogInnerManager::load_record entry
    broadcast use group_std_extra;
    let ghost l0 = vx_log.s;
    let ghost o = *self;
    let ghost cts = self.data_file.contents();
    let ghost s0 = self.recs();
    let ghost k0 = self.msg_count as nat;
    let ghost ix = self.indexs@;
@@ LogInnerManager::load_record before_call get_start_index 1
        let ghost a = start;
        let ghost b = end;
        let ghost aj = (a - o.start_index) as nat;
        let ghost cnt = (b - a) as nat;
        proof { assert(o.start_index <= a && a < b && b <= o.start_index + k0); }
@@ LogInnerManager::load_record after_call get_start_index 1
        let ghost p = choose|p: int| 0 <= p < ix.len() && *index == #[trigger] ix[p] && (ix[p].log_index <= a || p == 0) && (p + 1 < ix.len() ==> ix[p + 1].log_index > a);
        let ghost jj = (ix[p].log_index - o.start_index) as nat;
        let ghost fi = ix[p].file_index as int;
        let ghost nn = (a - ix[p].log_index) as nat;
        let ghost rest = cts.skip(fi);
        let ghost from = s0.skip(scan(s0, aj).0);
        proof {
            assert(ix[p].log_index <= a);
            lemma_read_setup(o, a, b, p);
        }
@@ LogInnerManager::load_record before_loop 1
        let ghost p0 = msg_position.position as int;
        let ghost mut cur: int = p0;
        proof {
            assert(p0 == 4096 + scan(s0, aj).0);
            assert(cts.skip(p0) =~= from);
            assert(message_reader.view() =~= cts.subrange(p0, p0));
            lemma_view_pre(from, 0);
            assert(from.take(0) =~= message_reader.view());
        }
@@ LogInnerManager::load_record loop 1
    invariant
        self.data_file.contents() == cts, self.index_file == o.index_file, self.header == o.header, self.indexs == o.indexs,
        self.start_index == o.start_index, self.index_cursor == o.index_cursor, self.file_len == o.file_len, self.data_cursor == o.data_cursor,
        self.msg_count == o.msg_count, self.last_term == o.last_term, self.current_index_count == o.current_index_count,
        self.split_off_index == o.split_off_index, self.need_seek_at_write, self.last_flush_index == o.last_flush_index,
        l0 == old(vx_log).s, vx_log.s.len() >= l0.len(), vx_log.s.take(l0.len() as int) == l0,
        o == *old(self), o.wf(), cts == o.data_file.contents(), cts.len() < 0x1_0000_0000, from == cts.skip(p0), 4096 <= p0 <= cts.len(),
        message_reader.wf(), scan(from, cnt).1 == cnt, cnt == b - a,
        c <= cnt,
        p0 <= cur, cur + message_reader.view().len() == self.data_file.pos(), self.data_file.pos() <= cts.len(),
        message_reader.view() == cts.subrange(cur, self.data_file.pos() as int),
        cur - p0 == scan(from, (cnt - c) as nat).0,
        ok_stream(cts.skip(cur)), terminated(cts.skip(cur)),
        vlen(message_reader.view()) is Some ==> (vlen(message_reader.view()).unwrap() <= 10 && vval(message_reader.view()) < 0x1_0000_0000),
        got(vx_log.s, l0) == loaded(from, (cnt - c) as nat),
    ensures
        vx_log.s.len() >= l0.len(), vx_log.s.take(l0.len() as int) == l0,
        c == 0, self.data_file.contents() == cts,
        got(vx_log.s, l0) == loaded(from, (cnt - c) as nat),
        self.index_file == o.index_file, self.header == o.header, self.indexs == o.indexs,
        self.start_index == o.start_index, self.index_cursor == o.index_cursor, self.file_len == o.file_len, self.data_cursor == o.data_cursor,
        self.msg_count == o.msg_count, self.last_term == o.last_term, self.current_index_count == o.current_index_count,
        self.split_off_index == o.split_off_index, self.need_seek_at_write,
@@ LogInnerManager::load_record loop 2
    invariant_except_break
        c > 0,
    invariant
        self.data_file.contents() == cts, self.index_file == o.index_file, self.header == o.header, self.indexs == o.indexs,
        self.start_index == o.start_index, self.index_cursor == o.index_cursor, self.file_len == o.file_len, self.data_cursor == o.data_cursor,
        self.msg_count == o.msg_count, self.last_term == o.last_term, self.current_index_count == o.current_index_count,
        self.split_off_index == o.split_off_index, self.need_seek_at_write, self.last_flush_index == o.last_flush_index,
        l0 == old(vx_log).s, vx_log.s.len() >= l0.len(), vx_log.s.take(l0.len() as int) == l0,
        o == *old(self), o.wf(), cts == o.data_file.contents(), cts.len() < 0x1_0000_0000, from == cts.skip(p0), 4096 <= p0 <= cts.len(),
        message_reader.wf(), scan(from, cnt).1 == cnt, cnt == b - a,
        c <= cnt,
        p0 <= cur, cur + message_reader.view().len() == self.data_file.pos(), self.data_file.pos() <= cts.len(),
        message_reader.view() == cts.subrange(cur, self.data_file.pos() as int),
        cur - p0 == scan(from, (cnt - c) as nat).0,
        ok_stream(cts.skip(cur)), terminated(cts.skip(cur)),
        vlen(message_reader.view()) is Some ==> (vlen(message_reader.view()).unwrap() <= 10 && vval(message_reader.view()) < 0x1_0000_0000),
        got(vx_log.s, l0) == loaded(from, (cnt - c) as nat),
    ensures
        c == 0 || (message_reader.view().len() > 0 && message_reader.view()[0] != 0 ==> first_rec(message_reader.view()) is None),
@@ LogInnerManager::load_record loop 2 body_entry
    let ghost j = (cnt - c) as nat;
    let ghost r = cts.skip(cur);
    let ghost n = (self.data_file.pos() - cur) as int;
    proof {
        assert(r.take(n) =~= cts.subrange(cur, self.data_file.pos() as int));
        lemma_consume(r, n, v@.len() as int, 1);
        assert(r.skip(v@.len() as int) =~= cts.skip(cur + v@.len()));
        // v is record number j counted from record a
        lemma_scan_mono(from, (j + 1) as nat, cnt);
        lemma_frame_at(from, j);
        assert(from.skip(scan(from, j).0) =~= r);
        assert(v@ =~= frame_at(from, j)) by { assert(r.take(v@.len() as int) =~= r.take(n).take(v@.len() as int)); }
        lemma_first_rec_bounds(r);
        lemma_first_rec_take(r, v@.len() as int);
        assert(r.take(v@.len() as int) =~= v@);
    }
@@ LogInnerManager::load_record before_call into 1
                    proof {
                        lemma_read_message_is_frame(item, v@);
                    }
@@ LogInnerManager::load_record after_call read_message 1
                proof {
                    // record j was handed over iff it decodes
                    assert(got(vx_log.s, l0) =~= loaded(from, (j + 1) as nat)) by {
                        if pb_decodes::<LogRecord>(v@) {
                            assert(vx_log.s.skip(l0.len() as int) =~= loaded(from, j).push(rec_dto(frame_msg(v@))));
                        }
                    }
                    assert(vx_log.s.take(l0.len() as int) =~= l0);
                    cur = cur + v@.len();
                    let r2 = cts.skip(cur);
                    assert(message_reader.view() =~= cts.subrange(cur, self.data_file.pos() as int));
                    assert(r2.take(message_reader.view().len() as int) =~= message_reader.view());
                    lemma_view_pre(r2, message_reader.view().len() as int);
                }
@@ LogInnerManager::load_record after_call read 1
            proof {
                if read_len == 0 && c > 0 {
                    // end of file with records still owed: impossible, the stream holds them and is terminated
                    let r = cts.skip(cur);
                    assert(message_reader.view() =~= r);
                    let j = (cnt - c) as nat;
                    lemma_scan_mono(from, (j + 1) as nat, cnt);
                    lemma_frame_at(from, j);
                    assert(from.skip(scan(from, j).0) =~= r);
                    lemma_first_rec_bounds(r);
                    assert(false);
                }
            }
@@ LogInnerManager::load_record after_call append_next_buf 1
            proof {
                assert(message_reader.view() =~= cts.subrange(cur, self.data_file.pos() as int)) by {
                    assert(buf@.subrange(0, read_len as int) =~= buf@.take(read_len as int));
                }
                let r = cts.skip(cur);
                assert(r.take(message_reader.view().len() as int) =~= message_reader.view());
                lemma_view_pre(r, message_reader.view().len() as int);
            }
@@ LogInnerManager::init spec
    requires full_read_model(),
        // the file is new (empty) or was written by this store: it is the disk image of SOME well-formed state that starts at start_index
        disk_at_open(log_path@).len() == 0 || exists|m: LogInnerManager| #[trigger] is_image_of(disk_at_open(log_path@), m, start_index),
    ensures
        // C02: reopening the image of ANY well-formed state yields a well-formed state with the same index, cursors and entry count
        // (hence, by write's / read_records' contracts, the same entries): acknowledged entries survive reopen
        r is Ok && disk_at_open(log_path@).len() > 0 ==> r.unwrap().wf()
            && forall|m: LogInnerManager| #[trigger] is_image_of(disk_at_open(log_path@), m, start_index) ==> same_log(r.unwrap(), m),
@@ LogInnerManager::init entry
    broadcast use axiom_hdr_roundtrip;
    broadcast use group_std_extra;
    let ghost dd = disk_at_open(log_path@);
    let ghost m0 = choose|m: LogInnerManager| #[trigger] is_image_of(dd, m, start_index);
    proof { if dd.len() > 0 { lemma_reopen(m0); } }
@@ LogInnerManager::init after_call read_be 1
            proof {
                assert(data_buf@ =~= dd.take(4096));
                assert(data_buf@.take(32) =~= dd.take(32));
                assert(data_buf@.subrange(32, 4096) =~= dd.subrange(32, 4096));
            }
@@ LogInnerManager::init before_call move_to_end 1
        proof {
            let c = data_file.contents();
            if dd.len() == 0 {
                let z = c.skip(4096);
                assert forall|i: int| 0 <= i < z.len() implies z[i] == 0u8 by { assert(z[i] == c[i + 4096]); }
                lemma_zero_stream(z);
                assert(indexs@.last() == first_index);
            } else {
                assert(c == dd);
            }
        }
@@ LogInnerManager::init before_stmt 11
        proof {
            if dd.len() > 0 {
                lemma_index_count_mod(m0.indexs@, m0.header.index_interval as int, m0.start_index as int, m0.msg_count as int, m0.current_index_count as int);
                assert(this.indexs@ == m0.indexs@);
                assert(this.index_cursor == m0.index_cursor);
                assert(this.data_cursor == m0.data_cursor);
                assert(this.msg_count == m0.msg_count);
                assert(this.file_len == m0.file_len);
                assert(this.header == m0.header);
                assert(this.current_index_count == m0.current_index_count);
                assert(this.data_file.contents() == dd);
                assert(this.index_file.contents() == dd);
                assert(same_log(this, m0));
                lemma_reopened_wf(this, m0);
            }
        }
@@ LogInnerManager::init before_tail
        proof {
            if dd.len() > 0 {
                assert(same_log(this, m0));
                assert forall|m: LogInnerManager| #[trigger] is_image_of(dd, m, start_index) implies same_log(this, m) by {
                    lemma_reopen(m);
                    lemma_index_count_mod(m.indexs@, m.header.index_interval as int, m.start_index as int, m.msg_count as int, m.current_index_count as int);
                }
            }
        }
