@@ LogInnerManager::get_start_index external
@@ LogInnerManager::get_start_index skip_body
@@ LogInnerManager::move_to_index_by_count attrs
#[verifier::exec_allows_no_decreases_clause]
@@ LogInnerManager::move_to_index_by_count spec
    requires
        last_index.log_index >= start_index,
        last_index.file_index <= old(file).contents().len(),
        old(file).contents().len() < 0x2000_0000,
        last_index.log_index - start_index + count < 0x1_0000_0000_0000,
        // the bytes from the index entry on are records written by the store, followed by an end marker
        ok_stream(old(file).contents().skip(last_index.file_index as int)),
        terminated(old(file).contents().skip(last_index.file_index as int)),
    ensures
        final(file).contents() == old(file).contents(),
        // C20/C02/C03: for EVERY chunking of the reads the scan consumes exactly the first `count` records (all of them if
        // fewer; none if count == 0) and stops exactly at the first zero length
        r is Ok ==> ({
            let sc = scan(old(file).contents().skip(last_index.file_index as int), count as nat);
            r.unwrap().0 == last_index.file_index + sc.0 && r.unwrap().1 == last_index.log_index - start_index + sc.1
        }),
@@ LogInnerManager::move_to_index_by_count entry
    let ghost cts = file.contents();
    let ghost f0 = last_index.file_index as int;
    let ghost s0 = cts.skip(f0);
    proof { lemma_scan_bounds(s0, count as nat); assert(cts.skip(f0).skip(0) =~= cts.skip(f0)); }
@@ LogInnerManager::move_to_index_by_count loop 1
    invariant_except_break
        reader.view().len() == 0 || reader.view()[0] != 0,
        first_rec(reader.view()) is None,
    invariant
        file.contents() == cts, cts == old(file).contents(), buffer@.len() == 1024, reader.wf(),
        cts.len() < 0x2000_0000, count > 0, c < count, msg_count == last_index.log_index - start_index,
        msg_count + count < 0x1_0000_0000_0000,
        f0 == last_index.file_index, s0 == cts.skip(f0),
        f0 <= data_cursor, data_cursor + reader.view().len() == file.pos(), file.pos() <= cts.len(),
        reader.view() == cts.subrange(data_cursor as int, file.pos() as int),
        scan(s0, count as nat) == (data_cursor - f0 + scan(cts.skip(data_cursor as int), (count - c) as nat).0,
                                   (c + scan(cts.skip(data_cursor as int), (count - c) as nat).1) as nat),
        ok_stream(cts.skip(data_cursor as int)), terminated(cts.skip(data_cursor as int)),
    ensures
        reader.view().len() > 0 && reader.view()[0] == 0,
        file.contents() == cts, c < count,
        scan(s0, count as nat) == (data_cursor - f0 + scan(cts.skip(data_cursor as int), (count - c) as nat).0,
                                   (c + scan(cts.skip(data_cursor as int), (count - c) as nat).1) as nat),
        reader.view() == cts.subrange(data_cursor as int, file.pos() as int), file.pos() <= cts.len(), f0 <= data_cursor,
        msg_count == last_index.log_index - start_index, msg_count + count < 0x1_0000_0000_0000,
@@ LogInnerManager::read_indexs attrs
#[verifier::exec_allows_no_decreases_clause]
@@ LogInnerManager::move_to_index_by_count loop 1 body_entry
    let ghost v_in = reader.view();
    let ghost p_in = file.pos() as int;
    let ghost dc_in = data_cursor as int;
@@ LogInnerManager::move_to_index_by_count before_return 2
    proof {
        // end of file reached with nothing buffered that could be an end marker: impossible for a terminated stream
        let r = cts.skip(data_cursor as int);
        assert(reader.view() =~= r);
        assert(first_rec(r) is None);
        assert(residue(r) == r);
    }
@@ LogInnerManager::move_to_index_by_count before_loop 2
    proof {
        assert(reader.view() =~= cts.subrange(data_cursor as int, file.pos() as int)) by {
            assert(buffer@.subrange(0, read_len as int) =~= buffer@.take(read_len as int));
        }
        let r = cts.skip(data_cursor as int);
        assert(r.take(reader.view().len() as int) =~= reader.view());
        lemma_view_pre(r, reader.view().len() as int);
    }
@@ LogInnerManager::move_to_index_by_count loop 2
    invariant
        file.contents() == cts, cts == old(file).contents(), reader.wf(), cts.len() < 0x2000_0000, count > 0, c < count,
        msg_count == last_index.log_index - start_index, msg_count + count < 0x1_0000_0000_0000,
        f0 == last_index.file_index, s0 == cts.skip(f0),
        f0 <= data_cursor, data_cursor + reader.view().len() == file.pos(), file.pos() <= cts.len(),
        reader.view() == cts.subrange(data_cursor as int, file.pos() as int),
        scan(s0, count as nat) == (data_cursor - f0 + scan(cts.skip(data_cursor as int), (count - c) as nat).0,
                                   (c + scan(cts.skip(data_cursor as int), (count - c) as nat).1) as nat),
        ok_stream(cts.skip(data_cursor as int)), terminated(cts.skip(data_cursor as int)),
        vlen(reader.view()) is Some ==> (vlen(reader.view()).unwrap() <= 10 && vval(reader.view()) < 0x1_0000_0000),
    ensures
        reader.view().len() > 0 && reader.view()[0] != 0 ==> first_rec(reader.view()) is None,
@@ LogInnerManager::move_to_index_by_count loop 2 body_entry
    proof {
        // `v` is the first record of the buffered window, hence of the stream at the cursor
        let r = cts.skip(data_cursor as int);
        let n = (file.pos() - data_cursor) as int;
        assert(r.take(n) =~= cts.subrange(data_cursor as int, file.pos() as int));
        lemma_consume(r, n, v@.len() as int, (count - c) as nat);
        assert(r.skip(v@.len() as int) =~= cts.skip(data_cursor + v@.len()));
    }
@@ LogInnerManager::move_to_index_by_count loop 2 body_exit
    proof {
        let r = cts.skip(data_cursor as int);
        assert(reader.view() =~= cts.subrange(data_cursor as int, file.pos() as int));
        assert(r.take(reader.view().len() as int) =~= reader.view());
        lemma_view_pre(r, reader.view().len() as int);
    }
@@ LogInnerManager::move_to_index_by_count before_return 3
    proof {
        assert(scan(cts.skip(data_cursor as int), 0) == (0int, 0nat));
    }
@@ LogInnerManager::move_to_index_by_count before_tail
    proof {
        let r = cts.skip(data_cursor as int);
        assert(r[0] == reader.view()[0]);
        assert(first_rec(r) is None);
    }
