// Bounded stand-in (always run, labelled bounded, never counted as proved) for the MULTI-FILE level of C02 / C03:
// RaftLogManager (actor: file catalogue, roll-over, truncation and reads across files) travels through Addr::send and
// actix future chains and is outside Verus; unit loginner proves the single-file level only.
// A log spread over 2 or 3 files is laid down exactly as switch_new_log leaves it (files written through the real
// LogInnerManager, catalogue saved through the real RaftIndexManager); then the REAL RaftLogManager is started on it and
// compared with a model list of (index, term): reads across file boundaries, last index, restart, and conflict truncation
// (cut in the newest file, at its first entry, in an older file) followed by an append at the cut and a restart.
use super::*;
use crate::raft::filestore::raftindex::RaftIndexManager;

fn rec(index: u64, term: u64) -> LogRecordDto { LogRecordDto { index, term, value: vec![(index % 251) as u8; 5] } }

/// files: (record count, closed?) ; first index 1
async fn lay_down(base: &Arc<String>, sizes: &[u64]) -> (Vec<(u64, u64)>, Addr<RaftIndexManager>) {
    let index_manager = RaftIndexManager::new(base.clone()).start();
    let mut ranges = vec![];
    let mut model = vec![];
    let mut start = 1u64;
    for (i, n) in sizes.iter().enumerate() {
        let last = i + 1 == sizes.len();
        let range = LogRange { id: i as u64 + 1, pre_term: if i == 0 { 0 } else { 1 }, start_index: start, record_count: if last { 0 } else { *n }, split_off_index: start, is_close: !last, mark_remove: false };
        let path = RaftLogManager::get_log_path(base, &range);
        let mut f = LogInnerManager::init(path, start, range.pre_term, start).await.unwrap();
        for k in 0..*n { assert!(matches!(f.write(&rec(start + k, 1)).await.unwrap(), LogWriteMark::Success)); model.push((start + k, 1u64)); }
        f.flush_log().await.unwrap();
        start += *n;
        ranges.push(range);
    }
    index_manager.send(RaftIndexRequest::SaveLogs(ranges)).await.unwrap().unwrap();
    tokio::time::sleep(std::time::Duration::from_millis(150)).await;
    (model, index_manager)
}

/// (the index manager holds a lock on the directory: the same actor serves the restarted log manager; what it answers is what it
/// was told to save — write-through, the file itself is the subject of C05)
async fn start_manager(base: &Arc<String>, index_manager: &Addr<RaftIndexManager>) -> Addr<RaftLogManager> {
    let mgr = RaftLogManager::new(base.clone(), Some(index_manager.clone())).start();
    tokio::time::sleep(std::time::Duration::from_millis(250)).await;
    mgr
}

async fn last_index(mgr: &Addr<RaftLogManager>) -> u64 {
    match mgr.send(RaftLogManagerAsyncRequest::GetLastLogIndex).await.unwrap().unwrap() { RaftLogResponse::LastLogIndex(i) => i.index, _ => panic!() }
}
async fn query(mgr: &Addr<RaftLogManager>, a: u64, b: u64) -> Vec<(u64, u64)> {
    match mgr.send(RaftLogManagerAsyncRequest::Query { start: a, end: b }).await.unwrap().unwrap() { RaftLogResponse::QueryResult(l) => l.iter().map(|r| (r.index, r.term)).collect(), _ => panic!() }
}
struct Collect { got: std::sync::Mutex<Vec<(u64, u64)>> }
#[async_trait::async_trait]
impl LogRecordLoader for Collect {
    async fn load(&self, dto: LogRecordDto) -> anyhow::Result<()> { self.got.lock().unwrap().push((dto.index, dto.term)); Ok(()) }
}
/// the replay path (load_record across files)
async fn load(mgr: &Addr<RaftLogManager>, a: u64, b: u64) -> Vec<(u64, u64)> {
    let c = Arc::new(Collect { got: std::sync::Mutex::new(vec![]) });
    let loader: Arc<dyn LogRecordLoader + Sync + Send + 'static> = c.clone();
    mgr.send(RaftLogManagerAsyncRequest::Load { start: a, end: b, loader }).await.unwrap().unwrap();
    let v = c.got.lock().unwrap().clone();
    v
}
fn window(model: &[(u64, u64)], a: u64, b: u64) -> Vec<(u64, u64)> { model.iter().filter(|e| e.0 >= a && e.0 < b).cloned().collect() }

async fn compare(tag: &str, mgr: &Addr<RaftLogManager>, model: &[(u64, u64)], bounds: &[u64], bad: &mut Vec<String>) {
    let want_last = model.last().map(|e| e.0).unwrap_or(0);
    let got_last = last_index(mgr).await;
    if got_last != want_last { bad.push(format!("VX-BOUNDED-FAIL {} last index {} instead of {}", tag, got_last, want_last)); return; }
    let mut points: Vec<u64> = vec![1, 2, want_last.saturating_sub(1).max(1), want_last, want_last + 1];
    for b in bounds { points.extend([b.saturating_sub(2).max(1), b.saturating_sub(1).max(1), *b, b + 1, b + 2]); }
    for a in points.iter() { for len in [1u64, 3, 40] {
        let got = query(mgr, *a, a + len).await;
        let want = window(model, *a, a + len);
        if got != want { bad.push(format!("VX-BOUNDED-FAIL {} query [{}, {}) = {:?} instead of {:?}", tag, a, a + len, &got[..got.len().min(4)], &want[..want.len().min(4)])); return; }
        if len == 40 {
            let got = load(mgr, *a, a + len).await;
            if got != want { bad.push(format!("VX-BOUNDED-FAIL {} replay (Load) [{}, {}) = {:?} instead of {:?}", tag, a, a + len, &got[..got.len().min(4)], &want[..want.len().min(4)])); return; }
        }
    } }
}

#[actix::test]
async fn vx_bounded_log_files() {
    let mut bad: Vec<String> = vec![];
    let mut scenarios = 0usize;
    for sizes in [vec![150u64, 60], vec![150, 130, 40], vec![20, 300]] {
        let bounds: Vec<u64> = sizes.iter().scan(1u64, |s, n| { *s += n; Some(*s) }).collect();   // first index of the next file
        let first_of_last = bounds[bounds.len() - 2];
        let end = *bounds.last().unwrap();
        // cut points: (tag, cut)
        let cuts: Vec<(&str, u64)> = vec![("newest-file", end - 7), ("newest-file-first-entry", first_of_last), ("older-file", first_of_last - 9), ("nothing", end)];
        for (ctag, cut) in cuts.iter() {
            let temp = tempfile::tempdir().unwrap();
            let base = Arc::new(temp.path().to_string_lossy().into_owned());
            let (mut model, index_manager) = lay_down(&base, &sizes).await;
            let mgr = start_manager(&base, &index_manager).await;
            let files = sizes.len();
            compare(&format!("READ files={}", files), &mgr, &model, &bounds, &mut bad).await;
            // conflict truncation at `cut`, then the leader's entries from `cut` on
            let (tx, rx) = tokio::sync::oneshot::channel();
            mgr.send(RaftLogManagerRequest::StripLogToIndex { end_index: *cut, sender: tx }).await.unwrap().unwrap();
            let acked = matches!(rx.await.unwrap(), Ok(WriteLogResult::Success));
            tokio::time::sleep(std::time::Duration::from_millis(120)).await;
            model.retain(|e| e.0 < *cut);
            let tag = format!("STRIP {} files={}", ctag, files);
            let before = bad.len();
            if !acked { bad.push(format!("VX-BOUNDED-FAIL {} truncation not acknowledged", tag)); }
            compare(&tag, &mgr, &model, &bounds, &mut bad).await;
            if bad.len() == before {
                let mut ok = true;
                for k in 0..12u64 {
                    let (tx, rx) = tokio::sync::oneshot::channel();
                    mgr.send(RaftLogManagerRequest::Write { record: rec(cut + k, 2), sender: tx }).await.unwrap().unwrap();
                    if !matches!(rx.await.unwrap(), Ok(WriteLogResult::Success)) { bad.push(format!("VX-BOUNDED-FAIL {} append at {} after the truncation refused", tag, cut + k)); ok = false; break; }
                    model.push((cut + k, 2));
                }
                if ok {
                    compare(&format!("{} +append", tag), &mgr, &model, &bounds, &mut bad).await;
                    // restart on the same directory
                    tokio::time::sleep(std::time::Duration::from_millis(700)).await;   // periodic flush
                    let mgr2 = start_manager(&base, &index_manager).await;
                    compare(&format!("{} +append+restart", tag), &mgr2, &model, &bounds, &mut bad).await;
                }
            }
            scenarios += 1;
        }
    }
    assert!(scenarios >= 12);
    bad.sort(); bad.dedup();
    assert!(bad.is_empty(), "{} failing probe(s):\n{}", bad.len(), bad.join("\n"));
}
