verus! {

pub type Idx = Seq<InnerIdxDto>;

/// the in-memory index of one log file: entry j marks record number j*interval; offsets grow
pub open spec fn idx_wf(ix: Idx, interval: int) -> bool {
    &&& ix.len() >= 1 && interval > 0
    &&& forall|j: int| 0 < j < ix.len() ==> #[trigger] ix[j].log_index == ix[j - 1].log_index + interval
    &&& forall|j: int| 0 < j < ix.len() ==> #[trigger] ix[j].file_index > ix[j - 1].file_index
    &&& forall|j: int| 0 <= j < ix.len() ==> #[trigger] ix[j].file_index < 0x8000_0000
}
pub proof fn lemma_idx_mono(ix: Idx, interval: int, i: int, j: int)
    requires idx_wf(ix, interval), 0 <= i < j < ix.len()
    ensures ix[i].log_index < ix[j].log_index, ix[i].file_index < ix[j].file_index
    decreases j - i
{
    if i + 1 < j { lemma_idx_mono(ix, interval, i, j - 1); }
}

/// what entry j (j >= 1) occupies in the index area: the varint of its FILE-OFFSET delta to entry j-1
pub open spec fn idx_entry_bytes(ix: Idx, j: int) -> int {
    enc_len((ix[j].file_index - ix[j - 1].file_index) as nat)
}
/// bytes of the index area occupied by the entries p+1 .. len-1
pub open spec fn idx_bytes_after(ix: Idx, p: int) -> int
    decreases ix.len() - p
{
    if p + 1 >= ix.len() { 0 } else { idx_entry_bytes(ix, p + 1) + idx_bytes_after(ix, p + 1) }
}
pub proof fn lemma_idx_bytes_step(ix: Idx, p: int)
    requires 0 <= p, p + 1 < ix.len()
    ensures idx_bytes_after(ix, p) == idx_entry_bytes(ix, p + 1) + idx_bytes_after(ix, p + 1),
        idx_bytes_after(ix, ix.len() - 1) == 0,
{}
pub proof fn lemma_idx_bytes_bound(ix: Idx, p: int)
    requires 0 <= p < ix.len()
    ensures 0 <= idx_bytes_after(ix, p) <= 10 * (ix.len() - 1 - p)
    decreases ix.len() - p
{
    if p + 1 < ix.len() { lemma_idx_bytes_bound(ix, p + 1); }
}

// ------------------------------------------------------------------ index area decode (read_indexs)
/// value `read_varint64_offset(..).unwrap_or(0)` yields at `off`
pub open spec fn read_at(s: Seq<u8>, off: int) -> nat {
    if 0 <= off < s.len() && vlen(s.skip(off)) is Some && vlen(s.skip(off)).unwrap() <= 10 && vval(s.skip(off)) <= u64::MAX { vval(s.skip(off)) } else { 0 }
}
/// index area written by the store: a varint of at most 10 bytes found at `off` is below 2^32
pub open spec fn idx_val_ok(s: Seq<u8>, off: int) -> bool {
    (vlen(s.skip(off)) is Some && vlen(s.skip(off)).unwrap() <= 10) ==> vval(s.skip(off)) < 0x1_0000_0000
}
/// deltas decoded from the index area, `next` being the value already read at `off`: stops at a zero delta or past `last_end`
pub open spec fn dec_from(s: Seq<u8>, off: int, next: nat, last_end: int) -> Seq<nat>
    decreases s.len() - off
{
    if next == 0 || off < 0 || off >= s.len() { seq![] } else {
        let off2 = off + enc_len(next);
        if off2 > last_end || off2 <= off || off2 >= s.len() { seq![next] } else { seq![next].add(dec_from(s, off2, read_at(s, off2), last_end)) }
    }
}
/// bytes the deltas occupy (canonical varints)
pub open spec fn deltas_bytes(d: Seq<nat>) -> int
    decreases d.len()
{
    if d.len() == 0 { 0 } else { deltas_bytes(d.drop_last()) + enc_len(d.last()) }
}
/// the in-memory index built from the first entry and the file-offset deltas
pub open spec fn idx_build(first: InnerIdxDto, interval: int, d: Seq<nat>) -> Seq<InnerIdxDto>
    decreases d.len()
{
    if d.len() == 0 { seq![first] } else {
        let p = idx_build(first, interval, d.drop_last());
        p.push(InnerIdxDto { log_index: (p.last().log_index + interval) as u64, file_index: (p.last().file_index + d.last()) as u64 })
    }
}
pub proof fn lemma_idx_build_len(first: InnerIdxDto, interval: int, d: Seq<nat>)
    ensures idx_build(first, interval, d).len() == d.len() + 1
    decreases d.len()
{
    if d.len() > 0 { lemma_idx_build_len(first, interval, d.drop_last()); }
}

} // verus!
