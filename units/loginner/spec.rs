verus! {

pub type Idx = Seq<InnerIdxDto>;

/// the in-memory index of one log file: entry j marks record number j*interval; offsets grow
pub open spec fn idx_wf(ix: Idx, interval: int) -> bool {
    &&& ix.len() >= 1 && interval > 0
    &&& forall|j: int| 0 < j < ix.len() ==> #[trigger] idx_adj(ix, interval, j)
    &&& forall|j: int| 0 <= j < ix.len() ==> #[trigger] ix[j].file_index < 0x1_0000_0000
}
/// entry j relative to entry j-1 (a named predicate so that the solver only unfolds it where asked: no matching loop)
pub open spec fn idx_adj(ix: Idx, interval: int, j: int) -> bool {
    ix[j].log_index == ix[j - 1].log_index + interval && ix[j].file_index > ix[j - 1].file_index
}
pub proof fn lemma_idx_mono(ix: Idx, interval: int, i: int, j: int)
    requires idx_wf(ix, interval), 0 <= i < j < ix.len()
    ensures ix[i].log_index < ix[j].log_index, ix[i].file_index < ix[j].file_index
    decreases j - i
{
    assert(idx_adj(ix, interval, j));
    if i + 1 < j { lemma_idx_mono(ix, interval, i, j - 1); }
}

/// what entry j (j >= 1) occupies in the index area: the varint of its FILE-OFFSET delta to entry j-1
pub open spec fn idx_entry_bytes(ix: Idx, j: int) -> int {
    enc_len((ix[j].file_index - ix[j - 1].file_index) as nat)
}
/// bytes of the index area occupied by the entries p+1 .. len-1
pub open spec fn idx_bytes_after(ix: Idx, p: int) -> int
    decreases ix.len() - p
{
    if p + 1 >= ix.len() { 0 } else { idx_entry_bytes(ix, p + 1) + idx_bytes_after(ix, p + 1) }
}
pub proof fn lemma_idx_bytes_step(ix: Idx, p: int)
    requires 0 <= p, p + 1 < ix.len()
    ensures idx_bytes_after(ix, p) == idx_entry_bytes(ix, p + 1) + idx_bytes_after(ix, p + 1),
        idx_bytes_after(ix, ix.len() - 1) == 0,
{}
pub proof fn lemma_idx_bytes_bound(ix: Idx, p: int)
    requires 0 <= p < ix.len()
    ensures 0 <= idx_bytes_after(ix, p) <= 10 * (ix.len() - 1 - p)
    decreases ix.len() - p
{
    if p + 1 < ix.len() { lemma_idx_bytes_bound(ix, p + 1); }
}

// ------------------------------------------------------------------ the data-structure invariant of one open log file
pub open spec fn zero_from(c: Seq<u8>, from: int) -> bool { forall|i: int| from <= i < c.len() ==> #[trigger] c[i] == 0u8 }

/// concatenated varints of the file-offset deltas of entries 1..len-1 (what the index area holds)
pub open spec fn idx_area(ix: Idx) -> Seq<u8>
    decreases ix.len()
{
    if ix.len() <= 1 { Seq::empty() } else { idx_area(ix.drop_last()).add(enc((ix.last().file_index - ix[ix.len() - 2].file_index) as nat)) }
}

impl LogInnerManager {
    /// record stream of the data handle (everything behind the 4 KiB header / index area)
    pub open spec fn recs(&self) -> Seq<u8> { self.data_file.contents().skip(4096) }
    /// number of bytes of record stream in use
    pub open spec fn used(&self) -> int { self.data_cursor - 4096 }

    /// scalar / data-file part of the invariant
    pub open spec fn wf_data(&self) -> bool {
        let d = self.data_file.contents();
        &&& self.header.index_interval > 0 && self.header.data_area_index == 4096 && self.header.first_index == self.start_index
        &&& d.len() == self.file_len && 4096 <= self.data_cursor < self.file_len && self.file_len < 0x1_0000_0000
        &&& self.start_index < 0x8000_0000_0000 && self.msg_count <= self.used()
        // exactly msg_count complete records fill [4096, data_cursor)
        &&& scan(self.recs(), self.msg_count as nat) == (self.used(), self.msg_count as nat)
        &&& ok_prefixes(self.recs(), self.msg_count as nat)
        // C02/C03: nothing behind the cursor can be read as a record (bytes of a removed suffix never come back)
        &&& zero_from(d, self.data_cursor as int)
        &&& (!self.need_seek_at_write ==> self.data_file.pos() == self.data_cursor)
    }
    /// every index entry points at the record boundary it names
    pub open spec fn wf_points(&self) -> bool {
        let ix = self.indexs@;
        &&& idx_wf(ix, self.header.index_interval as int) && ix.len() < 0x1000
        &&& ix[0].log_index == self.start_index && ix[0].file_index == 4096
        &&& forall|j: int| 0 <= j < ix.len() ==> self.start_index <= #[trigger] ix[j].log_index <= self.start_index + self.msg_count
        &&& forall|j: int| 0 <= j < ix.len() ==> #[trigger] ix[j].file_index - 4096 == scan(self.recs(), (ix[j].log_index - self.start_index) as nat).0
        &&& self.current_index_count == self.msg_count - (ix.last().log_index - self.start_index)
        &&& self.current_index_count < self.header.index_interval
    }
    /// index area of the index handle: the encoded entries, then zeros
    pub open spec fn wf_area(&self) -> bool {
        let a = self.index_file.contents();
        &&& 32 <= self.index_cursor <= 4090 && a.len() >= 4096
        &&& a.subrange(32, self.index_cursor as int) == idx_area(self.indexs@)
        &&& forall|i: int| self.index_cursor <= i < 4096 ==> #[trigger] a[i] == 0u8
        // the last entry was written while the area still had its 10 spare bytes (so the reader's `offset > len - 10` stop never cuts an entry off)
        &&& (self.indexs@.len() > 1 ==> 32 + idx_area(self.indexs@.drop_last()).len() <= 4085)
        // the first 32 bytes are the header this state was opened with (nothing but `init` on an empty file writes there)
        &&& hdr_of(a.take(32)) == self.header
    }
    pub open spec fn wf(&self) -> bool { self.wf_data() && self.wf_points() && self.wf_area() }

    /// C04 (crash points): `wf_points` without the in-memory counter `current_index_count` — the sparse index may LAG behind the
    /// data (the entry of the last complete interval not written yet, or index entries already popped by a truncation that has
    /// not reached the data), by at most what the end-of-log scan of a reopen walks (0xffff records)
    pub open spec fn wf_points_lag(&self) -> bool {
        let ix = self.indexs@;
        &&& idx_wf(ix, self.header.index_interval as int) && ix.len() < 0x1000
        &&& ix[0].log_index == self.start_index && ix[0].file_index == 4096
        &&& forall|j: int| 0 <= j < ix.len() ==> self.start_index <= #[trigger] ix[j].log_index <= self.start_index + self.msg_count
        &&& forall|j: int| 0 <= j < ix.len() ==> #[trigger] ix[j].file_index - 4096 == scan(self.recs(), (ix[j].log_index - self.start_index) as nat).0
        &&& self.msg_count - (ix.last().log_index - self.start_index) <= 0xffff
    }
    /// a disk state from which a reopen recovers exactly this index, these cursors and this record count (lemma_reopen)
    pub open spec fn wf_lag(&self) -> bool { self.wf_data() && self.wf_points_lag() && self.wf_area() }
}

/// the record stream after an append at the cursor: same bytes below, the frame, zeros behind
pub open spec fn appended(d0: Seq<u8>, d1: Seq<u8>, c0: int, frame: Seq<u8>) -> bool {
    &&& 4096 <= c0 && c0 + frame.len() <= d1.len()
    &&& d1.take(c0) == d0.take(c0)
    &&& d1.subrange(c0, c0 + frame.len()) == frame
    &&& zero_from(d1, c0 + frame.len())
}

/// C02: appending one framed entry behind k complete records gives k+1 complete records and keeps the first k
pub proof fn lemma_append_stream(d0: Seq<u8>, d1: Seq<u8>, c0: int, k: nat, body: Seq<u8>)
    requires
        4096 <= c0 <= d0.len(),
        scan(d0.skip(4096), k) == (c0 - 4096, k), ok_prefixes(d0.skip(4096), k),
        1 <= body.len() < 0x1000_0000,
        appended(d0, d1, c0, enc(body.len() as nat).add(body)),
    ensures
        scan(d1.skip(4096), k + 1) == (c0 - 4096 + enc(body.len() as nat).len() + body.len(), k + 1),
        ok_prefixes(d1.skip(4096), k + 1),
        forall|j: nat| j <= k ==> #[trigger] scan(d1.skip(4096), j) == scan(d0.skip(4096), j),
{
    let s0 = d0.skip(4096);
    let s1 = d1.skip(4096);
    let b = c0 - 4096;
    let frame = enc(body.len() as nat).add(body);
    let f = frame.len() as int;
    assert(s1.take(b) =~= s0.take(b)) by {
        assert forall|i: int| 0 <= i < b implies s1.take(b)[i] == s0.take(b)[i] by {
            assert(d1.take(c0)[i + 4096] == d0.take(c0)[i + 4096]);
        }
    }
    lemma_scan_prefix(s0, s1, k);
    lemma_ok_prefixes_prefix(s0, s1, k);
    let t = s1.skip(b);
    assert(t.take(f) =~= frame) by {
        assert forall|i: int| 0 <= i < f implies t.take(f)[i] == frame[i] by {
            assert(d1.subrange(c0, c0 + f)[i] == d1[c0 + i]);
        }
    }
    lemma_frame_first_rec(t, body);
    lemma_scan_append(s1, k, f);
    // ok_prefixes of k+1: the first k by prefix, the (k+1)th by the frame
    lemma_ok_prefixes_snoc(s1, k);
    assert forall|j: nat| j <= k implies #[trigger] scan(s1, j) == scan(s0, j) by {
        lemma_scan_mono(s0, j, k);
        lemma_scan_bounds(s0, k);
        lemma_scan_bounds(s0, j);
        assert(scan(s0, j).0 <= b && b <= s0.len() && b <= s1.len());
        assert(s1.take(scan(s0, j).0) =~= s0.take(scan(s0, j).0)) by {
            assert forall|i: int| 0 <= i < scan(s0, j).0 implies s1[i] == s0[i] by { assert(s1.take(b)[i] == s0.take(b)[i]); }
        }
        lemma_scan_prefix(s0, s1, j);
    }
}

/// every record takes at least one byte
pub proof fn lemma_scan_count(s: Seq<u8>, k: nat)
    ensures scan(s, k).1 <= scan(s, k).0
    decreases s.len()
{
    if k > 0 {
        match first_rec(s) {
            Some(n) => { lemma_first_rec_bounds(s); lemma_scan_count(s.skip(n), (k - 1) as nat); },
            None => {}
        }
    }
}

pub proof fn lemma_idx_area_len(ix: Idx)
    ensures idx_area(ix).len() >= ix.len() - 1
    decreases ix.len()
{
    if ix.len() > 1 {
        lemma_idx_area_len(ix.drop_last());
        lemma_enc_len((ix.last().file_index - ix[ix.len() - 2].file_index) as nat);
    }
}

/// what `write` does to the data handle and the scalars
pub open spec fn write_data_step(o: LogInnerManager, n: LogInnerManager, body: Seq<u8>) -> bool {
    &&& o.data_cursor < 2_000_000_000 && o.index_cursor + 10 < 4096
    &&& 1 <= body.len() < 0x1000_0000
    &&& n.header == o.header && n.start_index == o.start_index && n.msg_count == o.msg_count + 1
    &&& n.data_cursor == o.data_cursor + enc(body.len() as nat).len() + body.len()
    &&& n.file_len == n.data_file.contents().len() && n.data_cursor < n.file_len && n.file_len < 0x1_0000_0000
    &&& appended(o.data_file.contents(), n.data_file.contents(), o.data_cursor as int, enc(body.len() as nat).add(body))
    &&& !n.need_seek_at_write && n.data_file.pos() == n.data_cursor
}
/// index untouched (interval not complete)
pub open spec fn write_idx_same(o: LogInnerManager, n: LogInnerManager) -> bool {
    &&& o.current_index_count + 1 < o.header.index_interval
    &&& n.indexs == o.indexs && n.current_index_count == o.current_index_count + 1
    &&& n.index_cursor == o.index_cursor && n.index_file.contents() == o.index_file.contents()
}
/// one index entry pushed (interval complete)
pub open spec fn write_idx_push(o: LogInnerManager, n: LogInnerManager) -> bool {
    let delta = (n.data_cursor - o.indexs@.last().file_index) as nat;
    &&& o.current_index_count + 1 == o.header.index_interval
    &&& n.indexs@ == o.indexs@.push(InnerIdxDto { log_index: (n.msg_count + o.header.first_index) as u64, file_index: n.data_cursor })
    &&& n.current_index_count == 0
    &&& n.index_cursor == o.index_cursor + enc(delta).len()
    &&& n.index_file.contents().len() == o.index_file.contents().len()
    &&& n.index_file.contents().subrange(o.index_cursor as int, n.index_cursor as int) == enc(delta)
    &&& forall|i: int| 0 <= i < o.index_file.contents().len() && !(o.index_cursor <= i < n.index_cursor) ==> #[trigger] n.index_file.contents()[i] == o.index_file.contents()[i]
}

pub proof fn lemma_write_data(o: LogInnerManager, n: LogInnerManager, body: Seq<u8>)
    requires o.wf_data(), write_data_step(o, n, body)
    ensures n.wf_data(),
        forall|j: nat| j <= o.msg_count ==> #[trigger] scan(n.recs(), j) == scan(o.recs(), j),
        scan(n.recs(), n.msg_count as nat) == (n.used(), n.msg_count as nat),
{
    lemma_append_stream(o.data_file.contents(), n.data_file.contents(), o.data_cursor as int, o.msg_count as nat, body);
    lemma_enc_len_table(body.len() as nat);
    lemma_scan_count(n.recs(), n.msg_count as nat);
}

pub proof fn lemma_write_points_same(o: LogInnerManager, n: LogInnerManager)
    requires o.wf_points(), n.header == o.header, n.start_index == o.start_index, n.msg_count == o.msg_count + 1, write_idx_same(o, n),
        forall|j: nat| j <= o.msg_count ==> #[trigger] scan(n.recs(), j) == scan(o.recs(), j),
    ensures n.wf_points()
{
    let ix = o.indexs@;
    assert forall|j: int| 0 <= j < ix.len() implies #[trigger] ix[j].file_index - 4096 == scan(n.recs(), (ix[j].log_index - n.start_index) as nat).0 by {
        let jj = (ix[j].log_index - o.start_index) as nat;
        assert(jj <= o.msg_count);
        assert(scan(n.recs(), jj) == scan(o.recs(), jj));
    }
}

pub proof fn lemma_write_points_push(o: LogInnerManager, n: LogInnerManager)
    requires o.wf_points(), o.wf_area(), o.index_cursor + 10 < 4096,
        n.header == o.header, n.start_index == o.start_index, n.msg_count == o.msg_count + 1, write_idx_push(o, n),
        o.header.first_index == o.start_index, o.start_index < 0x8000_0000_0000, n.msg_count < 0x1_0000_0000,
        n.data_cursor < 0x1_0000_0000, n.data_cursor > o.indexs@.last().file_index,
        forall|j: nat| j <= o.msg_count ==> #[trigger] scan(n.recs(), j) == scan(o.recs(), j),
        scan(n.recs(), n.msg_count as nat).0 == n.data_cursor - 4096,
    ensures n.wf_points()
{
    let ix = o.indexs@;
    let nx = n.indexs@;
    let interval = o.header.index_interval as int;
    let e = nx[nx.len() - 1];
    assert(nx.len() == ix.len() + 1);
    assert forall|j: int| 0 <= j < ix.len() implies nx[j] == ix[j] by {}
    assert(e.log_index == ix.last().log_index + interval);
    lemma_idx_area_len(ix);
    assert forall|j: int| 0 < j < nx.len() implies #[trigger] idx_adj(nx, interval, j) by {
        if j < ix.len() { assert(idx_adj(ix, interval, j)); assert(nx[j] == ix[j]); assert(nx[j - 1] == ix[j - 1]); }
        else { assert(nx[j - 1] == ix.last()); }
    }
    assert forall|j: int| 0 <= j < nx.len() implies #[trigger] nx[j].file_index < 0x1_0000_0000 by {
        if j < ix.len() { assert(nx[j] == ix[j]); }
    }
    assert forall|j: int| 0 <= j < nx.len() implies #[trigger] nx[j].file_index - 4096 == scan(n.recs(), (nx[j].log_index - n.start_index) as nat).0 by {
        if j < ix.len() {
            assert(nx[j] == ix[j]);
            let jj = (ix[j].log_index - o.start_index) as nat;
            assert(jj <= o.msg_count);
            assert(scan(n.recs(), jj) == scan(o.recs(), jj));
        }
    }
    assert forall|j: int| 0 <= j < nx.len() implies n.start_index <= #[trigger] nx[j].log_index <= n.start_index + n.msg_count by {
        if j < ix.len() { assert(nx[j] == ix[j]); }
    }
}

pub proof fn lemma_write_area_push(o: LogInnerManager, n: LogInnerManager)
    requires o.wf_area(), o.wf_points(), o.index_cursor + 10 < 4096, write_idx_push(o, n), n.data_cursor < 0x1_0000_0000, n.data_cursor > o.indexs@.last().file_index,
        n.header == o.header,
    ensures n.wf_area()
{
    assert(n.index_file.contents().take(32) =~= o.index_file.contents().take(32));
    let ix = o.indexs@;
    let nx = n.indexs@;
    let delta = (n.data_cursor - ix.last().file_index) as nat;
    lemma_enc_len_table(delta);
    assert(nx.drop_last() =~= ix);
    assert(idx_area(nx) == idx_area(ix).add(enc(delta)));
    let a0 = o.index_file.contents();
    let a1 = n.index_file.contents();
    assert(a1.subrange(32, n.index_cursor as int) =~= idx_area(ix).add(enc(delta))) by {
        assert forall|i: int| 0 <= i < n.index_cursor - 32 implies a1.subrange(32, n.index_cursor as int)[i] == idx_area(ix).add(enc(delta))[i] by {
            if i < o.index_cursor - 32 { assert(a0.subrange(32, o.index_cursor as int)[i] == a0[i + 32]); }
            else { assert(a1.subrange(o.index_cursor as int, n.index_cursor as int)[i + 32 - o.index_cursor] == a1[i + 32]); }
        }
    }
    // the new last entry starts at the old cursor, which still had its 10 spare bytes
    assert(nx.drop_last() == ix);
    assert(a0.subrange(32, o.index_cursor as int) == idx_area(ix));
    assert(a0.subrange(32, o.index_cursor as int).len() == o.index_cursor - 32);
    assert(idx_area(nx.drop_last()).len() == o.index_cursor - 32);
    assert(nx.len() > 1);
}

/// C02: one acknowledged append keeps the whole data-structure invariant
pub proof fn lemma_write_wf(o: LogInnerManager, n: LogInnerManager, body: Seq<u8>)
    requires o.wf(), write_data_step(o, n, body), write_idx_same(o, n) || write_idx_push(o, n),
    ensures n.wf()
{
    lemma_write_data(o, n, body);
    lemma_scan_count(n.recs(), n.msg_count as nat);
    if write_idx_same(o, n) {
        lemma_write_points_same(o, n);
    } else {
        lemma_scan_mono(o.recs(), (o.indexs@.last().log_index - o.start_index) as nat, o.msg_count as nat);
        lemma_enc_len(body.len() as nat);
        lemma_write_points_push(o, n);
        lemma_write_area_push(o, n);
    }
}

// ------------------------------------------------------------------ truncation (strip_log_to)
/// scanning a+b records = scanning a, then b from there
pub proof fn lemma_scan_split(s: Seq<u8>, a: nat, b: nat)
    requires scan(s, a).1 == a
    ensures scan(s, a + b) == (scan(s, a).0 + scan(s.skip(scan(s, a).0), b).0, a + scan(s.skip(scan(s, a).0), b).1)
    decreases a
{
    lemma_scan_bounds(s, a);
    if a == 0 { assert(s.skip(0) =~= s); } else {
        match first_rec(s) {
            Some(m) => {
                lemma_first_rec_bounds(s);
                let s2 = s.skip(m);
                let a1 = (a - 1) as nat;
                lemma_scan_bounds(s2, a1);
                assert(s2.skip(scan(s2, a1).0) =~= s.skip(scan(s, a).0));
                lemma_scan_split(s2, a1, b);
                assert((a + b - 1) as nat == a1 + b);
            },
            None => { assert(scan(s, a) == (0int, 0nat)); }
        }
    }
}
/// ok_prefixes of a suffix that starts at a record boundary
pub proof fn lemma_ok_prefixes_suffix(s: Seq<u8>, a: nat, b: nat)
    requires scan(s, a).1 == a, ok_prefixes(s, a + b)
    ensures ok_prefixes(s.skip(scan(s, a).0), b)
    decreases a
{
    lemma_scan_bounds(s, a);
    if a == 0 { assert(s.skip(0) =~= s); } else {
        match first_rec(s) {
            Some(m) => {
                lemma_first_rec_bounds(s);
                let s2 = s.skip(m);
                let a1 = (a - 1) as nat;
                lemma_scan_bounds(s2, a1);
                assert(s2.skip(scan(s2, a1).0) =~= s.skip(scan(s, a).0));
                assert((a + b - 1) as nat == a1 + b);
                lemma_ok_prefixes_suffix(s2, a1, b);
            },
            None => { assert(scan(s, a) == (0int, 0nat)); }
        }
    }
}
/// k complete store records followed by zeros (at least one): an ok, terminated stream whose scan stops after k
pub proof fn lemma_records_then_zeros(s: Seq<u8>, k: nat)
    requires scan(s, k).1 == k, ok_prefixes(s, k), scan(s, k).0 < s.len(),
        forall|i: int| scan(s, k).0 <= i < s.len() ==> s[i] == 0u8,
    ensures ok_stream(s), terminated(s), forall|c: nat| c >= k ==> #[trigger] scan(s, c) == scan(s, k),
    decreases k
{
    lemma_scan_bounds(s, k);
    assert(0u8 & 0x80 == 0) by(bit_vector);
    if k == 0 {
        assert(s[0] == 0u8);
        assert(first_rec(s) is None);
        assert forall|c: nat| c >= k implies #[trigger] scan(s, c) == scan(s, k) by {}
    } else {
        match first_rec(s) {
            Some(m) => {
                lemma_first_rec_bounds(s);
                let s2 = s.skip(m);
                let k1 = (k - 1) as nat;
                lemma_scan_bounds(s2, k1);
                assert forall|i: int| scan(s2, k1).0 <= i < s2.len() implies s2[i] == 0u8 by { assert(s2[i] == s[i + m]); }
                lemma_records_then_zeros(s2, k1);
                assert forall|c: nat| c >= k implies #[trigger] scan(s, c) == scan(s, k) by {
                    assert(scan(s2, (c - 1) as nat) == scan(s2, k1));
                }
            },
            None => { assert(scan(s, k) == (0int, 0nat)); }
        }
    }
}

/// index area: the bytes of the entries behind p are exactly the tail of the area
pub proof fn lemma_idx_area_split(ix: Idx, p: int)
    requires 0 <= p < ix.len(), exists|interval: int| idx_wf(ix, interval)
    ensures idx_area(ix).len() == idx_area(ix.take(p + 1)).len() + idx_bytes_after(ix, p),
        idx_area(ix).take(idx_area(ix.take(p + 1)).len() as int) == idx_area(ix.take(p + 1)),
    decreases ix.len() - p
{
    if p + 1 == ix.len() {
        assert(ix.take(p + 1) =~= ix);
    } else {
        let interval = choose|interval: int| idx_wf(ix, interval);
        lemma_idx_area_split_last(ix, interval, p);
    }
}
pub proof fn lemma_idx_area_split_last(ix: Idx, interval: int, p: int)
    requires 0 <= p, p + 1 < ix.len(), idx_wf(ix, interval)
    ensures idx_area(ix).len() == idx_area(ix.take(p + 1)).len() + idx_bytes_after(ix, p),
        idx_area(ix).take(idx_area(ix.take(p + 1)).len() as int) == idx_area(ix.take(p + 1)),
    decreases ix.len()
{
    let q = ix.len() - 1;
    let pre = ix.drop_last();
    let d = (ix[q].file_index - ix[q - 1].file_index) as nat;
    assert(idx_adj(ix, interval, q));
    lemma_enc_len_table(d);
    assert(pre.take(p + 1) =~= ix.take(p + 1));
    assert(idx_area(ix) == idx_area(pre).add(enc(d)));
    lemma_idx_bytes_tail(ix, p);
    if p + 1 == pre.len() {
        assert(pre.take(p + 1) =~= pre);
        assert(idx_area(ix).take(idx_area(pre).len() as int) =~= idx_area(pre));
    } else {
        lemma_idx_wf_take(ix, interval, q - 1);
        assert(ix.take(q) =~= pre);
        lemma_idx_area_split_last(pre, interval, p);
        let l = idx_area(ix.take(p + 1)).len() as int;
        lemma_idx_bytes_bound(pre, p);
        assert(l <= idx_area(pre).len());
        assert(idx_area(ix).take(l) =~= idx_area(pre).take(l));
    }
}
/// idx_bytes_after peels from the back as well
pub proof fn lemma_idx_bytes_tail(ix: Idx, p: int)
    requires 0 <= p, p + 1 < ix.len()
    ensures idx_bytes_after(ix, p) == idx_bytes_after(ix.drop_last(), p) + idx_entry_bytes(ix, ix.len() - 1)
    decreases ix.len() - p
{
    let pre = ix.drop_last();
    if p + 2 == ix.len() {
        assert(idx_bytes_after(pre, p) == 0);
        assert(idx_bytes_after(ix, p + 1) == 0);
    } else {
        lemma_idx_bytes_tail(ix, p + 1);
        assert(idx_entry_bytes(pre, p + 1) == idx_entry_bytes(ix, p + 1)) by { assert(pre[p + 1] == ix[p + 1]); assert(pre[p] == ix[p]); }
    }
}

/// what `strip_log_to` does: keep index entries 0..=p and the first k records, zero what was removed
pub open spec fn strip_step(o: LogInnerManager, n: LogInnerManager, p: int, k: nat) -> bool {
    let ix = o.indexs@;
    &&& 0 <= p < ix.len() && ix[p].log_index - o.start_index <= k < o.msg_count
    &&& (p + 1 < ix.len() ==> ix[p + 1].log_index - o.start_index > k)
    &&& n.header == o.header && n.start_index == o.start_index && n.file_len == o.file_len && n.msg_count == k
    &&& n.indexs@ == ix.take(p + 1)
    &&& n.index_cursor == o.index_cursor - idx_bytes_after(ix, p)
    &&& n.index_file.contents().len() == o.index_file.contents().len()
    &&& forall|i: int| 0 <= i < o.index_file.contents().len() ==> #[trigger] n.index_file.contents()[i] ==
            (if n.index_cursor <= i < o.index_cursor { 0u8 } else { o.index_file.contents()[i] })
    &&& n.data_cursor == 4096 + scan(o.recs(), k).0
    &&& n.data_file.contents().len() == o.data_file.contents().len()
    &&& forall|i: int| 0 <= i < o.data_file.contents().len() ==> #[trigger] n.data_file.contents()[i] ==
            (if i >= n.data_cursor { 0u8 } else { o.data_file.contents()[i] })
    &&& n.current_index_count == k - (ix[p].log_index - o.start_index)
    &&& (!n.need_seek_at_write ==> n.data_file.pos() == n.data_cursor)
}

pub proof fn lemma_strip_data(o: LogInnerManager, n: LogInnerManager, p: int, k: nat)
    requires o.wf_data(), o.wf_points(), strip_step(o, n, p, k)
    ensures n.wf_data(),
        n.data_file.contents().take(n.data_cursor as int) == o.data_file.contents().take(n.data_cursor as int),
        forall|j: nat| j <= k ==> #[trigger] scan(n.recs(), j) == scan(o.recs(), j),
{
    let s0 = o.recs();
    let s1 = n.recs();
    let k0 = o.msg_count as nat;
    lemma_scan_mono(s0, k, k0);
    lemma_scan_bounds(s0, k);
    let b = scan(s0, k).0;
    assert(n.data_file.contents().take(n.data_cursor as int) =~= o.data_file.contents().take(n.data_cursor as int));
    assert(s1.take(b) =~= s0.take(b)) by {
        assert forall|i: int| 0 <= i < b implies s1[i] == s0[i] by { assert(n.data_file.contents()[i + 4096] == o.data_file.contents()[i + 4096]); }
    }
    lemma_scan_prefix(s0, s1, k);
    lemma_ok_stream_prefixes_mono(s0, k, k0);
    lemma_ok_prefixes_prefix(s0, s1, k);
    lemma_scan_count(s1, k);
    assert(zero_from(n.data_file.contents(), n.data_cursor as int));
    assert forall|j: nat| j <= k implies #[trigger] scan(s1, j) == scan(s0, j) by {
        lemma_scan_mono(s0, j, k);
        lemma_scan_bounds(s0, j);
        assert(s1.take(scan(s0, j).0) =~= s0.take(scan(s0, j).0)) by {
            assert forall|i: int| 0 <= i < scan(s0, j).0 implies s1[i] == s0[i] by { assert(s1.take(b)[i] == s0.take(b)[i]); }
        }
        lemma_scan_prefix(s0, s1, j);
    }
}

/// two record streams scan alike for every count up to k
#[verifier::opaque]
pub open spec fn scans_agree(a: Seq<u8>, b: Seq<u8>, k: nat) -> bool {
    forall|j: nat| j <= k ==> #[trigger] scan(a, j) == scan(b, j)
}
pub proof fn lemma_scans_agree_at(a: Seq<u8>, b: Seq<u8>, k: nat, j: nat)
    requires scans_agree(a, b, k), j <= k
    ensures scan(a, j) == scan(b, j)
{
    reveal(scans_agree);
}

pub proof fn lemma_idx_wf_take(ix: Idx, interval: int, p: int)
    requires idx_wf(ix, interval), 0 <= p < ix.len()
    ensures idx_wf(ix.take(p + 1), interval)
{
    let nx = ix.take(p + 1);
    assert forall|j: int| 0 < j < nx.len() implies #[trigger] idx_adj(nx, interval, j) by { assert(idx_adj(ix, interval, j)); assert(nx[j] == ix[j]); assert(nx[j - 1] == ix[j - 1]); }
    assert forall|j: int| 0 <= j < nx.len() implies #[trigger] nx[j].file_index < 0x1_0000_0000 by { assert(nx[j] == ix[j]); }
}

pub proof fn lemma_strip_points(o: LogInnerManager, n: LogInnerManager, p: int, k: nat)
    requires o.wf_points(),
        0 <= p < o.indexs@.len(), o.indexs@[p].log_index - o.start_index <= k < o.msg_count,
        (p + 1 < o.indexs@.len() ==> o.indexs@[p + 1].log_index - o.start_index > k),
        n.header == o.header, n.start_index == o.start_index, n.msg_count == k,
        n.indexs@ == o.indexs@.take(p + 1),
        n.current_index_count == k - (o.indexs@[p].log_index - o.start_index),
        scans_agree(n.recs(), o.recs(), k),
    ensures n.wf_points()
{
    hide(scan);
    let ix = o.indexs@;
    let nx = n.indexs@;
    let interval = o.header.index_interval as int;
    lemma_idx_wf_take(ix, interval, p);
    assert(nx.len() == p + 1);
    assert(nx[0] == ix[0]);
    assert(nx.last() == ix[p]);
    assert forall|j: int| 0 <= j < nx.len() implies n.start_index <= #[trigger] nx[j].log_index <= n.start_index + n.msg_count by {
        assert(nx[j] == ix[j]);
        if j < p { lemma_idx_mono(ix, interval, j, p); }
    }
    assert forall|j: int| 0 <= j < nx.len() implies #[trigger] nx[j].file_index - 4096 == scan(n.recs(), (nx[j].log_index - n.start_index) as nat).0 by {
        assert(nx[j] == ix[j]);
        if j < p { lemma_idx_mono(ix, interval, j, p); }
        let jj = (ix[j].log_index - o.start_index) as nat;
        assert(jj <= k);
        lemma_scans_agree_at(n.recs(), o.recs(), k, jj);
        assert(ix[j].file_index - 4096 == scan(o.recs(), jj).0);
    }
    if p + 1 < ix.len() {
        assert(idx_adj(ix, interval, p + 1));
    } else {
        assert(ix.last() == ix[p]);
    }
}

pub proof fn lemma_strip_area(o: LogInnerManager, n: LogInnerManager, p: int, k: nat)
    requires o.wf_area(), o.wf_points(), strip_step(o, n, p, k)
    ensures n.wf_area()
{
    let ix = o.indexs@;
    let nx = n.indexs@;
    lemma_idx_area_split(ix, p);
    lemma_idx_bytes_bound(ix, p);
    assert(ix.take(p + 1) =~= nx);
    let a0 = o.index_file.contents();
    let a1 = n.index_file.contents();
    let l = idx_area(nx).len() as int;
    assert(l == n.index_cursor - 32);
    assert(n.index_file.contents().take(32) =~= o.index_file.contents().take(32));
    assert(a1.subrange(32, n.index_cursor as int) =~= idx_area(nx)) by {
        assert forall|i: int| 0 <= i < l implies a1.subrange(32, n.index_cursor as int)[i] == idx_area(nx)[i] by {
            assert(a0.subrange(32, o.index_cursor as int)[i] == a0[i + 32]);
            assert(idx_area(ix).take(l)[i] == idx_area(ix)[i]);
        }
    }
    // the start of the new last entry is not behind the start of the old last entry
    if nx.len() > 1 {
        let interval = o.header.index_interval as int;
        if p + 1 == ix.len() {
            assert(nx =~= ix);
        } else {
            let pre = ix.drop_last();
            lemma_idx_wf_take(ix, interval, ix.len() - 2);
            assert(ix.take(ix.len() - 1) =~= pre);
            assert(pre.take(p) =~= nx.drop_last());
            lemma_idx_area_split(pre, p - 1);
            lemma_idx_bytes_bound(pre, p - 1);
        }
    }
}

/// C03: truncation keeps the whole data-structure invariant: the first k records and nothing else remain
pub proof fn lemma_strip_wf(o: LogInnerManager, n: LogInnerManager, p: int, k: nat)
    requires o.wf(), strip_step(o, n, p, k)
    ensures n.wf(),
        n.data_file.contents().take(n.data_cursor as int) == o.data_file.contents().take(n.data_cursor as int),
{
    lemma_strip_data(o, n, p, k);
    assert(scans_agree(n.recs(), o.recs(), k)) by { reveal(scans_agree); }
    lemma_strip_points(o, n, p, k);
    lemma_strip_area(o, n, p, k);
}

/// ok_prefixes of fewer records
pub proof fn lemma_ok_stream_prefixes_mono(s: Seq<u8>, j: nat, k: nat)
    requires j <= k, ok_prefixes(s, k)
    ensures ok_prefixes(s, j)
    decreases j
{
    if j > 0 {
        match first_rec(s) {
            Some(n) => { lemma_first_rec_bounds(s); lemma_ok_stream_prefixes_mono(s.skip(n), (j - 1) as nat, (k - 1) as nat); },
            None => {}
        }
    }
}

/// ok_prefixes grows by one when the next record has a store-sized prefix
pub proof fn lemma_ok_prefixes_snoc(s: Seq<u8>, k: nat)
    requires scan(s, k).1 == k, ok_prefixes(s, k), 0 <= scan(s, k).0 <= s.len(),
        store_len(s.skip(scan(s, k).0)),
    ensures ok_prefixes(s, k + 1)
    decreases k
{
    lemma_scan_bounds(s, k);
    reveal_with_fuel(ok_prefixes, 2);
    if k == 0 { assert(s.skip(0) =~= s); } else {
        match first_rec(s) {
            Some(m) => {
                lemma_first_rec_bounds(s);
                let s2 = s.skip(m);
                let k1 = (k - 1) as nat;
                lemma_scan_bounds(s2, k1);
                assert(s2.skip(scan(s2, k1).0) =~= s.skip(scan(s, k).0));
                assert(ok_prefixes(s2, k1));
                lemma_ok_prefixes_snoc(s2, k1);
                assert(ok_prefixes(s2, (k1 + 1) as nat));
            },
            None => { assert(scan(s, k) == (0int, 0nat)); }
        }
    }
}

/// a stream that starts with a framed message (length >= 1, < 2^32) starts with exactly that record
pub proof fn lemma_frame_first_rec(s: Seq<u8>, body: Seq<u8>)
    requires 1 <= body.len() < 0x1_0000_0000,
        enc(body.len() as nat).len() + body.len() <= s.len(),
        s.take((enc(body.len() as nat).len() + body.len()) as int) == enc(body.len() as nat).add(body),
    ensures first_rec(s) == Some((enc(body.len() as nat).len() + body.len()) as int),
        vlen(s) == Some(enc(body.len() as nat).len() as int), vval(s) == body.len(),
        vlen(s).unwrap() <= 10, store_len(s),
{
    let n = body.len() as nat;
    let f = enc(n).len() + n;
    let rest = body.add(s.skip(f as int));
    lemma_dec_enc(n, rest);
    lemma_enc_len_table(n);
    assert(enc(n).add(rest) =~= s) by {
        assert(s.take(f as int).add(s.skip(f as int)) =~= s);
        assert(enc(n).add(body).add(s.skip(f as int)) =~= enc(n).add(rest));
    }
    assert(s[0] == enc(n)[0]);
    assert(enc(n)[0] != 0) by {
        if n < 128 { } else { let b = ((n % 128) + 128) as u8; assert(enc(n)[0] == b); }
    }
}

// ------------------------------------------------------------------ index area decode (read_indexs)
/// value `read_varint64_offset(..).unwrap_or(0)` yields at `off`
pub open spec fn read_at(s: Seq<u8>, off: int) -> nat {
    if 0 <= off < s.len() && vlen(s.skip(off)) is Some && vlen(s.skip(off)).unwrap() <= 10 && vval(s.skip(off)) <= u64::MAX { vval(s.skip(off)) } else { 0 }
}
/// index area written by the store: a varint of at most 10 bytes found at `off` is below 2^32
pub open spec fn idx_val_ok(s: Seq<u8>, off: int) -> bool {
    (vlen(s.skip(off)) is Some && vlen(s.skip(off)).unwrap() <= 10) ==> vval(s.skip(off)) < 0x1_0000_0000
}
/// deltas decoded from the index area, `next` being the value already read at `off`: stops at a zero delta or past `last_end`
pub open spec fn dec_from(s: Seq<u8>, off: int, next: nat, last_end: int) -> Seq<nat>
    decreases s.len() - off
{
    if next == 0 || off < 0 || off >= s.len() { seq![] } else {
        let off2 = off + enc_len(next);
        if off2 > last_end || off2 <= off || off2 >= s.len() { seq![next] } else { seq![next].add(dec_from(s, off2, read_at(s, off2), last_end)) }
    }
}
/// bytes the deltas occupy (canonical varints)
pub open spec fn deltas_bytes(d: Seq<nat>) -> int
    decreases d.len()
{
    if d.len() == 0 { 0 } else { deltas_bytes(d.drop_last()) + enc_len(d.last()) }
}
/// the in-memory index built from the first entry and the file-offset deltas
pub open spec fn idx_build(first: InnerIdxDto, interval: int, d: Seq<nat>) -> Seq<InnerIdxDto>
    decreases d.len()
{
    if d.len() == 0 { seq![first] } else {
        let p = idx_build(first, interval, d.drop_last());
        p.push(InnerIdxDto { log_index: (p.last().log_index + interval) as u64, file_index: (p.last().file_index + d.last()) as u64 })
    }
}
pub proof fn lemma_idx_build_len(first: InnerIdxDto, interval: int, d: Seq<nat>)
    ensures idx_build(first, interval, d).len() == d.len() + 1
    decreases d.len()
{
    if d.len() > 0 { lemma_idx_build_len(first, interval, d.drop_last()); }
}


// ------------------------------------------------------------------ C02: reopening a well-formed image rebuilds the same state
/// file-offset deltas of entries 1..len-1
pub open spec fn deltas(ix: Idx) -> Seq<nat>
    decreases ix.len()
{
    if ix.len() <= 1 { seq![] } else { deltas(ix.drop_last()).push((ix.last().file_index - ix[ix.len() - 2].file_index) as nat) }
}

/// a zero byte decodes as the value 0 (the end of the index area)
pub proof fn lemma_read_at_zero(a: Seq<u8>, c: int)
    requires 0 <= c < a.len(), a[c] == 0u8
    ensures read_at(a, c) == 0
{
    let s = a.skip(c);
    assert(s[0] == 0u8);
    assert(0u8 & 0x80 == 0) by(bit_vector);
    assert(vval(s) == 0);
}

/// decoding a buffer that starts with the encoded entries of ix consumes exactly their deltas and goes on behind them
pub proof fn lemma_dec_prefix(ix: Idx, interval: int, a: Seq<u8>, le: int)
    requires idx_wf(ix, interval), idx_area(ix).len() <= le, le < a.len(), a.take(idx_area(ix).len() as int) == idx_area(ix)
    ensures dec_from(a, 0, read_at(a, 0), le) == deltas(ix) + dec_from(a, idx_area(ix).len() as int, read_at(a, idx_area(ix).len() as int), le)
    decreases ix.len()
{
    let c = idx_area(ix).len() as int;
    if ix.len() <= 1 {
        assert(deltas(ix) + dec_from(a, 0, read_at(a, 0), le) =~= dec_from(a, 0, read_at(a, 0), le));
    } else {
        let q = ix.len() - 1;
        let pre = ix.drop_last();
        let d = (ix[q].file_index - ix[q - 1].file_index) as nat;
        let cp = idx_area(pre).len() as int;
        assert(idx_adj(ix, interval, q));
        lemma_enc_len_table(d);
        lemma_idx_wf_take(ix, interval, q - 1);
        assert(ix.take(q) =~= pre);
        assert(idx_area(ix) == idx_area(pre).add(enc(d)));
        assert(c == cp + enc_len(d));
        assert(a.take(cp) =~= idx_area(pre)) by { assert(a.take(cp) =~= a.take(c).take(cp)); assert(idx_area(ix).take(cp) =~= idx_area(pre)); }
        lemma_dec_prefix(pre, interval, a, le);
        // at cp the buffer holds enc(d) followed by the rest
        assert(a.skip(cp) =~= enc(d).add(a.skip(c))) by {
            assert forall|i: int| 0 <= i < a.len() - cp implies a.skip(cp)[i] == enc(d).add(a.skip(c))[i] by {
                if i < enc_len(d) { assert(a.take(c)[cp + i] == idx_area(ix)[cp + i]); assert(idx_area(ix)[cp + i] == enc(d)[i]); }
            }
        }
        lemma_dec_enc(d, a.skip(c));
        assert(read_at(a, cp) == d);
        assert(dec_from(a, cp, d, le) == seq![d].add(dec_from(a, c, read_at(a, c), le)));
        assert(deltas(ix) =~= deltas(pre).push(d));
        assert(deltas(pre) + (seq![d].add(dec_from(a, c, read_at(a, c), le))) =~= deltas(ix) + dec_from(a, c, read_at(a, c), le));
    }
}

pub proof fn lemma_deltas_props(ix: Idx, interval: int)
    requires idx_wf(ix, interval), ix[0].log_index + interval * (ix.len() - 1) <= u64::MAX
    ensures deltas(ix).len() == ix.len() - 1, deltas_bytes(deltas(ix)) == idx_area(ix).len(), idx_build(ix[0], interval, deltas(ix)) == ix
    decreases ix.len()
{
    if ix.len() <= 1 {
        assert(idx_build(ix[0], interval, deltas(ix)) =~= ix);
    } else {
        let q = ix.len() - 1;
        let pre = ix.drop_last();
        let d = (ix[q].file_index - ix[q - 1].file_index) as nat;
        assert(idx_adj(ix, interval, q));
        lemma_enc_len_table(d);
        lemma_idx_wf_take(ix, interval, q - 1);
        assert(ix.take(q) =~= pre);
        assert(interval * (pre.len() - 1) <= interval * (ix.len() - 1)) by(nonlinear_arith) requires interval > 0, pre.len() <= ix.len();
        lemma_deltas_props(pre, interval);
        assert(deltas(ix).drop_last() =~= deltas(pre));
        lemma_idx_mono_first(ix, interval, q);
        assert(idx_build(ix[0], interval, deltas(ix)) =~= ix);
    }
}

pub proof fn lemma_idx_mono_first(ix: Idx, interval: int, j: int)
    requires idx_wf(ix, interval), 0 <= j < ix.len()
    ensures ix[j].log_index == ix[0].log_index + interval * j
    decreases j
{
    if j > 0 {
        assert(idx_adj(ix, interval, j));
        lemma_idx_mono_first(ix, interval, j - 1);
        assert(interval * j == interval * (j - 1) + interval) by(nonlinear_arith);
    } else {
        assert(interval * 0 == 0) by(nonlinear_arith);
    }
}

/// C02: the index area of a well-formed file decodes to exactly the in-memory index (what read_indexs computes on reopen)
pub proof fn lemma_reopen_index(ix: Idx, interval: int, a: Seq<u8>)
    requires idx_wf(ix, interval), a.len() == 4064, idx_area(ix).len() <= 4058,
        a.take(idx_area(ix).len() as int) == idx_area(ix),
        forall|i: int| idx_area(ix).len() <= i < 4064 ==> #[trigger] a[i] == 0u8,
        ix.len() > 1 ==> idx_area(ix.drop_last()).len() <= 4054,
        ix[0].log_index + interval * (ix.len() - 1) <= u64::MAX,
    ensures ({
        let d = dec_from(a, 0, read_at(a, 0), 4054);
        d == deltas(ix) && idx_build(ix[0], interval, d) == ix && deltas_bytes(d) == idx_area(ix).len()
    })
{
    let c = idx_area(ix).len() as int;
    lemma_deltas_props(ix, interval);
    if c <= 4054 {
        lemma_dec_prefix(ix, interval, a, 4054);
        lemma_read_at_zero(a, c);
        assert(deltas(ix) + dec_from(a, c, 0, 4054) =~= deltas(ix));
    } else {
        let q = ix.len() - 1;
        let pre = ix.drop_last();
        let d = (ix[q].file_index - ix[q - 1].file_index) as nat;
        let cp = idx_area(pre).len() as int;
        assert(idx_adj(ix, interval, q));
        lemma_enc_len_table(d);
        lemma_idx_wf_take(ix, interval, q - 1);
        assert(ix.take(q) =~= pre);
        assert(a.take(cp) =~= idx_area(pre)) by { assert(a.take(cp) =~= a.take(c).take(cp)); assert(idx_area(ix).take(cp) =~= idx_area(pre)); }
        lemma_dec_prefix(pre, interval, a, 4054);
        assert(a.skip(cp) =~= enc(d).add(a.skip(c))) by {
            assert forall|i: int| 0 <= i < a.len() - cp implies a.skip(cp)[i] == enc(d).add(a.skip(c))[i] by {
                if i < enc_len(d) { assert(a.take(c)[cp + i] == idx_area(ix)[cp + i]); assert(idx_area(ix)[cp + i] == enc(d)[i]); }
            }
        }
        lemma_dec_enc(d, a.skip(c));
        assert(read_at(a, cp) == d);
        assert(dec_from(a, cp, d, 4054) == seq![d]);
        assert(deltas(ix) =~= deltas(pre).push(d));
        assert(deltas(pre) + seq![d] =~= deltas(ix));
    }
}


/// a varint read from the middle of an encoded value yields at most that value
pub proof fn lemma_enc_suffix(v: nat, j: int, rest: Seq<u8>)
    requires 0 <= j < enc(v).len()
    ensures vlen(enc(v).skip(j).add(rest)) is Some, vval(enc(v).skip(j).add(rest)) <= v
    decreases j
{
    if j == 0 {
        assert(enc(v).skip(0) =~= enc(v));
        lemma_dec_enc(v, rest);
    } else {
        lemma_enc_len(v);
        assert(v >= 128);
        assert(enc(v).skip(j) =~= enc(v / 128).skip(j - 1));
        lemma_enc_suffix(v / 128, j - 1, rest);
    }
}

/// every offset of an index area written by the store reads as a value below 2^32 (precondition of read_indexs)
pub proof fn lemma_area_val_ok(ix: Idx, interval: int, a: Seq<u8>, off: int)
    requires idx_wf(ix, interval), idx_area(ix).len() <= a.len(), a.take(idx_area(ix).len() as int) == idx_area(ix), 0 <= off < idx_area(ix).len()
    ensures idx_val_ok(a, off)
    decreases ix.len()
{
    let c = idx_area(ix).len() as int;
    if ix.len() > 1 {
        let q = ix.len() - 1;
        let pre = ix.drop_last();
        let d = (ix[q].file_index - ix[q - 1].file_index) as nat;
        let cp = idx_area(pre).len() as int;
        assert(idx_adj(ix, interval, q));
        lemma_enc_len_table(d);
        lemma_idx_wf_take(ix, interval, q - 1);
        assert(ix.take(q) =~= pre);
        assert(idx_area(ix) == idx_area(pre).add(enc(d)));
        if off < cp {
            assert(a.take(cp) =~= idx_area(pre)) by { assert(a.take(cp) =~= a.take(c).take(cp)); assert(idx_area(ix).take(cp) =~= idx_area(pre)); }
            lemma_area_val_ok(pre, interval, a, off);
        } else {
            let j = off - cp;
            assert(a.skip(off) =~= enc(d).skip(j).add(a.skip(c))) by {
                assert forall|i: int| 0 <= i < a.len() - off implies a.skip(off)[i] == enc(d).skip(j).add(a.skip(c))[i] by {
                    if i < enc_len(d) - j { assert(a.take(c)[off + i] == idx_area(ix)[off + i]); assert(idx_area(ix)[off + i] == enc(d)[j + i]); }
                }
            }
            lemma_enc_suffix(d, j, a.skip(c));
        }
    }
}

impl LogInnerManager {
    /// what is on disk: the index handle wrote the first 4 KiB, the data handle everything behind (A-SAMEFILE)
    pub open spec fn disk_image(&self) -> Seq<u8> { self.index_file.contents().take(4096) + self.data_file.contents().skip(4096) }
}

/// C02: for every well-formed state, decoding its disk image the way `init` does (read_indexs on bytes 32..4096, then the scan from
/// the last index entry to the first zero length) yields exactly the index, the cursors and the record count of that state
pub proof fn lemma_reopen(m: LogInnerManager)
    requires m.wf_lag()
    ensures ({
        let img = m.disk_image();
        let a = img.subrange(32, 4096);
        let first = InnerIdxDto { log_index: m.start_index, file_index: 4096 };
        let d = dec_from(a, 0, read_at(a, 0), 4054);
        let ix = idx_build(first, m.header.index_interval as int, d);
        let tail = img.skip(ix.last().file_index as int);
        let sc = scan(tail, 0xffff);
        &&& img.len() == m.file_len && img.len() > 4096
        &&& hdr_of(img.take(32)) == m.header
        &&& forall|off: int| 0 <= off < a.len() ==> #[trigger] idx_val_ok(a, off)
        &&& ix == m.indexs@ && 32 + deltas_bytes(d) == m.index_cursor
        &&& ok_stream(tail) && terminated(tail)
        &&& ix.last().file_index + sc.0 == m.data_cursor
        &&& ix.last().log_index - m.start_index + sc.1 == m.msg_count
        &&& 4096 <= ix.last().file_index <= img.len() && m.start_index <= ix.last().log_index
    })
{
    let img = m.disk_image();
    let ic = m.index_file.contents();
    let dc = m.data_file.contents();
    let a = img.subrange(32, 4096);
    let ix0 = m.indexs@;
    let interval = m.header.index_interval as int;
    let c = idx_area(ix0).len() as int;
    assert(img.len() == m.file_len);
    assert(img.take(32) =~= ic.take(32));
    assert(a =~= ic.subrange(32, 4096));
    assert(c == m.index_cursor - 32) by { assert(ic.subrange(32, m.index_cursor as int).len() == m.index_cursor - 32); }
    assert(a.take(c) =~= idx_area(ix0)) by { assert(a.take(c) =~= ic.subrange(32, m.index_cursor as int)); }
    assert forall|i: int| c <= i < 4064 implies #[trigger] a[i] == 0u8 by { assert(a[i] == ic[i + 32]); }
    let first = InnerIdxDto { log_index: m.start_index, file_index: 4096 };
    assert(ix0[0] == first);
    lemma_idx_mono_first(ix0, interval, ix0.len() - 1);
    assert(interval * (ix0.len() - 1) >= 0) by(nonlinear_arith) requires interval > 0, ix0.len() >= 1;
    lemma_reopen_index(ix0, interval, a);
    assert forall|off: int| 0 <= off < a.len() implies #[trigger] idx_val_ok(a, off) by {
        if off < c { lemma_area_val_ok(ix0, interval, a, off); }
        else {
            let s = a.skip(off);
            assert(s[0] == 0u8);
            assert(0u8 & 0x80 == 0) by(bit_vector);
            assert(vval(s) == 0);
        }
    }
    // the record stream behind the last index entry: the remaining records, then zeros
    let last = ix0.last();
    let kl = (last.log_index - m.start_index) as nat;
    let s0 = m.recs();
    let k0 = m.msg_count as nat;
    let fi = last.file_index as int;
    let suffix = img.skip(fi);
    assert(img.skip(4096) =~= s0);
    assert(fi >= 4096) by { if ix0.len() > 1 { lemma_idx_mono(ix0, interval, 0, ix0.len() - 1); } }
    lemma_scan_mono(s0, kl, k0);
    lemma_scan_bounds(s0, kl);
    assert(fi - 4096 == scan(s0, kl).0);
    assert(suffix =~= s0.skip(scan(s0, kl).0));
    let rest = (k0 - kl) as nat;
    assert(kl + rest == k0);
    lemma_ok_prefixes_suffix(s0, kl, rest);
    lemma_scan_split(s0, kl, rest);
    assert forall|i: int| scan(suffix, rest).0 <= i < suffix.len() implies suffix[i] == 0u8 by {
        assert(dc[i + fi] == 0u8);
    }
    lemma_records_then_zeros(suffix, rest);
    assert(rest <= 0xffff);
    assert(scan(suffix, 0xffff) == scan(suffix, rest));
    lemma_scan_bounds(suffix, rest);
}


// ------------------------------------------------------------------ C04: crash points of one log file
/// `img` is the disk state of a log that a reopen recovers as `m` (lemma_reopen): a ghost witness, its in-memory counter is irrelevant
pub open spec fn image_of(img: Seq<u8>, m: LogInnerManager) -> bool { m.wf_lag() && m.disk_image() == img }

/// the records `o` held are where they were, byte for byte
pub open spec fn keeps_records(o: LogInnerManager, m: LogInnerManager) -> bool {
    &&& m.header == o.header && m.start_index == o.start_index
    &&& forall|j: nat| j <= o.msg_count ==> #[trigger] scan(m.recs(), j) == scan(o.recs(), j)
    &&& m.recs().take(o.used()) == o.recs().take(o.used())
}

/// C04, append: at every instant between two file mutations of `write` the disk holds the log as it was, or the log with exactly
/// the new record behind it — never a partial or a foreign entry, never an index entry that points behind the data
pub open spec fn crash_ok_append(o: LogInnerManager, img: Seq<u8>, body: Seq<u8>) -> bool {
    exists|m: LogInnerManager| #[trigger] image_of(img, m) && keeps_records(o, m)
        && (m.msg_count == o.msg_count
            || (m.msg_count == o.msg_count + 1 && m.used() == o.used() + enc(body.len() as nat).len() + body.len()
                && m.recs().subrange(o.used(), m.used()) == enc(body.len() as nat).add(body)))
}

/// every finite sequence is the view of some Vec (used only to name a ghost witness state; std Vec holds up to isize::MAX elements)
pub axiom fn axiom_vec_of_seq<T>(s: Seq<T>)
    requires s.len() < 0x1_0000
    ensures exists|v: Vec<T>| #[trigger] v@ == s;

/// the data file grown by zeros (set_len): same log, still well formed
pub proof fn lemma_grow_wf(o: LogInnerManager, n: LogInnerManager)
    requires o.wf(),
        n.header == o.header && n.start_index == o.start_index && n.msg_count == o.msg_count && n.data_cursor == o.data_cursor
            && n.indexs == o.indexs && n.index_cursor == o.index_cursor && n.index_file.contents() == o.index_file.contents()
            && n.current_index_count == o.current_index_count && n.need_seek_at_write == o.need_seek_at_write,
        !n.need_seek_at_write ==> n.data_file.pos() == n.data_cursor,
        n.file_len == n.data_file.contents().len(), o.file_len <= n.file_len < 0x1_0000_0000,
        n.data_file.contents().take(o.file_len as int) == o.data_file.contents(),
        zero_from(n.data_file.contents(), o.file_len as int),
    ensures n.wf(), keeps_records(o, n)
{
    let d0 = o.data_file.contents();
    let d1 = n.data_file.contents();
    let s0 = o.recs();
    let s1 = n.recs();
    let k = o.msg_count as nat;
    let b = o.used();
    assert forall|i: int| 0 <= i < d0.len() implies d1[i] == d0[i] by { assert(d1.take(o.file_len as int)[i] == d0[i]); }
    assert(s1.take(b) =~= s0.take(b));
    lemma_scan_prefix(s0, s1, k);
    lemma_ok_prefixes_prefix(s0, s1, k);
    assert forall|j: nat| j <= k implies #[trigger] scan(s1, j) == scan(s0, j) by {
        lemma_scan_mono(s0, j, k);
        lemma_scan_bounds(s0, j);
        assert(s1.take(scan(s0, j).0) =~= s0.take(scan(s0, j).0));
        lemma_scan_prefix(s0, s1, j);
    }
    assert forall|i: int| n.data_cursor <= i < d1.len() implies #[trigger] d1[i] == 0u8 by { if i < d0.len() { assert(d0[i] == 0u8); } }
    assert forall|j: int| 0 <= j < n.indexs@.len() implies #[trigger] n.indexs@[j].file_index - 4096 == scan(s1, (n.indexs@[j].log_index - n.start_index) as nat).0 by {
        let jj = (o.indexs@[j].log_index - o.start_index) as nat;
        assert(jj <= k);
        assert(scan(s1, jj) == scan(s0, jj));
    }
}

/// the record is on disk, the index entry of a complete interval is not (yet): a reopen finds the longer log
pub proof fn lemma_write_lag(o: LogInnerManager, n: LogInnerManager, body: Seq<u8>)
    requires o.wf(), write_data_step(o, n, body),
        n.indexs == o.indexs && n.index_cursor == o.index_cursor && n.index_file == o.index_file,
    ensures n.wf_lag(), keeps_records(o, n)
{
    lemma_write_data(o, n, body);
    let ix = o.indexs@;
    assert forall|j: int| 0 <= j < ix.len() implies #[trigger] ix[j].file_index - 4096 == scan(n.recs(), (ix[j].log_index - n.start_index) as nat).0 by {
        let jj = (ix[j].log_index - o.start_index) as nat;
        assert(jj <= o.msg_count);
        assert(scan(n.recs(), jj) == scan(o.recs(), jj));
    }
    assert(n.recs().take(o.used()) =~= o.recs().take(o.used())) by {
        let c0 = o.data_cursor as int;
        assert forall|i: int| 0 <= i < o.used() implies n.recs()[i] == o.recs()[i] by {
            assert(n.data_file.contents().take(c0)[i + 4096] == o.data_file.contents().take(c0)[i + 4096]);
        }
    }
}

/// write_data_step without the cursor position of the handle (a ghost witness of a disk image has no use for it)
pub open spec fn write_data_img(o: LogInnerManager, n: LogInnerManager, body: Seq<u8>) -> bool {
    &&& o.data_cursor < 2_000_000_000 && o.index_cursor + 10 < 4096
    &&& 1 <= body.len() < 0x1000_0000
    &&& n.header == o.header && n.start_index == o.start_index && n.msg_count == o.msg_count + 1
    &&& n.data_cursor == o.data_cursor + enc(body.len() as nat).len() + body.len()
    &&& n.file_len == n.data_file.contents().len() && n.data_cursor < n.file_len && n.file_len < 0x1_0000_0000
    &&& appended(o.data_file.contents(), n.data_file.contents(), o.data_cursor as int, enc(body.len() as nat).add(body))
    &&& n.need_seek_at_write
}
/// candidate witnesses of a disk image during `write`, built from the state at entry and the CURRENT contents of the two handles
/// only (so that the same proof script fits every crash point, wherever the writes stand):
/// (a) nothing happened but zeros behind the old end of the file
pub open spec fn wit_grown(o: LogInnerManager, cur: LogInnerManager) -> LogInnerManager {
    LogInnerManager { data_file: cur.data_file, index_file: cur.index_file, file_len: cur.data_file.contents().len() as u64, need_seek_at_write: true, ..o }
}
/// (b) the record is behind the old records, the index is as it was
pub open spec fn wit_data(o: LogInnerManager, cur: LogInnerManager, body: Seq<u8>) -> LogInnerManager {
    LogInnerManager { data_file: cur.data_file, index_file: cur.index_file, file_len: cur.data_file.contents().len() as u64, need_seek_at_write: true,
        data_cursor: (o.data_cursor + enc(body.len() as nat).len() + body.len()) as u64, msg_count: (o.msg_count + 1) as u64, ..o }
}
/// (c) the record and the index entry of the interval it completes
pub open spec fn wit_both(o: LogInnerManager, cur: LogInnerManager, body: Seq<u8>, v: Vec<InnerIdxDto>) -> LogInnerManager {
    let dcur = (o.data_cursor + enc(body.len() as nat).len() + body.len()) as u64;
    LogInnerManager { data_file: cur.data_file, index_file: cur.index_file, file_len: cur.data_file.contents().len() as u64, need_seek_at_write: true,
        data_cursor: dcur, msg_count: (o.msg_count + 1) as u64, indexs: v,
        index_cursor: (o.index_cursor + enc((dcur - o.indexs@.last().file_index) as nat).len()) as u64, current_index_count: 0, ..o }
}
pub open spec fn grown_by_zeros(d0: Seq<u8>, d1: Seq<u8>) -> bool {
    &&& d0.len() <= d1.len() < 0x1_0000_0000
    &&& forall|i: int| 0 <= i < d0.len() ==> #[trigger] d1[i] == d0[i]
    &&& forall|i: int| d0.len() <= i < d1.len() ==> #[trigger] d1[i] == 0u8
}
pub open spec fn appended_at(d0: Seq<u8>, d1: Seq<u8>, c0: int, frame: Seq<u8>) -> bool {
    &&& 4096 <= c0 && c0 + frame.len() < d1.len() < 0x1_0000_0000
    &&& forall|i: int| 0 <= i < c0 ==> #[trigger] d1[i] == d0[i]
    &&& forall|i: int| 0 <= i < frame.len() ==> #[trigger] d1[c0 + i] == frame[i]
    &&& forall|i: int| c0 + frame.len() <= i < d1.len() ==> #[trigger] d1[i] == 0u8
}

/// the crash-point step of `write`: whichever of the three shapes the two files are in, the image has a witness
pub proof fn lemma_crash_append_step(o: LogInnerManager, cur: LogInnerManager, body: Seq<u8>)
    requires o.wf(), o.data_cursor < 2_000_000_000 && o.index_cursor + 10 < 4096, 1 <= body.len() < 0x1000_0000,
        ({
            let d0 = o.data_file.contents(); let d1 = cur.data_file.contents();
            let i0 = o.index_file.contents(); let i1 = cur.index_file.contents();
            let c0 = o.data_cursor as int;
            let frame = enc(body.len() as nat).add(body);
            let dcur = c0 + frame.len();
            let delta = (dcur - o.indexs@.last().file_index) as nat;
            ||| (i1 == i0 && grown_by_zeros(d0, d1))
            ||| (i1 == i0 && appended_at(d0, d1, c0, frame))
            ||| (o.current_index_count + 1 == o.header.index_interval && appended_at(d0, d1, c0, frame)
                 && i1.len() == i0.len()
                 && (forall|i: int| 0 <= i < enc(delta).len() ==> #[trigger] i1[o.index_cursor + i] == enc(delta)[i])
                 && (forall|i: int| 0 <= i < i0.len() && !(o.index_cursor <= i < o.index_cursor + enc(delta).len()) ==> #[trigger] i1[i] == i0[i]))
        }),
    ensures crash_ok_append(o, cur.disk_image(), body)
{
    let d0 = o.data_file.contents(); let d1 = cur.data_file.contents();
    let i0 = o.index_file.contents(); let i1 = cur.index_file.contents();
    let c0 = o.data_cursor as int;
    let frame = enc(body.len() as nat).add(body);
    let dcur = c0 + frame.len();
    let delta = (dcur - o.indexs@.last().file_index) as nat;
    lemma_enc_len_table(body.len() as nat);
    if i1 == i0 && grown_by_zeros(d0, d1) {
        let w = wit_grown(o, cur);
        let o2 = LogInnerManager { need_seek_at_write: true, ..o };
        assert(o2.wf());
        assert(d1.take(o.file_len as int) =~= d0);
        assert(zero_from(d1, o.file_len as int));
        lemma_grow_wf(o2, w);
        assert(o2.recs() == o.recs());
        assert(w.disk_image() == cur.disk_image());
        assert(image_of(cur.disk_image(), w) && keeps_records(o, w));
    } else if i1 == i0 {
        let w = wit_data(o, cur, body);
        assert(d1.take(c0) =~= d0.take(c0));
        assert(d1.subrange(c0, c0 + frame.len()) =~= frame) by {
            assert forall|i: int| 0 <= i < frame.len() implies d1.subrange(c0, c0 + frame.len())[i] == frame[i] by { assert(d1[c0 + i] == frame[i]); }
        }
        assert(zero_from(d1, c0 + frame.len()));
        let o2 = LogInnerManager { need_seek_at_write: true, ..o };
        assert(o2.wf());
        let w2 = LogInnerManager { need_seek_at_write: false, ..w };
        lemma_write_lag_img(o2, w, body);
        assert(w.recs().subrange(o.used(), w.used()) =~= frame);
        assert(w.disk_image() == cur.disk_image());
        assert(image_of(cur.disk_image(), w) && keeps_records(o, w));
    } else {
        let e = InnerIdxDto { log_index: (o.msg_count + 1 + o.header.first_index) as u64, file_index: dcur as u64 };
        axiom_vec_of_seq(o.indexs@.push(e));
        let v = choose|v: Vec<InnerIdxDto>| #[trigger] v@ == o.indexs@.push(e);
        let w = wit_both(o, cur, body, v);
        assert(d1.take(c0) =~= d0.take(c0));
        assert(d1.subrange(c0, c0 + frame.len()) =~= frame) by {
            assert forall|i: int| 0 <= i < frame.len() implies d1.subrange(c0, c0 + frame.len())[i] == frame[i] by { assert(d1[c0 + i] == frame[i]); }
        }
        assert(zero_from(d1, c0 + frame.len()));
        lemma_scan_mono(o.recs(), (o.indexs@.last().log_index - o.start_index) as nat, o.msg_count as nat);
        lemma_enc_len(body.len() as nat);
        lemma_enc_len_table(delta);
        lemma_idx_area_len(o.indexs@);
        let o2 = LogInnerManager { need_seek_at_write: true, ..o };
        assert(o2.wf());
        assert(i1.subrange(o.index_cursor as int, w.index_cursor as int) =~= enc(delta)) by {
            assert forall|i: int| 0 <= i < enc(delta).len() implies i1.subrange(o.index_cursor as int, w.index_cursor as int)[i] == enc(delta)[i] by { assert(i1[o.index_cursor + i] == enc(delta)[i]); }
        }
        lemma_write_both_img(o2, w, body);
        assert(w.recs().subrange(o.used(), w.used()) =~= frame);
        assert(w.disk_image() == cur.disk_image());
        assert(image_of(cur.disk_image(), w) && keeps_records(o, w));
    }
}

pub proof fn lemma_write_data_img(o: LogInnerManager, n: LogInnerManager, body: Seq<u8>)
    requires o.wf_data(), write_data_img(o, n, body)
    ensures n.wf_data(),
        forall|j: nat| j <= o.msg_count ==> #[trigger] scan(n.recs(), j) == scan(o.recs(), j),
        scan(n.recs(), n.msg_count as nat) == (n.used(), n.msg_count as nat),
        n.recs().take(o.used()) == o.recs().take(o.used()),
{
    lemma_append_stream(o.data_file.contents(), n.data_file.contents(), o.data_cursor as int, o.msg_count as nat, body);
    lemma_enc_len_table(body.len() as nat);
    lemma_scan_count(n.recs(), n.msg_count as nat);
    assert(n.recs().take(o.used()) =~= o.recs().take(o.used())) by {
        let c0 = o.data_cursor as int;
        assert forall|i: int| 0 <= i < o.used() implies n.recs()[i] == o.recs()[i] by {
            assert(n.data_file.contents().take(c0)[i + 4096] == o.data_file.contents().take(c0)[i + 4096]);
        }
    }
}
pub proof fn lemma_write_lag_img(o: LogInnerManager, n: LogInnerManager, body: Seq<u8>)
    requires o.wf(), write_data_img(o, n, body),
        n.indexs == o.indexs && n.index_cursor == o.index_cursor && n.index_file.contents() == o.index_file.contents(),
    ensures n.wf_lag(), keeps_records(o, n)
{
    lemma_write_data_img(o, n, body);
    let ix = o.indexs@;
    assert forall|j: int| 0 <= j < ix.len() implies #[trigger] ix[j].file_index - 4096 == scan(n.recs(), (ix[j].log_index - n.start_index) as nat).0 by {
        let jj = (ix[j].log_index - o.start_index) as nat;
        assert(jj <= o.msg_count);
        assert(scan(n.recs(), jj) == scan(o.recs(), jj));
    }
}
pub proof fn lemma_write_both_img(o: LogInnerManager, n: LogInnerManager, body: Seq<u8>)
    requires o.wf(), write_data_img(o, n, body), write_idx_push(o, n),
    ensures n.wf(), keeps_records(o, n)
{
    lemma_write_data_img(o, n, body);
    lemma_scan_count(n.recs(), n.msg_count as nat);
    lemma_scan_mono(o.recs(), (o.indexs@.last().log_index - o.start_index) as nat, o.msg_count as nat);
    lemma_enc_len(body.len() as nat);
    lemma_write_points_push(o, n);
    lemma_write_area_push(o, n);
}

/// C04, append — what the invariant means for the reopen: the recovered record count is the old one or one more, the old records
/// are untouched, and the image opens (header, index area and record stream are those of a well-formed log)
pub proof fn lemma_crash_append_meaning(o: LogInnerManager, img: Seq<u8>, body: Seq<u8>)
    requires o.wf(), crash_ok_append(o, img, body)
    ensures ({
        let a = img.subrange(32, 4096);
        let first = InnerIdxDto { log_index: o.start_index, file_index: 4096 };
        let d = dec_from(a, 0, read_at(a, 0), 4054);
        let ix = idx_build(first, o.header.index_interval as int, d);
        let tail = img.skip(ix.last().file_index as int);
        let sc = scan(tail, 0xffff);
        let count = ix.last().log_index - o.start_index + sc.1;
        &&& img.len() > 4096 && hdr_of(img.take(32)) == o.header
        &&& ok_stream(tail) && terminated(tail)
        &&& (count == o.msg_count || count == o.msg_count + 1)
        &&& img.skip(4096).take(o.used()) == o.recs().take(o.used())
    })
{
    let m = choose|m: LogInnerManager| #[trigger] image_of(img, m) && keeps_records(o, m)
        && (m.msg_count == o.msg_count
            || (m.msg_count == o.msg_count + 1 && m.used() == o.used() + enc(body.len() as nat).len() + body.len()
                && m.recs().subrange(o.used(), m.used()) == enc(body.len() as nat).add(body)));
    lemma_reopen(m);
    assert(img.skip(4096) =~= m.recs());
}

// ------------------------------------------------------------------ C04: crash points of a truncation
/// C04, truncation: at every instant between the two zeroing writes of `strip_log_to` the disk holds a PREFIX of the log as it
/// was that is at least as long as the cut asks for (the removal is not acknowledged yet: the longer log is a legal outcome),
/// with the records below the cut byte for byte
pub open spec fn crash_ok_strip(o: LogInnerManager, img: Seq<u8>, k: nat) -> bool {
    exists|m: LogInnerManager| #[trigger] image_of(img, m) && m.header == o.header && m.start_index == o.start_index
        && k <= m.msg_count <= o.msg_count
        && (forall|j: nat| j <= m.msg_count ==> #[trigger] scan(m.recs(), j) == scan(o.recs(), j))
        && m.recs().take(scan(o.recs(), k).0) == o.recs().take(scan(o.recs(), k).0)
}

/// the index part of strip_step: entries above p popped, their bytes zeroed
pub open spec fn strip_idx_shape(o: LogInnerManager, a1: Seq<u8>, p: int) -> bool {
    let ix = o.indexs@;
    let a0 = o.index_file.contents();
    let nc = o.index_cursor - idx_bytes_after(ix, p);
    &&& a1.len() == a0.len()
    &&& forall|i: int| 0 <= i < a0.len() ==> #[trigger] a1[i] == (if nc <= i < o.index_cursor { 0u8 } else { a0[i] })
}
pub open spec fn strip_data_shape(o: LogInnerManager, d1: Seq<u8>, k: nat) -> bool {
    let d0 = o.data_file.contents();
    let dc = 4096 + scan(o.recs(), k).0;
    &&& d1.len() == d0.len()
    &&& forall|i: int| 0 <= i < d0.len() ==> #[trigger] d1[i] == (if i >= dc { 0u8 } else { d0[i] })
}

/// the crash-point step of `strip_log_to`: index entries popped (data as it was, or zeroed behind the cut as well)
pub proof fn lemma_crash_strip_step(o: LogInnerManager, cur: LogInnerManager, p: int, k: nat)
    requires o.wf(),
        0 <= p < o.indexs@.len(), o.indexs@[p].log_index - o.start_index <= k < o.msg_count,
        (p + 1 < o.indexs@.len() ==> o.indexs@[p + 1].log_index - o.start_index > k),
        // the reopen scan walks at most 0xffff records behind the last index entry
        o.msg_count - (o.indexs@[p].log_index - o.start_index) <= 0xffff,
        strip_idx_shape(o, cur.index_file.contents(), p),
        cur.data_file.contents() == o.data_file.contents() || strip_data_shape(o, cur.data_file.contents(), k),
    ensures crash_ok_strip(o, cur.disk_image(), k)
{
    let ix = o.indexs@;
    let interval = o.header.index_interval as int;
    axiom_vec_of_seq(ix.take(p + 1));
    let v = choose|v: Vec<InnerIdxDto>| #[trigger] v@ == ix.take(p + 1);
    let nc = (o.index_cursor - idx_bytes_after(ix, p)) as u64;
    lemma_idx_bytes_bound(ix, p);
    lemma_idx_area_split(ix, p);
    lemma_idx_area_len(ix);
    let dzero = cur.data_file.contents() != o.data_file.contents();
    let kk: nat = if dzero { k } else { o.msg_count as nat };
    let w = LogInnerManager { indexs: v, index_cursor: nc, index_file: cur.index_file, data_file: cur.data_file, need_seek_at_write: true,
        msg_count: kk as u64, data_cursor: (4096 + scan(o.recs(), kk).0) as u64,
        current_index_count: (kk - (ix[p].log_index - o.start_index)) as u16, ..o };
    lemma_scan_mono(o.recs(), kk, o.msg_count as nat);
    lemma_scan_bounds(o.recs(), kk);
    lemma_scan_count(o.recs(), kk);
    // the full step relation for the witness (strip to kk records with the index cut at p)
    if dzero {
        assert(strip_step(o, w, p, k));
        lemma_strip_wf(o, w, p, k);
        assert(w.wf_lag());
        lemma_strip_data(o, w, p, k);
        assert(w.recs().take(scan(o.recs(), k).0) =~= o.recs().take(scan(o.recs(), k).0)) by {
            let c = w.data_cursor as int;
            assert forall|i: int| 0 <= i < scan(o.recs(), k).0 implies w.recs()[i] == o.recs()[i] by {
                assert(w.data_file.contents().take(c)[i + 4096] == o.data_file.contents().take(c)[i + 4096]);
            }
        }
    } else {
        // data untouched: the old data part, the shorter index — the index lags
        assert(w.wf_data());
        lemma_idx_wf_take(ix, interval, p);
        assert forall|j: int| 0 <= j < w.indexs@.len() implies o.start_index <= #[trigger] w.indexs@[j].log_index <= o.start_index + w.msg_count by { assert(w.indexs@[j] == ix[j]); }
        assert forall|j: int| 0 <= j < w.indexs@.len() implies #[trigger] w.indexs@[j].file_index - 4096 == scan(w.recs(), (w.indexs@[j].log_index - w.start_index) as nat).0 by { assert(w.indexs@[j] == ix[j]); }
        assert(w.wf_points_lag());
        lemma_strip_area_idx(o, w, p);
        assert(w.wf_lag());
    }
    assert(w.disk_image() == cur.disk_image());
    assert(image_of(cur.disk_image(), w));
}

/// lemma_strip_area for the index part alone
pub proof fn lemma_strip_area_idx(o: LogInnerManager, n: LogInnerManager, p: int)
    requires o.wf_area(), o.wf_points(), 0 <= p < o.indexs@.len(), n.header == o.header,
        n.indexs@ == o.indexs@.take(p + 1), n.index_cursor == o.index_cursor - idx_bytes_after(o.indexs@, p),
        strip_idx_shape(o, n.index_file.contents(), p),
    ensures n.wf_area()
{
    let ix = o.indexs@;
    let nx = n.indexs@;
    lemma_idx_area_split(ix, p);
    lemma_idx_bytes_bound(ix, p);
    assert(ix.take(p + 1) =~= nx);
    let a0 = o.index_file.contents();
    let a1 = n.index_file.contents();
    let l = idx_area(nx).len() as int;
    assert(l == n.index_cursor - 32);
    assert(n.index_file.contents().take(32) =~= o.index_file.contents().take(32));
    assert(a1.subrange(32, n.index_cursor as int) =~= idx_area(nx)) by {
        assert forall|i: int| 0 <= i < l implies a1.subrange(32, n.index_cursor as int)[i] == idx_area(nx)[i] by {
            assert(a0.subrange(32, o.index_cursor as int)[i] == a0[i + 32]);
            assert(idx_area(ix).take(l)[i] == idx_area(ix)[i]);
        }
    }
    if nx.len() > 1 {
        let interval = o.header.index_interval as int;
        if p + 1 == ix.len() {
            assert(nx =~= ix);
        } else {
            let pre = ix.drop_last();
            lemma_idx_wf_take(ix, interval, ix.len() - 2);
            assert(ix.take(ix.len() - 1) =~= pre);
            assert(pre.take(p) =~= nx.drop_last());
            lemma_idx_area_split(pre, p - 1);
            lemma_idx_bytes_bound(pre, p - 1);
        }
    }
}

/// the records of a well-formed log are what FileMessageReader expects (canonical 32-bit length prefixes seen through its 10-byte window)
pub proof fn lemma_ok_prefixes_store_stream(s: Seq<u8>, k: nat)
    requires ok_prefixes(s, k), has_records(s, k)
    ensures store_stream(s, k)
    decreases k
{
    if k > 0 {
        lemma_records_step(s, (k - 1) as nat);
        let n = first_rec(s).unwrap();
        assert(vlen(s) is Some);
        assert(s.skip(0) =~= s);
        lemma_window_prefix(s, 0);
        lemma_ok_prefixes_store_stream(s.skip(n), (k - 1) as nat);
    }
}


// ------------------------------------------------------------------ reading entries back (read_records)
/// framed bytes (length prefix + body) of record number j (0-based) of a record stream
pub open spec fn frame_at(s: Seq<u8>, j: nat) -> Seq<u8> { s.subrange(scan(s, j).0, scan(s, j + 1).0) }
/// THE message whose length-prefixed image is f (unique: shims/protobuf.rs)
pub open spec fn frame_msg(f: Seq<u8>) -> LogRecord { choose|m: LogRecord| pb_frame(m) == f }

/// what BytesReader::read_message returns on a complete record is the message of that record
pub proof fn lemma_read_message_is_frame(m: LogRecord, v: Seq<u8>)
    requires vlen(v) is Some, v.len() == vlen(v).unwrap() + vval(v), pb_frame(m).len() <= v.len(), v.take(pb_frame(m).len() as int) == pb_frame(m)
    ensures pb_frame(m) == v, frame_msg(v) == m
{
    let l = m.pb_bytes().len() as nat;
    let pf = pb_frame(m);
    let rest = m.pb_bytes().add(v.skip(pf.len() as int));
    assert(v =~= enc(l).add(rest)) by {
        assert(v.take(pf.len() as int).add(v.skip(pf.len() as int)) =~= v);
        assert(enc(l).add(m.pb_bytes()).add(v.skip(pf.len() as int)) =~= enc(l).add(rest));
    }
    lemma_dec_enc(l, rest);
    assert(pf.len() == v.len());
    assert(v.take(v.len() as int) =~= v);
    let w = frame_msg(v);
    assert(pb_frame(w) == v);
    assert(v.take(pb_frame(w).len() as int) =~= v);
    axiom_pb_frame_unique(m, w, v);
}

/// record j of a stream is the first record of the stream behind the first j records
pub proof fn lemma_frame_at(s: Seq<u8>, j: nat)
    requires scan(s, j + 1).1 == j + 1
    ensures scan(s, j).1 == j, first_rec(s.skip(scan(s, j).0)) is Some,
        scan(s, j + 1).0 == scan(s, j).0 + first_rec(s.skip(scan(s, j).0)).unwrap(),
        frame_at(s, j) == s.skip(scan(s, j).0).take(first_rec(s.skip(scan(s, j).0)).unwrap()),
{
    lemma_scan_mono(s, j, j + 1);
    lemma_scan_bounds(s, j);
    lemma_scan_split(s, j, 1);
    let t = s.skip(scan(s, j).0);
    assert(scan(t, 1).1 == 1);
    match first_rec(t) {
        Some(n) => { lemma_first_rec_bounds(t); assert(scan(t.skip(n), 0) == (0int, 0nat)); assert(frame_at(s, j) =~= t.take(n)); },
        None => { assert(scan(t, 1) == (0int, 0nat)); }
    }
}


/// everything read_records needs to know about the file before it starts reading entries a..b from index entry p
pub proof fn lemma_read_setup(o: LogInnerManager, a: u64, b: u64, p: int)
    requires o.wf(), o.start_index <= a, a < b, b <= o.start_index + o.msg_count, 0 <= p < o.indexs@.len(), o.indexs@[p].log_index <= a
    ensures ({
        let s0 = o.recs();
        let cts = o.data_file.contents();
        let ix = o.indexs@;
        let fi = ix[p].file_index as int;
        let nn = (a - ix[p].log_index) as nat;
        let aj = (a - o.start_index) as nat;
        let cnt = (b - a) as nat;
        let rest = cts.skip(fi);
        let from = s0.skip(scan(s0, aj).0);
        &&& 4096 <= fi <= cts.len()
        &&& has_records(rest, (nn + 1) as nat) && store_stream(rest, (nn + 1) as nat)
        &&& fi + off_after(rest, nn) == 4096 + scan(s0, aj).0
        &&& 0 <= scan(s0, aj).0 && 4096 + scan(s0, aj).0 <= cts.len()
        &&& from == cts.skip(4096 + scan(s0, aj).0)
        &&& ok_stream(from) && terminated(from) && scan(from, cnt).1 == cnt
    })
{
    let s0 = o.recs();
    let cts = o.data_file.contents();
    let ix = o.indexs@;
    let k0 = o.msg_count as nat;
    let jj = (ix[p].log_index - o.start_index) as nat;
    let fi = ix[p].file_index as int;
    let nn = (a - ix[p].log_index) as nat;
    let aj = (a - o.start_index) as nat;
    let cnt = (b - a) as nat;
    let rest = cts.skip(fi);
    let from = s0.skip(scan(s0, aj).0);
    lemma_scan_mono(s0, jj, k0);
    lemma_scan_bounds(s0, jj);
    assert(fi - 4096 == scan(s0, jj).0);
    assert(rest =~= s0.skip(scan(s0, jj).0));
    lemma_scan_mono(s0, (jj + nn + 1) as nat, k0);
    lemma_scan_split(s0, jj, (nn + 1) as nat);
    lemma_ok_stream_prefixes_mono(s0, (jj + nn + 1) as nat, k0);
    lemma_ok_prefixes_suffix(s0, jj, (nn + 1) as nat);
    lemma_ok_prefixes_store_stream(rest, (nn + 1) as nat);
    lemma_scan_mono(s0, (jj + nn) as nat, k0);
    lemma_scan_split(s0, jj, nn);
    assert(jj + nn == aj);
    lemma_scan_mono(s0, aj, k0);
    lemma_scan_bounds(s0, aj);
    let restk = (k0 - aj) as nat;
    assert(aj + restk == k0);
    lemma_ok_prefixes_suffix(s0, aj, restk);
    lemma_scan_split(s0, aj, restk);
    assert forall|i: int| scan(from, restk).0 <= i < from.len() implies from[i] == 0u8 by {
        assert(cts[i + 4096 + scan(s0, aj).0] == 0u8);
    }
    lemma_records_then_zeros(from, restk);
    lemma_scan_mono(from, cnt, restk);
    assert(from =~= cts.skip(4096 + scan(s0, aj).0));
}


/// D is what a well-formed state m left on disk (A-SAMEFILE: index handle wrote the first 4 KiB, data handle the rest)
pub open spec fn is_image_of(d: Seq<u8>, m: LogInnerManager, start_index: u64) -> bool {
    m.wf() && m.start_index == start_index && d == m.disk_image()
}
/// the reopened state t carries the same log as m
pub open spec fn same_log(t: LogInnerManager, m: LogInnerManager) -> bool {
    &&& t.indexs@ == m.indexs@ && t.index_cursor == m.index_cursor && t.data_cursor == m.data_cursor && t.msg_count == m.msg_count
    &&& t.file_len == m.file_len && t.header == m.header && t.start_index == m.start_index && t.current_index_count == m.current_index_count
    &&& t.data_file.contents() == m.disk_image() && t.index_file.contents() == m.disk_image()
}

/// msg_count % interval is the distance to the last index entry
pub proof fn lemma_index_count_mod(ix: Idx, interval: int, start: int, msg_count: int, cic: int)
    requires idx_wf(ix, interval), ix[0].log_index == start, cic == msg_count - (ix.last().log_index - start), 0 <= cic < interval
    ensures msg_count % interval == cic
{
    lemma_idx_mono_first(ix, interval, ix.len() - 1);
    let q = ix.len() - 1;
    assert(msg_count == interval * q + cic);
    vstd::arithmetic::div_mod::lemma_fundamental_div_mod_converse(msg_count, interval, q, cic);
}

/// a state whose handles both show the disk image of a well-formed state, with that state's scalars, is well formed
pub proof fn lemma_reopened_wf(t: LogInnerManager, m: LogInnerManager)
    requires m.wf(), same_log(t, m), !t.need_seek_at_write, t.data_file.pos() == t.data_cursor
    ensures t.wf()
{
    let d = m.disk_image();
    assert(d.skip(4096) =~= m.recs());
    assert(t.recs() =~= m.recs());
    assert(d.len() == m.file_len);
    assert forall|i: int| t.data_cursor <= i < d.len() implies #[trigger] d[i] == 0u8 by { assert(d[i] == m.data_file.contents()[i]); }
    assert(d.subrange(32, t.index_cursor as int) =~= m.index_file.contents().subrange(32, m.index_cursor as int));
    assert forall|i: int| t.index_cursor <= i < 4096 implies #[trigger] d[i] == 0u8 by { assert(d[i] == m.index_file.contents()[i]); }
    assert(d.take(32) =~= m.index_file.contents().take(32));
}


/// what the start-up replay hands to the loader out of the first n records of a stream: every record that decodes, in order
/// (a record whose payload does not decode is skipped by the real code, silently)
pub open spec fn loaded(from: Seq<u8>, n: nat) -> Seq<LogRecordDto>
    decreases n
{
    if n == 0 { Seq::empty() } else {
        let j = (n - 1) as nat;
        if pb_decodes::<LogRecord>(frame_at(from, j)) { loaded(from, j).push(rec_dto(frame_msg(frame_at(from, j)))) } else { loaded(from, j) }
    }
}
} // verus!
