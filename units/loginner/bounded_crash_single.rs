// Bounded stand-in (always run, labelled bounded, never counted as proved) for the crash points of ONE log file (C04): the
// crash-point invariants of LogInnerManager::{write, strip_log_to} are proved in this unit (T19); this enumeration decides on a
// stated domain when a rewrite (a new helper, a reshaped body) takes their text out of the proof's reach.
// The death of the process "at the first write through one of the two handles" is produced without an interposer: that handle
// is replaced by a READ-ONLY handle on the same file, so that this write and everything after it never reaches the file while
// everything before it does (crash model of the statement: every write call atomic, program order).  The file is copied (the
// crash image) and the copy is reopened with the real LogInnerManager::init and read back.
//  * append of one record behind n = 0, 5, 127, 255, 256 records (127 / 255: the record completes an index interval), killed at
//    the index-handle write (the record is on disk, its index entry is not): the image reopens as the old log or the old log + that record;
//  * truncation of a 300-record log to 100, 128, 129, 200, 290, killed at the data-area write or at the index-area write: the
//    image reopens as a contiguous prefix of the old log that is at least as long as the cut asks for;
// every entry read back carries its original term and payload.
use super::*;

fn cterm(index: u64) -> u64 { 1 + index / 70 }
fn cpayload(index: u64) -> Vec<u8> { format!("c04-payload-{}-{}", index, "x".repeat((index % 11) as usize)).into_bytes() }

async fn build(path: &str, n: u64) -> LogInnerManager {
    let mut mgr = LogInnerManager::init(path.to_owned(), 0, 0, 0).await.unwrap();
    for i in 0..n {
        let record = LogRecordDto { index: i, term: cterm(i), value: cpayload(i) };
        assert!(matches!(mgr.write(&record).await.unwrap(), LogWriteMark::Success), "write {}", i);
    }
    mgr.flush_log().await.unwrap();
    mgr
}
async fn read_only(path: &str) -> tokio::fs::File { OpenOptions::new().read(true).open(path).await.unwrap() }

/// reopen the crash image with the real recovery code: a contiguous log of original entries with lo <= end <= hi
async fn check_image(image: &str, what: &str, lo: u64, hi: u64, bad: &mut Vec<String>) {
    let mut reopened = match LogInnerManager::init(image.to_owned(), 0, 0, 0).await {
        Ok(m) => m,
        Err(e) => { bad.push(format!("VX-BOUNDED-FAIL CRASH {}: the image does not reopen: {}", what, e)); return; }
    };
    let end = reopened.get_end_index();
    if end < lo || end > hi { bad.push(format!("VX-BOUNDED-FAIL CRASH {}: the reopened log reports end index {}, outside [{}, {}]", what, end, lo, hi)); return; }
    let records = reopened.read_records(0, end).await.unwrap_or_default();
    if records.len() as u64 != end { bad.push(format!("VX-BOUNDED-FAIL CRASH {}: the reopened log reports end index {} but {} entries can be read back (not contiguous)", what, end, records.len())); return; }
    for (i, r) in records.iter().enumerate() {
        let i = i as u64;
        if r.index != i || r.term != cterm(i) || r.value != cpayload(i) { bad.push(format!("VX-BOUNDED-FAIL CRASH {}: entry {} comes back as (index {}, term {}, {} bytes)", what, i, r.index, r.term, r.value.len())); return; }
    }
    // the reopened log stays appendable at its end
    let rec = LogRecordDto { index: end, term: 9, value: b"after-crash".to_vec() };
    match reopened.write(&rec).await { Ok(LogWriteMark::Success) | Ok(LogWriteMark::SuccessToEnd) => {}, other => { bad.push(format!("VX-BOUNDED-FAIL CRASH {}: the reopened log refuses the append at its end index {}: {:?}", what, end, other.map(|_| ()))); return; } }
    // ... and a SECOND stop right after that append (flushed) reopens as exactly the recovered entries + the new one: nothing that the
    // crash or the truncation removed comes back behind the new record (seed C04-4: bytes of removed records left behind the end mark)
    if reopened.flush_log().await.is_err() { return; }
    drop(reopened);
    let mut again = match LogInnerManager::init(image.to_owned(), 0, 0, 0).await {
        Ok(m) => m,
        Err(e) => { bad.push(format!("VX-BOUNDED-FAIL CRASH {}: after one more append the image does not reopen: {}", what, e)); return; }
    };
    let end2 = again.get_end_index();
    if end2 != end + 1 { bad.push(format!("VX-BOUNDED-FAIL CRASH {}: recovered {} entries, appended one, stopped again: the log reopens with end index {} instead of {}", what, end, end2, end + 1)); return; }
    let records = again.read_records(0, end2).await.unwrap_or_default();
    if records.len() as u64 != end2 { bad.push(format!("VX-BOUNDED-FAIL CRASH {}: after one more append and a stop {} of {} entries can be read back", what, records.len(), end2)); return; }
    for (i, r) in records.iter().enumerate() {
        let i = i as u64;
        let ok = if i < end { r.index == i && r.term == cterm(i) && r.value == cpayload(i) } else { r.index == end && r.term == 9 && r.value == b"after-crash".to_vec() };
        if !ok { bad.push(format!("VX-BOUNDED-FAIL CRASH {}: after one more append and a stop entry {} comes back as (index {}, term {}, {} bytes)", what, i, r.index, r.term, r.value.len())); return; }
    }
}

#[tokio::test]
async fn vx_bounded_c04_single_file_crashes() {
    let temp = tempfile::tempdir().unwrap();
    let path_of = |name: String| temp.path().join(name).to_string_lossy().into_owned();
    let mut bad: Vec<String> = vec![];
    let mut n_img = 0;
    // ---- append
    for n in [0u64, 5, 127, 255, 256] {
        // (only the index-handle write of an append is killed this way: tokio reports a failed write at the NEXT operation on the
        // handle, and `write` performs none after the data write — the process would go on to the index write, which a crash does not)
        for kill in ["index", "none"] {
            let path = path_of(format!("a_{}_{}", n, kill));
            let mut mgr = build(&path, n).await;
            if kill == "index" { mgr.index_file = read_only(&path).await; }
            let record = LogRecordDto { index: n, term: cterm(n), value: cpayload(n) };
            let r = mgr.write(&record).await;
            let acked = matches!(r, Ok(LogWriteMark::Success) | Ok(LogWriteMark::SuccessToEnd));
            let image = path_of(format!("img_a_{}_{}", n, kill));
            std::fs::copy(&path, &image).unwrap();
            drop(mgr);
            // an acknowledged append must be there; a killed one may or may not be
            let lo = if acked && kill == "none" { n + 1 } else { n };
            check_image(&image, &format!("append behind {} records, killed at the first {}-handle write", n, kill), lo, n + 1, &mut bad).await;
            n_img += 1;
        }
    }
    // ---- truncation
    for cut in [100u64, 128, 129, 200, 290] {
        for kill in ["data", "index", "none"] {
            let path = path_of(format!("s_{}_{}", cut, kill));
            let mut mgr = build(&path, 300).await;
            if kill == "data" { mgr.data_file = read_only(&path).await; }
            if kill == "index" { mgr.index_file = read_only(&path).await; }
            let r = mgr.strip_log_to(cut).await;
            let image = path_of(format!("img_s_{}_{}", cut, kill));
            std::fs::copy(&path, &image).unwrap();
            drop(mgr);
            let hi = if r.is_ok() { cut } else { 300 };
            check_image(&image, &format!("truncation of 300 records to {}, killed at the first {}-handle write", cut, kill), cut, hi, &mut bad).await;
            n_img += 1;
        }
    }
    assert!(n_img == 25);
    bad.sort(); bad.dedup();
    assert!(bad.is_empty(), "{} failing crash image(s):\n{}", bad.len(), bad.join("\n"));
}
