// Bounded stand-in (always run, labelled bounded, never counted as proved) for the ACTOR level of C05 that is outside Verus
// (the `async move {..}.into_actor(self).map(..).wait(ctx)` wrappers of RaftIndexManager, assumption A-WAIT, and the
// DTO <-> protobuf conversion): a real RaftIndexManager actor on a real directory gets every sequence of <= 4 save messages out
// of 11 (hard state, membership with and without joint config / address map, single address, log catalogue of different
// lengths, snapshot catalogue, last-applied index); after EVERY acknowledged message the index file is re-read from disk with
// the real RaftIndexInnerManager::init (what a restart does) and compared with a model of the statement: the message replaces
// exactly its own fields, everything else keeps its last acknowledged value; what the live actor answers to LoadIndexInfo
// must be the same.  Sequences also contain RESTARTS (op 99): the directory is copied byte for byte, a fresh actor is started on
// the copy (what a new process does on the same data directory) and the history goes on there — a save made by a process
// that OPENED a populated file must be as durable as one made by the process that created it.
use super::*;

const RESTART: usize = 99;

fn copy_dir(from: &std::path::Path, to: &std::path::Path) {
    std::fs::create_dir_all(to).unwrap();
    for e in std::fs::read_dir(from).unwrap() {
        let e = e.unwrap();
        if e.file_type().unwrap().is_file() && !e.file_name().to_string_lossy().ends_with(".reopen") { std::fs::copy(e.path(), to.join(e.file_name())).unwrap(); }
    }
}

#[derive(Clone, Debug, PartialEq, Default)]
struct Model {
    term: u64,
    vote: u64,
    member: Vec<u64>,
    after: Vec<u64>,
    addrs: Vec<(u64, String)>,
    logs: Vec<LogRange>,
    snapshots: Vec<SnapshotRange>,
    applied: u64,
}

fn addr_map(v: &[(u64, &str)]) -> HashMap<u64, Arc<String>> { v.iter().map(|(k, a)| (*k, Arc::new(a.to_string()))).collect() }

fn log_range(id: u64, start: u64, count: u64, close: bool) -> LogRange {
    LogRange { id, pre_term: id, start_index: start, record_count: count, split_off_index: 0, is_close: close, mark_remove: false }
}

const OPS: usize = 11;

fn op(i: usize, m: &mut Model) -> RaftIndexRequest {
    match i {
        0 => { m.term = 3; m.vote = 2; RaftIndexRequest::SaveHardState { current_term: 3, voted_for: 2 } }
        1 => { m.term = 70_000; m.vote = 0; RaftIndexRequest::SaveHardState { current_term: 70_000, voted_for: 0 } }
        2 => { m.member = vec![1, 2, 3]; RaftIndexRequest::SaveMember { member: vec![1, 2, 3], member_after_consensus: None, node_addr: None } }
        3 => {
            m.member = vec![1]; m.after = vec![1, 4];
            m.addrs = vec![(1, "127.0.0.1:9848".to_string()), (4, "host-four.example.org:19848".to_string())];
            RaftIndexRequest::SaveMember { member: vec![1], member_after_consensus: Some(vec![1, 4]),
                node_addr: Some(addr_map(&[(1, "127.0.0.1:9848"), (4, "host-four.example.org:19848")])) }
        }
        4 => { m.member = vec![1, 4]; m.after = vec![]; RaftIndexRequest::SaveMember { member: vec![1, 4], member_after_consensus: Some(vec![]), node_addr: None } }
        5 => {
            m.addrs.retain(|(k, _)| *k != 2); m.addrs.push((2, "10.0.0.2:9848".to_string())); m.addrs.sort();
            RaftIndexRequest::AddNodeAddr(2, Arc::new("10.0.0.2:9848".to_string()))
        }
        6 => { m.logs = vec![log_range(1, 1, 300, true), log_range(2, 301, 17, false)]; RaftIndexRequest::SaveLogs(m.logs.clone()) }
        7 => { m.logs = vec![log_range(2, 301, 40, false)]; RaftIndexRequest::SaveLogs(m.logs.clone()) }
        8 => { m.snapshots = vec![SnapshotRange { id: 1, end_index: 300 }, SnapshotRange { id: 2, end_index: 320 }]; RaftIndexRequest::SaveSnapshots(m.snapshots.clone()) }
        9 => { m.applied = 317; RaftIndexRequest::SaveLastAppliedLog(317) }
        _ => { m.applied = 5; RaftIndexRequest::SaveLastAppliedLog(5) }
    }
}

fn view(d: &RaftIndexDto, applied: u64) -> Model {
    let mut addrs: Vec<(u64, String)> = d.node_addrs.iter().map(|(k, v)| (*k, v.to_string())).collect();
    addrs.sort();
    Model { term: d.current_term, vote: d.voted_for, member: d.member.clone(), after: d.member_after_consensus.clone(), addrs,
        logs: d.logs.clone(), snapshots: d.snapshots.clone(), applied }
}

#[test]
fn vx_bounded_index_actor() {
    let base = std::env::temp_dir().join(format!("vx_c05_{}", std::process::id()));
    let _ = std::fs::remove_dir_all(&base);
    let sys = actix::System::new();
    let failures: Vec<String> = sys.block_on(async {
        let mut failures: Vec<String> = vec![];
        let mut seqs: Vec<Vec<usize>> = vec![];
        for a in 0..OPS { seqs.push(vec![a]); for b in 0..OPS { seqs.push(vec![a, b]); for c in 0..OPS { seqs.push(vec![a, b, c]);
            for d in 0..OPS { if (a + b + c + d) % 3 == 0 { seqs.push(vec![a, b, c, d]); } } } } }
        // restarts between the saves (every 2-sequence, every 3-sequence with one restart at either place, half of them with two)
        for a in 0..OPS { for b in 0..OPS { seqs.push(vec![a, RESTART, b]); for c in 0..OPS {
            seqs.push(vec![a, RESTART, b, c]); seqs.push(vec![a, b, RESTART, c]);
            if (a + b + c) % 2 == 0 { seqs.push(vec![a, RESTART, b, RESTART, c]); } } } }
        let mut checked = 0u64;
        let mut short_lost = 0u64;
        let mut short_example = String::new();
        for (n, seq) in seqs.iter().enumerate() {
            let dir = base.join(format!("n{}", n));
            std::fs::create_dir_all(&dir).unwrap();
            let dir_s = dir.to_string_lossy().to_string();
            let mut actor = RaftIndexManager::new(Arc::new(dir_s.clone())).start();
            let mut file = dir.join("index").to_string_lossy().to_string();
            let mut cur_dir = dir.clone();
            let mut generation = 0usize;
            let mut model = Model::default();
            let name = seq.iter().map(|x| if *x == RESTART { "R".to_string() } else { x.to_string() }).collect::<Vec<_>>().join("-");
            for (step, &i) in seq.iter().enumerate() {
                if i == RESTART {
                    // every acknowledged save has reached the file (one round trip through the actor), then a new process opens a copy
                    let _ = actor.send(RaftIndexRequest::LoadIndexInfo).await;
                    generation += 1;
                    let next = dir.join(format!("restart{}", generation));
                    copy_dir(&cur_dir, &next);
                    actor = RaftIndexManager::new(Arc::new(next.to_string_lossy().to_string())).start();
                    file = next.join("index").to_string_lossy().to_string();
                    cur_dir = next;
                    let live = match actor.send(RaftIndexRequest::LoadIndexInfo).await.unwrap() {
                        Ok(RaftIndexResponse::RaftIndexInfo { raft_index, last_applied_log }) => view(&raft_index, last_applied_log),
                        _ => { failures.push(format!("VX-BOUNDED-FAIL LOAD {} step {}: no index info after the restart", name, step)); break; }
                    };
                    // (a hard state saved alone gives an image of <= 20 bytes: recorded finding S5 — the model follows what the file
                    // holds there, the loss itself is reported by the SHORT-IMAGE probe)
                    let short = std::fs::metadata(&file).map(|m| m.len()).unwrap_or(0) <= 20;
                    // the last-applied header is written without a flush and is not part of C05's statement: the history goes on
                    // with whatever the restarted process read
                    model.applied = live.applied;
                    if live != model {
                        if short { model = Model { applied: model.applied, ..live.clone() }; }
                        else if failures.len() < 12 { failures.push(format!("VX-BOUNDED-FAIL RESTART {} step {}: the restarted actor serves {:?}, acknowledged was {:?}", name, step, live, model)); }
                    }
                    continue;
                }
                let msg = op(i, &mut model);
                if actor.send(msg).await.unwrap().is_err() {
                    failures.push(format!("VX-BOUNDED-FAIL SAVE {} step {}: the save was refused", name, step));
                    break;
                }
                // what the live actor serves
                let live = match actor.send(RaftIndexRequest::LoadIndexInfo).await.unwrap() {
                    Ok(RaftIndexResponse::RaftIndexInfo { raft_index, last_applied_log }) => view(&raft_index, last_applied_log),
                    _ => { failures.push(format!("VX-BOUNDED-FAIL LOAD {} step {}: no index info", name, step)); break; }
                };
                // what a restart would read from the file
                // (on a COPY: init rewrites an image it takes for empty)
                let copy = format!("{}.reopen", file);
                std::fs::copy(&file, &copy).unwrap();
                let image_len = std::fs::metadata(&copy).map(|m| m.len()).unwrap_or(0);
                let disk = match RaftIndexInnerManager::init(&copy).await {
                    Ok(inner) => view(&inner.raft_index, inner.last_applied_log),
                    Err(e) => { failures.push(format!("VX-BOUNDED-FAIL REOPEN {} step {}: {}", name, step, e)); break; }
                };
                checked += 1;
                if live != model && failures.len() < 12 {
                    failures.push(format!("VX-BOUNDED-FAIL LIVE {} step {}: the actor serves {:?}, the statement says {:?}", name, step, live, model));
                }
                // the last-applied header is written without a flush (flushed with the next record write): not part of C05's
                // statement and not compared on disk — only what the live actor serves
                let disk = Model { applied: model.applied, ..disk };
                if disk != model {
                    if image_len <= 20 {
                        // recorded finding S5: an image of <= 20 bytes is taken for a fresh file
                        short_lost += 1;
                        if short_example.is_empty() { short_example = format!("sequence {} step {}: image of {} bytes, a restart reads {:?}, acknowledged was {:?}", name, step, image_len, disk, model); }
                    } else if failures.len() < 12 {
                        failures.push(format!("VX-BOUNDED-FAIL DISK {} step {}: a restart would read {:?}, acknowledged was {:?}", name, step, disk, model));
                    }
                }
            }
            drop(actor);
            let _ = std::fs::remove_dir_all(&dir);
        }
        if short_lost > 0 {
            failures.push(format!("VX-BOUNDED-FAIL SHORT-IMAGE forgotten-on-restart in {} of {} saves, e.g. {}", short_lost, checked, short_example));
        }
        println!("vx_bounded_index_actor: {} acknowledged saves re-read from disk ({} sequences)", checked, seqs.len());
        failures
    });
    let _ = std::fs::remove_dir_all(&base);
    for f in failures.iter() { println!("{}", f); }
    assert!(failures.is_empty(), "{} differences between acknowledged and durable index state", failures.len());
}
