verus! {

/// generated protobuf message RaftIndex<'a> (src/raft/filestore/log.rs): opaque here
pub struct RaftIndex { pub vx: u64 }
impl PbMessage for RaftIndex { uninterp spec fn pb_bytes(&self) -> Seq<u8>; }
impl Default for RaftIndex {
    /// the all-default message has a (tiny) encoding
    #[verifier::external_body]
    fn default() -> (r: Self) ensures r.pb_bytes().len() < 0x1_0000_0000 { unimplemented!() }
}
/// DTO <-> message conversion (assumed round trip)
pub uninterp spec fn msg_of(d: RaftIndexDto) -> RaftIndex;
pub uninterp spec fn dto_of(m: RaftIndex) -> RaftIndexDto;
pub broadcast axiom fn axiom_dto_roundtrip(d: RaftIndexDto)
    ensures #[trigger] dto_of(msg_of(d)) == d;

impl RaftIndexDto {
    #[verifier::external_body]
    pub fn to_record_do(&self) -> (r: RaftIndex)
        ensures r == msg_of(*self)
    { unimplemented!() }
}
impl From<RaftIndex> for RaftIndexDto {
    #[verifier::external_body]
    fn from(value: RaftIndex) -> (r: Self)
        ensures r == dto_of(value)
    { unimplemented!() }
}

/// 8-byte big-endian image of an id (byteorder crate; assumed round trip)
pub uninterp spec fn be64(v: u64) -> Seq<u8>;
pub broadcast axiom fn axiom_be64_len(v: u64) ensures #[trigger] be64(v).len() == 8;
pub broadcast axiom fn axiom_be64_inj(a: u64, b: u64) ensures #[trigger] be64(a) == #[trigger] be64(b) ==> a == b;
#[verifier::external_body]
pub fn id_to_bin(id: u64) -> (r: Vec<u8>) ensures r@ == be64(id) { unimplemented!() }
#[verifier::external_body]
pub fn bin_to_id(buf: &[u8]) -> (r: u64) requires buf@.len() >= 8 ensures be64(r) == buf@.take(8), buf@.len() == 8 ==> be64(r) == buf@ { unimplemented!() }

/// actix Context<A>: opaque
#[verifier::external_body]
#[verifier::reject_recursive_types(A)]
pub struct Context<A> { inner: core::marker::PhantomData<A> }


/// the actor: only the state the verified writers touch is modelled (the real struct also holds the directory path, the lock
/// file and the address of the naming node manager — pinned by [[expect_text]])
pub struct RaftIndexManager {
    pub inner: Option<Box<RaftIndexInnerManager>>,
}
impl RaftIndexManager {
    #[verifier::external_body]
    pub fn inner_is_empty_error() -> anyhow::Error { unimplemented!() }
}

} // verus!
