// Bounded stand-in (always run, labelled bounded, never counted as proved) behind the C04 proof of the two index-file writers
// (crash-point invariant T19 on RaftIndexInnerManager::{write_index, write_last_applied_log}): it decides when a rewrite of the
// writers (new helpers, new fields) takes their text out of the proof's reach.
// A save is driven ONE POLL AT A TIME (tokio file operations run on the blocking pool: a poll hands at most one file mutation to
// it); after every poll the operation gets time to complete and the index file is copied — each copy is what a process killed at
// that point leaves behind (crash model of C04: process death, OS survives, each write call atomic, program order).  Every copy is
// reopened with the real RaftIndexInnerManager::init and must hold the value before or the value after that save, with the other
// half (last-applied index vs. record) untouched.  Save sequences mix records that grow, shrink and keep their size.
use super::*;

use std::future::Future;
use std::task::Poll;

fn ci_range(id: u64, start_index: u64, record_count: u64, is_close: bool) -> LogRange {
    LogRange { id, pre_term: 6, start_index, record_count, split_off_index: start_index, is_close, mark_remove: false }
}

/// records of four sizes: 1 / 2 / 4 log ranges, with / without a vote and a joint-consensus list
fn ci_record(kind: usize) -> RaftIndexDto {
    let mut node_addrs = HashMap::new();
    node_addrs.insert(1, Arc::new("127.0.0.1:9848".to_string()));
    node_addrs.insert(2, Arc::new("127.0.0.1:9849".to_string()));
    let logs = match kind {
        0 => vec![ci_range(14, 69_152, 0, false)],
        1 => vec![ci_range(13, 52_768, 16_384, true), ci_range(14, 69_152, 0, false)],
        2 => vec![ci_range(11, 20_000, 16_384, true), ci_range(12, 36_384, 16_384, true), ci_range(13, 52_768, 16_384, true), ci_range(14, 69_152, 0, false)],
        _ => vec![ci_range(14, 69_152, 0, false)],
    };
    RaftIndexDto {
        logs, current_log: 0, snapshots: vec![SnapshotRange { id: 4, end_index: 20_000 }], last_snapshot: 0, last_snapshot_index: 0, last_snapshot_term: 0,
        current_term: if kind == 3 { 8 } else { 7 }, voted_for: if kind == 3 { 0 } else { 3 },
        member: vec![1, 2], member_after_consensus: if kind == 1 { vec![1, 2, 3] } else { vec![] }, node_addrs,
    }
}

fn ci_view(c: &RaftIndexDto) -> String {
    let mut addrs: Vec<(u64, String)> = c.node_addrs.iter().map(|(k, v)| (*k, v.as_str().to_owned())).collect();
    addrs.sort();
    format!("{:?} {:?} {:?} {:?} {:?} {:?} {:?}", c.logs, c.snapshots, (c.current_log, c.last_snapshot, c.last_snapshot_index, c.last_snapshot_term),
        (c.current_term, c.voted_for), c.member, c.member_after_consensus, addrs)
}

#[derive(Clone, Copy, Debug)]
enum CiOp { Record(usize), Applied(u64) }

/// drive one save poll by poll; returns the crash images (file copies) it leaves
async fn ci_images<F: Future<Output = anyhow::Result<()>>>(fut: F, path: &std::path::Path, dir: &std::path::Path, tag: &str) -> Vec<std::path::PathBuf> {
    let mut images = vec![];
    tokio::pin!(fut);
    let mut step = 0;
    loop {
        let r = std::future::poll_fn(|cx| Poll::Ready(fut.as_mut().poll(cx))).await;
        tokio::time::sleep(Duration::from_millis(25)).await;
        let image = dir.join(format!("{}_killed_at_{}", tag, step));
        std::fs::copy(path, &image).unwrap();
        images.push(image);
        step += 1;
        if let Poll::Ready(r) = r { r.unwrap(); break; }
        assert!(step < 200, "the save does not finish");
    }
    images
}

async fn ci_history(base: &std::path::Path, name: &str, ops: &[CiOp], bad: &mut Vec<String>) -> usize {
    let dir = base.join(name);
    std::fs::create_dir_all(&dir).unwrap();
    let path = dir.join("index");
    let path_str = path.to_string_lossy().into_owned();
    let mut mgr = RaftIndexInnerManager::init(&path_str).await.unwrap();
    // what cluster initialisation saves first
    let mut cur = ci_record(0);
    let mut la = 0u64;
    mgr.write_index(cur.clone()).await.unwrap();
    mgr.flush().await.unwrap();
    let mut n_images = 0;
    for (i, op) in ops.iter().enumerate() {
        let (next, next_la) = match op { CiOp::Record(k) => (ci_record(*k), la), CiOp::Applied(v) => (cur.clone(), *v) };
        let tag = format!("s{}", i);
        let images = match op {
            CiOp::Record(_) => ci_images(mgr.write_index(next.clone()), &path, &dir, &tag).await,
            CiOp::Applied(v) => ci_images(mgr.write_last_applied_log(*v), &path, &dir, &tag).await,
        };
        mgr.flush().await.unwrap();
        for image in images {
            n_images += 1;
            let len = std::fs::metadata(&image).unwrap().len();
            let what = format!("{} save #{} {:?} image {} ({} bytes)", name, i, op, image.file_name().unwrap().to_string_lossy(), len);
            match RaftIndexInnerManager::init(&image.to_string_lossy()).await {
                Err(e) => bad.push(format!("VX-BOUNDED-FAIL INDEX-CRASH reopen {}: the store does not reopen: {}", what, e)),
                Ok(re) => {
                    let got = ci_view(&re.raft_index);
                    if got != ci_view(&cur) && got != ci_view(&next) {
                        bad.push(format!("VX-BOUNDED-FAIL INDEX-CRASH record {}: the reopened record is neither the one before nor the one after the save: {}", what, got));
                    }
                    if re.last_applied_log != la && re.last_applied_log != next_la {
                        bad.push(format!("VX-BOUNDED-FAIL INDEX-CRASH applied {}: last-applied {} is neither {} nor {}", what, re.last_applied_log, la, next_la));
                    }
                }
            }
        }
        cur = next;
        la = next_la;
    }
    n_images
}

#[tokio::test]
async fn vx_bounded_c04_index_crashes() {
    let base = std::env::temp_dir().join(format!("vx_c04i_{}", std::process::id()));
    let _ = std::fs::remove_dir_all(&base);
    std::fs::create_dir_all(&base).unwrap();
    let mut bad: Vec<String> = vec![];
    let mut images = 0;
    let histories: Vec<(&str, Vec<CiOp>)> = vec![
        ("grow-shrink", vec![CiOp::Record(2), CiOp::Applied(61_234), CiOp::Record(1), CiOp::Record(0)]),
        ("new-term", vec![CiOp::Applied(69_100), CiOp::Record(3), CiOp::Record(0)]),
        ("rollover", vec![CiOp::Record(1), CiOp::Record(2), CiOp::Applied(85_000), CiOp::Applied(85_001)]),
        ("same-size", vec![CiOp::Record(0), CiOp::Record(3), CiOp::Record(3)]),
        ("shrink-at-once", vec![CiOp::Record(2), CiOp::Record(3)]),
    ];
    let n_hist = histories.len();
    for (name, ops) in histories { images += ci_history(&base, name, &ops, &mut bad).await; }
    let _ = std::fs::remove_dir_all(&base);
    println!("VX-BOUNDED index-file crash images: {} images over {} save histories", images, n_hist);
    bad.sort(); bad.dedup();
    for b in bad.iter() { println!("{}", b); }
    assert!(images >= 30, "only {} crash images", images);
    assert!(bad.is_empty(), "{} crash image(s) of the index file do not reopen to a saved value", bad.len());
}
