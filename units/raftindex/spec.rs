verus! {

/// the file image holds last-applied `la` and index message `m`: 8-byte header, then the framed message
pub open spec fn holds(c: Seq<u8>, la: u64, m: RaftIndex) -> bool {
    &&& c.len() >= 8 + pb_frame(m).len()
    &&& m.pb_bytes().len() < 0x1_0000_0000
    &&& c.take(8) == be64(la)
    &&& c.subrange(8, 8 + pb_frame(m).len() as int) == pb_frame(m)
}

/// the image holds last-applied `la` and the catalogue / vote / membership DTO `d`
pub open spec fn holds_dto(c: Seq<u8>, la: u64, d: RaftIndexDto) -> bool {
    exists|m: RaftIndex| #[trigger] holds(c, la, m) && dto_of(m) == d
}

impl RaftIndexInnerManager {
    /// C05: what is in memory is what the file holds
    pub open spec fn wf(&self) -> bool {
        holds_dto(self.file.contents(), self.last_applied_log, self.raft_index)
    }
}

/// A-RECORDSIZE: every index record the store encodes fits a 32-bit length prefix
pub open spec fn records_fit() -> bool { forall|d: RaftIndexDto| (#[trigger] msg_of(d)).pb_bytes().len() < 0x1_0000_0000 }

/// what one save of the catalogue / vote / membership record does to the open index file (o before, n after), when no I/O
/// operation fails: memory and file hold exactly `index` behind the untouched last-applied header
pub open spec fn written(o: RaftIndexInnerManager, n: RaftIndexInnerManager, index: RaftIndexDto) -> bool {
    n.file.io_faulty() == o.file.io_faulty() && n.raft_index == index && n.last_applied_log == o.last_applied_log
    && (!o.file.io_faulty() ==> n.file.contents().len() >= 8
        && n.file.contents().take(8) == o.file.contents().take(8)
        && (forall|la: u64| o.file.contents().take(8) == be64(la) ==> #[trigger] holds_dto(n.file.contents(), la, index)))
}
/// ... and what one save of the last-applied index does
pub open spec fn applied_written(o: RaftIndexInnerManager, n: RaftIndexInnerManager, la: u64) -> bool {
    n.file.io_faulty() == o.file.io_faulty() && n.last_applied_log == la && n.raft_index == o.raft_index
    && (!o.file.io_faulty() ==> n.file.contents().len() >= 8
        && n.file.contents().take(8) == be64(la) && n.file.contents().skip(8) == o.file.contents().skip(8))
}
/// the caller changed fields of the in-memory record and saved it: the file holds what memory holds (no I/O fault)
pub open spec fn saved(o: Box<RaftIndexInnerManager>, n: Box<RaftIndexInnerManager>) -> bool {
    n.file.io_faulty() == o.file.io_faulty() && n.last_applied_log == o.last_applied_log
    && (!o.file.io_faulty() ==> n.file.contents().len() >= 8
        && n.file.contents().take(8) == o.file.contents().take(8)
        && (forall|la: u64| o.file.contents().take(8) == be64(la) ==> #[trigger] holds_dto(n.file.contents(), la, n.raft_index)))
}

/// a file image determines the values it holds
pub proof fn lemma_holds_unique(c: Seq<u8>, la1: u64, m1: RaftIndex, la2: u64, m2: RaftIndex)
    requires holds(c, la1, m1), holds(c, la2, m2)
    ensures la1 == la2, m1 == m2
{
    broadcast use axiom_be64_inj;
    let s = c.skip(8);
    assert(s.take(pb_frame(m1).len() as int) =~= c.subrange(8, 8 + pb_frame(m1).len() as int));
    assert(s.take(pb_frame(m2).len() as int) =~= c.subrange(8, 8 + pb_frame(m2).len() as int));
    axiom_pb_frame_unique(m1, m2, s);
}

pub proof fn lemma_holds_dto_unique(c: Seq<u8>, la1: u64, d1: RaftIndexDto, la2: u64, d2: RaftIndexDto)
    requires holds_dto(c, la1, d1), holds_dto(c, la2, d2)
    ensures la1 == la2, d1 == d2
{
    let m1 = choose|m: RaftIndex| #[trigger] holds(c, la1, m) && dto_of(m) == d1;
    let m2 = choose|m: RaftIndex| #[trigger] holds(c, la2, m) && dto_of(m) == d2;
    lemma_holds_unique(c, la1, m1, la2, m2);
}

/// the framed message at offset 8 is what FileMessageReader sees: a canonical store prefix, and the first record
pub proof fn lemma_frame_window(c: Seq<u8>, la: u64, m: RaftIndex)
    requires holds(c, la, m)
    ensures store_prefix(window10(c, 8)),
        m.pb_bytes().len() > 0 ==> (vlen(window10(c, 8)) == Some(enc(m.pb_bytes().len() as nat).len() as int)
            && vval(window10(c, 8)) == m.pb_bytes().len()
            && vlen(window10(c, 8)).unwrap() + vval(window10(c, 8)) == pb_frame(m).len()),
        m.pb_bytes().len() == 0 ==> (vlen(window10(c, 8)) == Some(1int) && vval(window10(c, 8)) == 0),
{
    let n = m.pb_bytes().len() as nat;
    let f = pb_frame(m);
    let s = c.skip(8);
    lemma_dec_enc(n, m.pb_bytes());
    lemma_enc_len_table(n);
    // s starts with f
    assert(s.take(f.len() as int) =~= c.subrange(8, 8 + f.len() as int));
    lemma_vlen_prefix(f, s.skip(f.len() as int));
    assert(f.add(s.skip(f.len() as int)) =~= s);
    lemma_window_prefix(c, 8);
}

} // verus!
