@@ RaftIndexInnerManager::write_last_applied_log crashpoints write_all set_len
@@ RaftIndexInnerManager::write_last_applied_log crash_inv
    // C04: crash point $N — the file holds the catalogue / vote / membership it held, with the old or the new last-applied index
    proof {   // @C04
        let vx_c1 = self.file.contents();   // @C04
        if old(self).wf() {   // @C04
            let vx_m0 = choose|m: RaftIndex| #[trigger] holds(c0, old(self).last_applied_log, m) && dto_of(m) == old(self).raft_index;   // @C04
            assert(vx_c1.take(8) =~= be64(last_applied_log));   // @C04
            assert(vx_c1.subrange(8, 8 + pb_frame(vx_m0).len() as int) =~= c0.subrange(8, 8 + pb_frame(vx_m0).len() as int));   // @C04
            assert(holds(vx_c1, last_applied_log, vx_m0));   // @C04
        }   // @C04
    }   // @C04
    assert(old(self).wf() ==> (holds_dto(self.file.contents(), old(self).last_applied_log, old(self).raft_index)   // @C04
        || holds_dto(self.file.contents(), last_applied_log, old(self).raft_index)));   // @C04
@@ RaftIndexInnerManager::write_index crashpoints write_all set_len
@@ RaftIndexInnerManager::write_index crash_inv
    // C04: crash point $N — the file holds the last-applied index it held, with the old or the new catalogue / vote / membership
    // (one write call carries length prefix and record together: there is no instant at which a new prefix stands before an old body)
    proof {   // @C04
        let vx_c1 = self.file.contents();   // @C04
        if old(self).wf() {   // @C04
            assert(vx_c1.take(8) =~= c0.take(8));   // @C04
            assert(holds(vx_c1, old(self).last_applied_log, msg_of(index)));   // @C04
        }   // @C04
    }   // @C04
    assert(old(self).wf() ==> (holds_dto(self.file.contents(), old(self).last_applied_log, old(self).raft_index)   // @C04
        || holds_dto(self.file.contents(), old(self).last_applied_log, index)));   // @C04
@@ RaftIndexInnerManager::write_last_applied_log spec
    requires old(self).file.contents().len() >= 8
    // C05: acknowledged (Ok) => the header holds the new last-applied index and everything behind the header is untouched,
    // so the saved term / vote / membership stay exactly as they were
    ensures r is Ok ==> final(self).file.contents().len() >= 8,
        // memory is updated first, whatever the file then does
        final(self).last_applied_log == last_applied_log && final(self).raft_index == old(self).raft_index,
        r is Ok ==> final(self).last_applied_log == last_applied_log && final(self).raft_index == old(self).raft_index
            && final(self).file.contents().take(8) == be64(last_applied_log)
            && final(self).file.contents().skip(8) == old(self).file.contents().skip(8),
        r is Ok && old(self).wf() ==> final(self).wf(),
        // a save fails only when the file does
        r is Err ==> old(self).file.io_faulty(), final(self).file.io_faulty() == old(self).file.io_faulty(),
@@ RaftIndexInnerManager::write_last_applied_log entry
    broadcast use axiom_be64_len;
    let ghost c0 = self.file.contents();
@@ RaftIndexInnerManager::write_last_applied_log before_tail
    proof {
        let c1 = self.file.contents();
        assert(c1.take(8) =~= be64(last_applied_log));
        assert(c1.skip(8) =~= c0.skip(8));
        if old(self).wf() {
            let m0 = choose|m: RaftIndex| #[trigger] holds(c0, old(self).last_applied_log, m) && dto_of(m) == old(self).raft_index;
            assert(c1.subrange(8, 8 + pb_frame(m0).len() as int) =~= c0.subrange(8, 8 + pb_frame(m0).len() as int));
            assert(holds(c1, last_applied_log, m0));
        }
    }
@@ RaftIndexInnerManager::write_index spec
    requires old(self).file.contents().len() >= 8, msg_of(index).pb_bytes().len() < 0x1_0000_0000
    // C05: acknowledged (Ok) => the file holds exactly the saved term / vote / membership / catalogue behind an untouched header
    // (the length prefix makes a shorter record after a longer one decode correctly)
    ensures r is Ok ==> final(self).file.contents().len() >= 8,
        // memory is updated first, whatever the file then does
        final(self).raft_index == index && final(self).last_applied_log == old(self).last_applied_log,
        r is Ok ==> final(self).raft_index == index && final(self).last_applied_log == old(self).last_applied_log
            && final(self).file.contents().take(8) == old(self).file.contents().take(8)
            && (forall|la: u64| old(self).file.contents().take(8) == be64(la) ==> #[trigger] holds_dto(final(self).file.contents(), la, index)),
        r is Ok && old(self).wf() ==> final(self).wf(),
        // a save fails only when the file does
        r is Err ==> old(self).file.io_faulty(), final(self).file.io_faulty() == old(self).file.io_faulty(),
@@ RaftIndexInnerManager::write_index entry
    broadcast use axiom_be64_len;
    broadcast use axiom_dto_roundtrip;
    let ghost c0 = self.file.contents();
@@ RaftIndexInnerManager::write_index before_tail
    proof {
        let c1 = self.file.contents();
        let m1 = msg_of(index);
        assert(c1.take(8) =~= c0.take(8));
        assert forall|la: u64| c0.take(8) == be64(la) implies #[trigger] holds_dto(c1, la, index) by {
            assert(holds(c1, la, m1));
        }
        if old(self).wf() {
            let m0 = choose|m: RaftIndex| #[trigger] holds(c0, old(self).last_applied_log, m) && dto_of(m) == old(self).raft_index;
            assert(holds(c1, old(self).last_applied_log, m1));
        }
    }
@@ RaftIndexInnerManager::flush spec
    ensures r is Ok ==> final(self).file.contents() == old(self).file.contents(),
        final(self).raft_index == old(self).raft_index, final(self).last_applied_log == old(self).last_applied_log,
@@ RaftIndexInnerManager::init spec
    requires full_read_model(), disk_at_open(path@).len() < 0x4000_0000_0000,
        // the index file was written by this store (write_index / write_last_applied_log): assumed of the data directory
        disk_at_open(path@).len() > 20 ==> exists|la: u64, d: RaftIndexDto| holds_dto(disk_at_open(path@), la, d),
    ensures
        // C05: whatever term / vote / membership and last-applied index the image holds is what the node starts with
        r is Ok && disk_at_open(path@).len() > 20 ==> (forall|la: u64, d: RaftIndexDto| #[trigger] holds_dto(disk_at_open(path@), la, d)
            ==> r.unwrap().last_applied_log == la && r.unwrap().raft_index == d),
        r is Ok && disk_at_open(path@).len() <= 20 ==> (forall|la: u64, d: RaftIndexDto| #[trigger] holds_dto(disk_at_open(path@), la, d)   // @S5
            ==> r.unwrap().last_applied_log == la && r.unwrap().raft_index == d),
        // and the in-memory state is what the file holds afterwards; the header is always present
        r is Ok && disk_at_open(path@).len() > 20 ==> r.unwrap().wf(),
        // a fresh (or short) file is initialised to an image that holds exactly what the node starts with: last-applied 0 behind a RAW 8-byte header (S21)
        r is Ok && disk_at_open(path@).len() <= 20 ==> r.unwrap().wf() && r.unwrap().last_applied_log == 0,   // @S21
        r is Ok ==> r.unwrap().file.contents().len() >= 8,
@@ RaftIndexInnerManager::init entry
    broadcast use axiom_be64_len;
    broadcast use axiom_be64_inj;
    broadcast use axiom_pb_frame_unique_auto;
    let ghost c0 = disk_at_open(path@);
    proof {
        if c0.len() > 20 {
            let (la, d) = choose|la: u64, d: RaftIndexDto| holds_dto(c0, la, d);
            let m = choose|m: RaftIndex| #[trigger] holds(c0, la, m) && dto_of(m) == d;
            lemma_frame_window(c0, la, m);
        }
    }
@@ RaftIndexInnerManager::init before_tail
    proof {
        if c0.len() > 20 {
            assert forall|la: u64, d: RaftIndexDto| #[trigger] holds_dto(c0, la, d) implies last_applied_log == la && raft_index == d by {
                let m = choose|m: RaftIndex| #[trigger] holds(c0, la, m) && dto_of(m) == d;
                lemma_frame_window(c0, la, m);
                let n = pb_frame(m).len() as int;
                let s = c0.subrange(8, 8 + n);
                assert(s.take(n) =~= pb_frame(m));
                assert(c0.take(8) =~= c0.subrange(0, 8));
            }
        }
    }
@@ RaftIndexManager::write_hard_state t20_calls write_index
@@ RaftIndexManager::write_hard_state spec
    requires records_fit(), old(self).inner is Some ==> old(self).inner.unwrap().file.contents().len() >= 8
    // C05 frame: saving term and vote replaces exactly these two fields and hands exactly that record to the writer
    ensures old(self).inner is Some ==> r is Ok && final(self).inner is Some
            && final(self).inner.unwrap().raft_index == (RaftIndexDto { current_term: current_term, voted_for: voted_for, ..old(self).inner.unwrap().raft_index })
            && saved(old(self).inner.unwrap(), final(self).inner.unwrap()),   // the file holds it (no I/O fault)
        old(self).inner is None ==> r is Err,
@@ RaftIndexManager::write_member t20_calls write_index
@@ RaftIndexManager::write_member spec
    requires records_fit(), old(self).inner is Some ==> old(self).inner.unwrap().file.contents().len() >= 8
    ensures old(self).inner is Some ==> r is Ok && final(self).inner is Some && ({
            let o = old(self).inner.unwrap().raft_index;
            let n = final(self).inner.unwrap().raft_index;
            &&& n.member == member
            &&& n.member_after_consensus == (if member_after_consensus is Some { member_after_consensus.unwrap() } else { o.member_after_consensus })
            &&& n.node_addrs == (if node_addr is Some { node_addr.unwrap() } else { o.node_addrs })
            // a membership change never touches term, vote or the catalogue
            &&& n.current_term == o.current_term && n.voted_for == o.voted_for && n.logs == o.logs && n.snapshots == o.snapshots
            &&& n.current_log == o.current_log && n.last_snapshot == o.last_snapshot && n.last_snapshot_index == o.last_snapshot_index && n.last_snapshot_term == o.last_snapshot_term
            &&& saved(old(self).inner.unwrap(), final(self).inner.unwrap())   // the file holds it (no I/O fault)
        }),
        old(self).inner is None ==> r is Err,
@@ RaftIndexManager::write_node_addr t20_calls write_index
@@ RaftIndexManager::write_node_addr spec
    requires records_fit(), old(self).inner is Some ==> old(self).inner.unwrap().file.contents().len() >= 8
    ensures old(self).inner is Some ==> r is Ok && final(self).inner is Some
            && final(self).inner.unwrap().raft_index == (RaftIndexDto { node_addrs: node_addr, ..old(self).inner.unwrap().raft_index })
            && saved(old(self).inner.unwrap(), final(self).inner.unwrap()),   // the file holds it (no I/O fault)
        old(self).inner is None ==> r is Err,
@@ RaftIndexManager::add_node_addr t20_calls write_index
@@ RaftIndexManager::add_node_addr spec
    requires records_fit(), old(self).inner is Some ==> old(self).inner.unwrap().file.contents().len() >= 8
    ensures old(self).inner is Some ==> r is Ok && final(self).inner is Some && ({
            let o = old(self).inner.unwrap().raft_index;
            let n = final(self).inner.unwrap().raft_index;
            &&& n.node_addrs@ == o.node_addrs@.insert(id, node_addr)
            &&& n.current_term == o.current_term && n.voted_for == o.voted_for && n.member == o.member && n.member_after_consensus == o.member_after_consensus
            &&& n.logs == o.logs && n.snapshots == o.snapshots
            &&& saved(old(self).inner.unwrap(), final(self).inner.unwrap())   // the file holds it (no I/O fault)
        }),
        old(self).inner is None ==> r is Err,
@@ RaftIndexManager::add_node_addr entry
    broadcast use vstd::std_specs::hash::group_hash_axioms;
@@ RaftIndexManager::write_logs t20_calls write_index
@@ RaftIndexManager::write_logs spec
    requires records_fit(), old(self).inner is Some ==> old(self).inner.unwrap().file.contents().len() >= 8
    // catalogue saves never clobber term / vote / membership
    ensures old(self).inner is Some ==> r is Ok && final(self).inner is Some
            && final(self).inner.unwrap().raft_index == (RaftIndexDto { logs: logs, ..old(self).inner.unwrap().raft_index })
            && saved(old(self).inner.unwrap(), final(self).inner.unwrap()),   // the file holds it (no I/O fault)
        old(self).inner is None ==> r is Err,
@@ RaftIndexManager::write_snapshots t20_calls write_index
@@ RaftIndexManager::write_snapshots spec
    requires records_fit(), old(self).inner is Some ==> old(self).inner.unwrap().file.contents().len() >= 8
    ensures old(self).inner is Some ==> r is Ok && final(self).inner is Some
            && final(self).inner.unwrap().raft_index == (RaftIndexDto { snapshots: snapshots, ..old(self).inner.unwrap().raft_index })
            && saved(old(self).inner.unwrap(), final(self).inner.unwrap()),   // the file holds it (no I/O fault)
        old(self).inner is None ==> r is Err,
@@ RaftIndexInnerManager::init after_call flush 1
    proof {
        // S21: the fresh image is the raw header be64(0) followed by the framed default record
        let c1 = file.contents();
        let n = pb_frame(index).len() as int;
        assert(buf@ =~= be64(0).add(pb_frame(index)));
        assert(c1.subrange(0, 8 + n) == buf@);
        assert(c1.take(8) =~= buf@.take(8));
        assert(buf@.take(8) =~= be64(0));
        assert(c1.subrange(8, 8 + n) =~= buf@.subrange(8, 8 + n));
        assert(buf@.subrange(8, 8 + n) =~= pb_frame(index));
        assert(holds(c1, 0, index));
    }
@@ RaftIndexManager::do_notify_membership external
@@ RaftIndexManager::do_notify_membership skip_body
@@ RaftIndexManager::write_index chain 1
    env mut inner: Option<Box<RaftIndexInnerManager>>, index: RaftIndexDto, change_member: bool, last_applied_log: u64
    returns (Option<Box<RaftIndexInnerManager>>, bool)
@@ RaftIndexManager::write_index chain 1 spec
    requires records_fit(), inner is Some ==> inner.unwrap().file.contents().len() >= 8
    ensures r.1 == change_member, r.0 is Some == inner is Some,
        inner is Some ==> written(*inner.unwrap(), *r.0.unwrap(), index),
@@ RaftIndexManager::write_index spec
    requires records_fit(), old(self).inner is Some ==> old(self).inner.unwrap().file.contents().len() >= 8
    // C05 (actor level, A-WAIT): the record handed to the actor is the record RaftIndexInnerManager::write_index writes — before
    // the actor takes its next message; without an I/O fault the file then holds exactly it behind the untouched header
    ensures
        old(self).inner is None ==> r is Err && final(self).inner is None,
        old(self).inner is Some ==> r is Ok && final(self).inner is Some && written(*old(self).inner.unwrap(), *final(self).inner.unwrap(), index),
@@ RaftIndexManager::write_last_applied_log chain 1
    env mut inner: Option<Box<RaftIndexInnerManager>>, index: RaftIndexDto, change_member: bool, last_applied_log: u64
    returns Option<Box<RaftIndexInnerManager>>
@@ RaftIndexManager::write_last_applied_log chain 1 spec
    requires inner is Some ==> inner.unwrap().file.contents().len() >= 8
    ensures r is Some == inner is Some,
        inner is Some ==> applied_written(*inner.unwrap(), *r.unwrap(), last_applied_log),
@@ RaftIndexManager::write_last_applied_log spec
    requires old(self).inner is Some ==> old(self).inner.unwrap().file.contents().len() >= 8
    ensures
        old(self).inner is None ==> r is Err && final(self).inner is None,
        old(self).inner is Some ==> r is Ok && final(self).inner is Some && applied_written(*old(self).inner.unwrap(), *final(self).inner.unwrap(), last_applied_log),
@@ RaftIndexManager::load_index_info spec
    ensures self.inner is Some ==> (r matches Ok(RaftIndexResponse::RaftIndexInfo { raft_index, last_applied_log })
            && raft_index == self.inner.unwrap().raft_index && last_applied_log == self.inner.unwrap().last_applied_log),
        self.inner is None ==> r is Err,
@@ RaftIndexManager::handle@Handler<RaftIndexRequest> t20_calls write_index write_last_applied_log write_logs write_snapshots write_member add_node_addr write_hard_state
@@ RaftIndexManager::handle@Handler<RaftIndexRequest> subst
    Self::Context => Context<Self>
@@ RaftIndexManager::handle@Handler<RaftIndexRequest> spec
    requires records_fit(), old(self).inner is Some ==> old(self).inner.unwrap().file.contents().len() >= 8
    // C05 (message level, A-WAIT): every save message ends — before the next message is taken — with the file holding the saved value
    // (no I/O fault), and touches nothing but what it names; a query answers from what was saved last
    ensures
        old(self).inner is Some ==> final(self).inner is Some && ({
            let o = old(self).inner.unwrap();
            let n = final(self).inner.unwrap();
            match msg {
                RaftIndexRequest::SaveHardState { current_term, voted_for } => r is Ok && saved(o, n)
                    && n.raft_index == (RaftIndexDto { current_term: current_term, voted_for: voted_for, ..o.raft_index }),
                RaftIndexRequest::SaveLogs(logs) => r is Ok && saved(o, n) && n.raft_index == (RaftIndexDto { logs: logs, ..o.raft_index }),
                RaftIndexRequest::SaveSnapshots(snapshots) => r is Ok && saved(o, n) && n.raft_index == (RaftIndexDto { snapshots: snapshots, ..o.raft_index }),
                RaftIndexRequest::SaveLastAppliedLog(la) => r is Ok && applied_written(*o, *n, la),
                RaftIndexRequest::SaveMember { member, member_after_consensus, node_addr } => r is Ok && saved(o, n)
                    && n.raft_index.member == member && n.raft_index.current_term == o.raft_index.current_term && n.raft_index.voted_for == o.raft_index.voted_for
                    && n.raft_index.logs == o.raft_index.logs && n.raft_index.snapshots == o.raft_index.snapshots,
                RaftIndexRequest::AddNodeAddr(id, node_addr) => r is Ok && saved(o, n)
                    && n.raft_index.node_addrs@ == o.raft_index.node_addrs@.insert(id, node_addr)
                    && n.raft_index.current_term == o.raft_index.current_term && n.raft_index.voted_for == o.raft_index.voted_for && n.raft_index.member == o.raft_index.member,
                RaftIndexRequest::LoadIndexInfo => n == o && (r matches Ok(RaftIndexResponse::RaftIndexInfo { raft_index, last_applied_log })
                    && raft_index == o.raft_index && last_applied_log == o.last_applied_log),
                _ => n == o,
            }
        }),
