verus!{}
