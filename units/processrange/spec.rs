verus! {

/// a node counts as alive: the local node, or a node whose status is Valid
pub open spec fn node_valid(n: ClusterInnerNode) -> bool { n.is_local || n.status == NodeStatus::Valid }

impl InnerNodeManage {
    /// every node record is stored under its own id
    pub open spec fn nodes_wf(&self) -> bool {
        forall|k: u64| #[trigger] self.all_nodes@.contains_key(k) ==> self.all_nodes@[k].id == k
    }
    /// the range this node answers with is the one its view gives (rank among the valid nodes, number of valid nodes)
    pub open spec fn range_in_sync(&self) -> bool {
        if self.all_nodes@.dom().len() == 0 { self.current_range.index == 0 && self.current_range.len == 1 }
        else { self.current_range.len == self.valid_nodes().len() && self.current_range.index == self.valid_below().len() }
    }
    pub open spec fn valid_nodes(&self) -> Set<ClusterInnerNode> {
        self.all_nodes@.values().filter(|v: ClusterInnerNode| node_valid(v))
    }
    /// valid nodes with a smaller id than this node: this node's rank among the valid nodes
    pub open spec fn valid_below(&self) -> Set<ClusterInnerNode> {
        self.all_nodes@.values().filter(|v: ClusterInnerNode| node_valid(v) && v.id < self.local_id)
    }
}

pub open spec fn seen<T>(s: Seq<T>, n: int) -> Set<T> { s.take(n).to_set() }

pub proof fn lemma_seen_next<T>(s: Seq<T>, n: int)
    requires s.no_duplicates(), 0 <= n < s.len()
    ensures seen(s, n + 1) == seen(s, n).insert(s[n]), !seen(s, n).contains(s[n]), seen(s, 0) == Set::<T>::empty()
{
    let a = s.take(n + 1);
    let b = s.take(n);
    assert(a =~= b.push(s[n]));
    assert(a.to_set() =~= b.to_set().insert(s[n])) by {
        assert forall|x: T| a.to_set().contains(x) <==> b.to_set().insert(s[n]).contains(x) by {
            if a.contains(x) { let i = choose|i: int| 0 <= i < a.len() && a[i] == x; if i < n { assert(b[i] == x); } }
            if b.contains(x) { let i = choose|i: int| 0 <= i < b.len() && b[i] == x; assert(a[i] == x); }
            assert(a[n] == s[n]);
        }
    }
    if b.contains(s[n]) { let i = choose|i: int| 0 <= i < b.len() && b[i] == s[n]; assert(s[i] == s[n]); }
    assert(s.take(0).to_set() =~= Set::<T>::empty());
}

pub proof fn lemma_seen_zero<T>()
    ensures forall|s: Seq<T>| #[trigger] seen(s, 0) == Set::<T>::empty()
{
    assert forall|s: Seq<T>| #[trigger] seen(s, 0) == Set::<T>::empty() by { assert(s.take(0).to_set() =~= Set::<T>::empty()); }
}

/// the values of a map whose records carry their own key, listed once each, form a duplicate-free sequence
pub proof fn lemma_values_nodup(m: Map<u64, ClusterInnerNode>)
    requires forall|k: u64| #[trigger] m.contains_key(k) ==> m[k].id == k
    ensures forall|s: Seq<ClusterInnerNode>| s.to_set() == m.values() && s.len() == m.dom().len() ==> #[trigger] s.no_duplicates()
{
    assert(m.is_injective()) by {
        assert forall|x: u64, y: u64| x != y && m.dom().contains(x) && m.dom().contains(y) implies #[trigger] m[x] != #[trigger] m[y] by {}
    }
    m.lemma_injective_values_len();
    assert forall|s: Seq<ClusterInnerNode>| s.to_set() == m.values() && s.len() == m.dom().len() implies #[trigger] s.no_duplicates() by {
        s.lemma_no_dup_set_cardinality();
    }
}

pub proof fn lemma_filter_insert<T>(a: Set<T>, x: T, p: spec_fn(T) -> bool)
    requires !a.contains(x)
    ensures a.insert(x).filter(p).len() == a.filter(p).len() + (if p(x) { 1int } else { 0int })
{
    if p(x) {
        assert(a.insert(x).filter(p) =~= a.filter(p).insert(x));
    } else {
        assert(a.insert(x).filter(p) =~= a.filter(p));
    }
}

// ------------------------------------------------------------------ C14 at spec level: exactly one owner, routing agrees
/// rank of x among the ids of a view
pub open spec fn rank(v: Set<u64>, x: u64) -> int { v.filter(|y: u64| y < x).len() as int }

/// the slot arithmetic of ProcessRange::is_range for the node with rank `idx` among `len` valid nodes
pub open spec fn owns(idx: int, len: int, hash: int) -> bool { len < 2 || hash % len == idx }

pub open spec fn has_rank(v: Set<u64>, r: int) -> bool { exists|x: u64| v.contains(x) && #[trigger] rank(v, x) == r }

/// ranks of the members of a finite non-empty set are exactly 0..|v|-1, each taken once
pub proof fn lemma_rank_bijection(v: Set<u64>)
    requires v.len() > 0
    ensures forall|x: u64| v.contains(x) ==> 0 <= #[trigger] rank(v, x) < v.len(),
        forall|x: u64, y: u64| v.contains(x) && v.contains(y) && rank(v, x) == rank(v, y) ==> x == y,
        forall|r: int| 0 <= r < v.len() ==> #[trigger] has_rank(v, r),
    decreases v.len()
{
    // the maximum of v has rank |v|-1; the rest is handled by induction on v without its maximum
    let m = choose|m: u64| v.contains(m) && forall|y: u64| v.contains(y) ==> y <= m;
    lemma_has_max(v);
    let w = v.remove(m);
    assert(w.len() == v.len() - 1);
    assert(v.filter(|y: u64| y < m) =~= w);
    assert forall|x: u64| w.contains(x) implies rank(v, x) == rank(w, x) by {
        assert(v.filter(|y: u64| y < x) =~= w.filter(|y: u64| y < x));
    }
    if w.len() > 0 {
        lemma_rank_bijection(w);
        assert forall|r: int| 0 <= r < v.len() implies #[trigger] has_rank(v, r) by {
            if r < w.len() {
                assert(has_rank(w, r));
                let x = choose|x: u64| w.contains(x) && rank(w, x) == r;
                assert(v.contains(x) && rank(v, x) == r);
            } else {
                assert(v.contains(m) && rank(v, m) == r);
            }
        }
    } else {
        assert forall|r: int| 0 <= r < v.len() implies #[trigger] has_rank(v, r) by {
            assert(v.contains(m) && rank(v, m) == 0);
        }
        assert forall|x: u64| v.contains(x) implies x == m by { if x != m { assert(w.contains(x)); } }
    }
}

pub proof fn lemma_has_max(v: Set<u64>)
    requires v.len() > 0
    ensures exists|m: u64| v.contains(m) && forall|y: u64| v.contains(y) ==> y <= m
    decreases v.len()
{
    let a = v.choose();
    let w = v.remove(a);
    if w.len() == 0 {
        assert forall|y: u64| v.contains(y) implies y <= a by { if y != a { assert(w.contains(y)); } }
    } else {
        lemma_has_max(w);
        let mw = choose|m: u64| w.contains(m) && forall|y: u64| w.contains(y) ==> y <= m;
        let m = if a > mw { a } else { mw };
        assert(v.contains(m));
        assert forall|y: u64| v.contains(y) implies y <= m by { if y != a { assert(w.contains(y)); } }
    }
}

/// C14: for every view with at least one valid node and every hash, exactly one valid node owns it when every node computes
/// (rank among valid nodes, number of valid nodes) — which is what get_current_process_range is proved to return —
/// and that owner is the node at position hash % count of the valid nodes in id order, i.e. the node route_addr picks
pub proof fn lemma_exactly_one_owner(v: Set<u64>, hash: int)
    requires v.len() > 0, hash >= 0
    ensures exists|x: u64| v.contains(x) && owns(rank(v, x), v.len() as int, hash) && rank(v, x) == (if v.len() < 2 { 0int } else { hash % (v.len() as int) }),
        forall|x: u64, y: u64| v.contains(x) && v.contains(y) && owns(rank(v, x), v.len() as int, hash) && owns(rank(v, y), v.len() as int, hash) ==> x == y,
{
    lemma_rank_bijection(v);
    let n = v.len() as int;
    let r = if n < 2 { 0int } else { hash % n };
    assert(0 <= r < n) by(nonlinear_arith) requires n > 0, hash >= 0, r == (if n < 2 { 0int } else { hash % n });
    assert(has_rank(v, r));
    let x = choose|x: u64| v.contains(x) && rank(v, x) == r;
    assert(v.contains(x) && owns(rank(v, x), n, hash));
    if n < 2 {
        assert forall|a: u64, b: u64| v.contains(a) && v.contains(b) implies a == b by {
            assert(rank(v, a) == 0 && rank(v, b) == 0);
        }
    }
}

} // verus!
