verus! {
pub struct ClusteSyncSender {}
pub struct RaftClusterRequestSender {}
pub struct NamingActor {}
#[verifier::external_body]
#[verifier::reject_recursive_types(A)]
pub struct Addr<A> { inner: core::marker::PhantomData<A> }

/// A-CLOCK: the wall clock reads later than 2020-09-13 (so `now_millis() - 15000` does not wrap)
#[verifier::external_body]
pub fn now_millis() -> (r: u64) ensures r >= 1_600_000_000_000 { unimplemented!() }

/// T16 stand-in for the `values_mut()` loop of InnerNodeManage::check_node_status (no vstd model of BTreeMap::values_mut):
/// ASSUMED: the loop changes only `status` and `client_set` of the records — no record is added, removed or re-keyed.
#[verifier::external_body]
pub fn vx_check_nodes_loop(all_nodes: &mut BTreeMap<u64, ClusterInnerNode>, naming_actor: &Option<Addr<NamingActor>>, timeout: u64)
    ensures final(all_nodes)@.dom() == old(all_nodes)@.dom(),
        forall|k: u64| #[trigger] old(all_nodes)@.contains_key(k) ==> final(all_nodes)@[k].id == old(all_nodes)@[k].id && final(all_nodes)@[k].is_local == old(all_nodes)@[k].is_local,
{ unimplemented!() }
} // verus!
