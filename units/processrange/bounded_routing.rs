// Bounded stand-in (always run, labelled bounded, never counted as proved) for the ROUTING half of C14:
// NodeManage::route_addr / get_all_valid_nodes (iterator adapters over an actor reply, DefaultHasher) and
// InnerNodeManage::update_nodes (actix Context, Addr creation) are outside Verus.
// Clusters of up to 3 nodes; every sequence of up to 3 membership notifications drawn from 7 variants (subsets that contain
// node 1, a joiner, a re-announced address); every node receives the same sequence (same view).  For 120 service keys:
// exactly one node of the view claims the key with its process range, and every node routes the key to precisely that node.
use super::*;
use crate::common::hash_utils::get_hash_value;
use crate::common::AppSysConfig;
use crate::naming::model::ServiceKey;
use crate::raft::network::factory::RaftConnectionFactory;

fn addr_of(id: u64, gen: u64) -> Arc<String> { Arc::new(format!("127.0.0.1:{}", 9800 + id + 100 * gen)) }

fn start_node(local_id: u64, sender: Arc<RaftClusterRequestSender>) -> Addr<InnerNodeManage> {
    let mut inner = InnerNodeManage::new(local_id);
    inner.cluster_sender = Some(sender);
    inner.first_query_snapshot = true;   // no snapshot traffic
    inner.start()
}

async fn current_range(addr: &Addr<InnerNodeManage>) -> ProcessRange {
    match addr.send(NodeManageRequest::QueryOwnerRange(ProcessRange::new(0, 1))).await.unwrap().unwrap() {
        NodeManageResponse::OwnerRange(list) => list[0].clone(),
        _ => panic!("unexpected response"),
    }
}

#[actix::test]
async fn vx_bounded_c14_routing() {
    let factory = RaftConnectionFactory::new(60).start();
    let sender = Arc::new(RaftClusterRequestSender::new(factory, Arc::new(AppSysConfig::default())));
    // membership notifications: (node id, address generation)
    let variants: Vec<Vec<(u64, u64)>> = vec![
        vec![(1, 0)], vec![(1, 0), (2, 0)], vec![(1, 0), (3, 0)], vec![(1, 0), (2, 0), (3, 0)],
        vec![(1, 1), (2, 0), (3, 0)], vec![(1, 0), (2, 1), (3, 0)], vec![(1, 0), (2, 0), (3, 1)],
    ];
    let keys: Vec<ServiceKey> = (0..120).map(|i| ServiceKey::new("public", "DEFAULT_GROUP", &format!("service_{}", i))).collect();
    let mut seqs: Vec<Vec<usize>> = vec![];
    for a in 0..variants.len() { seqs.push(vec![a]); for b in 0..variants.len() { seqs.push(vec![a, b]); for c in 0..variants.len() { if (a + b + c) % 2 == 0 { seqs.push(vec![a, b, c]); } } } }
    let mut checked = 0usize;
    for seq in seqs.iter() {
        let last = &variants[*seq.last().unwrap()];
        let ids: Vec<u64> = last.iter().map(|e| e.0).collect();            // the nodes of the final view
        let inners: Vec<Addr<InnerNodeManage>> = ids.iter().map(|id| start_node(*id, sender.clone())).collect();
        for inner in &inners {
            for v in seq.iter() {
                let list: Vec<(u64, Arc<String>)> = variants[*v].iter().map(|e| (e.0, addr_of(e.0, e.1))).collect();
                inner.send(NodeManageRequest::UpdateNodes(list)).await.unwrap().unwrap();
            }
        }
        let mut ranges = vec![];
        for inner in &inners { ranges.push(current_range(inner).await); }
        let manages: Vec<NodeManage> = inners.iter().map(|a| NodeManage::new(a.clone())).collect();
        // nodes that were in an earlier notification but not in the last one stay in the table (update_nodes never removes): the
        // view every node holds is the union — all of them alive; only nodes we started can be asked, so restrict to final views
        // that name every node ever announced
        let mut announced: Vec<u64> = seq.iter().flat_map(|v| variants[*v].iter().map(|e| e.0)).collect();
        announced.sort(); announced.dedup();
        if announced != ids { continue; }
        let final_addr = |id: u64| -> Arc<String> { let e = last.iter().find(|e| e.0 == id).unwrap(); addr_of(e.0, e.1) };
        for key in keys.iter() {
            let h = get_hash_value(key) as usize;
            let owners: Vec<usize> = (0..ids.len()).filter(|n| ranges[*n].is_range(h)).collect();
            assert!(owners.len() == 1, "VX-BOUNDED after notifications {:?} key {:?} has owners {:?} (ranges {:?})", seq.iter().map(|v| &variants[*v]).collect::<Vec<_>>(), key, owners, ranges);
            let owner = owners[0];
            for (n, manage) in manages.iter().enumerate() {
                match manage.route_addr(key).await {
                    NamingRouteAddr::Local(_) => assert!(n == owner, "VX-BOUNDED after notifications {:?}: node {} handles {:?} locally but the owner is node {}", seq.iter().map(|v| &variants[*v]).collect::<Vec<_>>(), ids[n], key, ids[owner]),
                    NamingRouteAddr::Remote(_, addr) => assert!(n != owner && addr == final_addr(ids[owner]),
                        "VX-BOUNDED after notifications {:?}: node {} routes {:?} to {} but the owner is node {} at {}", seq.iter().map(|v| &variants[*v]).collect::<Vec<_>>(), ids[n], key, addr, ids[owner], final_addr(ids[owner])),
                }
            }
            checked += 1;
        }
    }
    assert!(checked > 5000, "only {} (sequence, key) pairs checked", checked);
}
