@@ ProcessRange::new spec
    ensures r.index == index, r.len == len
@@ ProcessRange::is_range spec
    // C14: a node with slot `index` of `len` owns exactly the hashes congruent to its slot (everything when alone)
    ensures r == owns(self.index as int, self.len as int, hash_value as int)
@@ ProcessRange::is_range_at_list foriter 1 it
@@ ProcessRange::is_range_at_list spec
    ensures r == exists|i: int| 0 <= i < ranges@.len() && owns(ranges@[i].index as int, ranges@[i].len as int, hash_value as int)
@@ ProcessRange::is_range_at_list loop 1
    invariant it.seq().unref() == ranges@,
        forall|i: int| 0 <= i < it.index@ ==> !owns(ranges@[i].index as int, ranges@[i].len as int, hash_value as int),
@@ ClusterInnerNode::is_valid spec
    ensures r == node_valid(*self)
@@ InnerNodeManage::get_current_process_range foriter 1 it
@@ InnerNodeManage::get_current_process_range spec
    requires self.nodes_wf(), self.all_nodes@.dom().len() < 0x1_0000_0000
    // C14: this node's slot is its rank among the valid nodes, the modulus is the number of valid nodes
    ensures self.all_nodes@.dom().len() == 0 ==> r.index == 0 && r.len == 1,
        self.all_nodes@.dom().len() > 0 ==> r.len == self.valid_nodes().len() && r.index == self.valid_below().len(),
@@ InnerNodeManage::get_current_process_range entry
    broadcast use vstd::std_specs::btree::group_btree_axioms;
    let ghost m = self.all_nodes@;
    let ghost lid = self.local_id;
    let ghost p1 = |v: ClusterInnerNode| node_valid(v);
    let ghost p2 = |v: ClusterInnerNode| node_valid(v) && v.id < lid;
@@ InnerNodeManage::get_current_process_range before_loop 1
    proof {
        lemma_values_nodup(m);
        lemma_seen_zero::<ClusterInnerNode>();
        assert(Set::<ClusterInnerNode>::empty().filter(p1) =~= Set::<ClusterInnerNode>::empty());
        assert(Set::<ClusterInnerNode>::empty().filter(p2) =~= Set::<ClusterInnerNode>::empty());
        assert forall|s: Seq<ClusterInnerNode>| s.len() == 0 implies #[trigger] s.to_set() =~= Set::<ClusterInnerNode>::empty() by {}
    }
@@ InnerNodeManage::get_current_process_range loop 1
    invariant
        it.seq().unref().to_set() == m.values(), it.seq().len() == m.dom().len(), it.seq().unref().no_duplicates(),
        m.dom().len() < 0x1_0000_0000, lid == self.local_id,
        len == seen(it.seq().unref(), it.index@).filter(p1).len(), index == seen(it.seq().unref(), it.index@).filter(p2).len(),
        len <= it.index@, index <= it.index@,
        forall|v: ClusterInnerNode| #[trigger] p1(v) == node_valid(v), forall|v: ClusterInnerNode| #[trigger] p2(v) == (node_valid(v) && v.id < lid),
        it.index@ == it.seq().len() ==> (len == m.values().filter(p1).len() && index == m.values().filter(p2).len()),
@@ InnerNodeManage::get_current_process_range loop 1 body_entry
    proof {
        let s = it.seq().unref();
        lemma_seen_next(s, it.index@);
        lemma_filter_insert(seen(s, it.index@), s[it.index@], p1);
        lemma_filter_insert(seen(s, it.index@), s[it.index@], p2);
        assert(s[it.index@] == *it.seq()[it.index@]);
        assert(s.take(s.len() as int) =~= s);
        assert(*node == s[it.index@]);
        assert(p1(s[it.index@]) == node_valid(*node));
        assert(p2(s[it.index@]) == (node_valid(*node) && node.id < lid));
    }
    let ghost len0 = len as int;
    let ghost index0 = index as int;
    let ghost idx0 = it.index@;
@@ InnerNodeManage::get_current_process_range loop 1 body_exit
    proof {
        let s = it.seq().unref();
        assert(len == len0 + (if p1(s[idx0]) { 1int } else { 0int }));
        assert(index == index0 + (if p2(s[idx0]) { 1int } else { 0int }));
        assert(seen(s, idx0 + 1).filter(p1).len() == len);
    }
@@ InnerNodeManage::get_current_process_range before_tail
    proof {
        assert(m.values().filter(p1) =~= self.valid_nodes());
        assert(m.values().filter(p2) =~= self.valid_below());
    }
@@ InnerNodeManage::clear_timeout_process_range external
@@ InnerNodeManage::clear_timeout_process_range spec
    // assumed (T7): `for (range, t) in &self.history_ranges` — tuple pattern over a Vec of tuples; only the history list changes
    ensures final(self).all_nodes@ == old(self).all_nodes@, final(self).local_id == old(self).local_id,
        final(self).current_range == old(self).current_range,
@@ InnerNodeManage::update_process_range spec
    requires old(self).nodes_wf(), old(self).all_nodes@.dom().len() < 0x1_0000_0000
    // C14: after the call the range this node answers with is the one its current view of the cluster gives
    ensures final(self).all_nodes@ == old(self).all_nodes@, final(self).local_id == old(self).local_id,
        final(self).range_in_sync(),
@@ InnerNodeManage::update_process_range exit
    proof { assert(self.range_in_sync()); }
@@ InnerNodeManage::check_node_status spec
    requires old(self).nodes_wf(), old(self).all_nodes@.dom().len() < 0x1_0000_0000
    // C14: every periodic check leaves the range in sync with the view, whatever the statuses were before
    // (a peer that answered a ping again was set Valid by active_node / node_add_client without recomputing the range)
    ensures final(self).range_in_sync(), final(self).local_id == old(self).local_id, final(self).nodes_wf(),
        final(self).all_nodes@.dom() == old(self).all_nodes@.dom(),
@@ InnerNodeManage::check_node_status havoc_loop 1
        vx_check_nodes_loop(&mut self.all_nodes, naming_actor, timeout);
