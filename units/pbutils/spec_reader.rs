verus! {
impl MessageBufReader {
    pub closed spec fn wf(&self) -> bool {
        self.start <= self.end <= self.buf@.len() && 1 <= self.buf@.len() <= 0x100_0000_0000
    }
    pub closed spec fn view(&self) -> Seq<u8> {
        self.buf@.subrange(self.start as int, self.end as int)
    }
}
}
