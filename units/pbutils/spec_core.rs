verus! {

// ------------------------------------------------------------------ varint (LEB128)

/// LEB128 encoding of a natural number
pub open spec fn enc(v: nat) -> Seq<u8>
    decreases v
{
    if v < 128 { seq![v as u8] } else { seq![((v % 128) + 128) as u8].add(enc(v / 128)) }
}

/// number of bytes of the leading varint of `s` if it terminates inside `s`
pub open spec fn vlen(s: Seq<u8>) -> Option<int>
    decreases s.len()
{
    if s.len() == 0 { None }
    else if s[0] & 0x80 == 0 { Some(1int) }
    else { match vlen(s.skip(1)) { Some(n) => Some(n + 1), None => None } }
}

/// value of the leading varint (defined when vlen is Some)
pub open spec fn vval(s: Seq<u8>) -> nat
    decreases s.len()
{
    if s.len() == 0 { 0 }
    else if s[0] & 0x80 == 0 { s[0] as nat }
    else { (s[0] & 0x7f) as nat + 128 * vval(s.skip(1)) }
}

pub proof fn lemma_enc_len(v: nat)
    ensures 1 <= enc(v).len(),
        v < 0x80 <==> enc(v).len() == 1,
    decreases v
{
    if v >= 128 { lemma_enc_len(v / 128); }
}

/// |enc(v)| as a closed form: the table of `inner_sizeof_varint`
pub open spec fn enc_len(v: nat) -> int {
    if v < 0x80 { 1 } else if v < 0x4000 { 2 } else if v < 0x20_0000 { 3 } else if v < 0x1000_0000 { 4 }
    else if v < 0x8_0000_0000 { 5 } else if v < 0x400_0000_0000 { 6 } else if v < 0x2_0000_0000_0000 { 7 }
    else if v < 0x100_0000_0000_0000 { 8 } else if v < 0x8000_0000_0000_0000 { 9 } else { 10 }
}

pub proof fn lemma_enc_len_table(v: nat)
    requires v <= u64::MAX
    ensures enc(v).len() == enc_len(v)
{
    reveal_with_fuel(enc, 11);
}

/// decode(encode(v) ++ t) == v, consuming exactly |enc(v)| bytes
pub proof fn lemma_dec_enc(v: nat, t: Seq<u8>)
    ensures vlen(enc(v).add(t)) == Some(enc(v).len() as int), vval(enc(v).add(t)) == v
    decreases v
{
    let s = enc(v).add(t);
    if v < 128 {
        let b = v as u8;
        assert(b < 128 ==> b & 0x80 == 0) by(bit_vector);
        assert(s[0] == b);
    } else {
        let b = ((v % 128) + 128) as u8;
        assert(b >= 128 ==> b & 0x80 != 0) by(bit_vector);
        assert(b >= 128 ==> (b & 0x7f) == b - 128) by(bit_vector);
        assert(s[0] == b);
        assert(s.skip(1) =~= enc(v / 128).add(t));
        lemma_dec_enc(v / 128, t);
    }
}

pub proof fn lemma_vlen_prefix(a: Seq<u8>, b: Seq<u8>)
    requires vlen(a) is Some
    ensures vlen(a.add(b)) == vlen(a), vval(a.add(b)) == vval(a)
    decreases a.len()
{
    let s = a.add(b);
    assert(s[0] == a[0]);
    if a[0] & 0x80 == 0 {
    } else {
        assert(s.skip(1) =~= a.skip(1).add(b));
        lemma_vlen_prefix(a.skip(1), b);
    }
}

pub proof fn lemma_vlen_bounds(s: Seq<u8>)
    requires vlen(s) is Some
    ensures 1 <= vlen(s).unwrap() <= s.len()
    decreases s.len()
{
    if s[0] & 0x80 == 0 { } else { lemma_vlen_bounds(s.skip(1)); }
}

pub proof fn lemma_vlen_scan(s: Seq<u8>, k: int)
    requires 1 <= k <= s.len(),
        forall|j: int| 0 <= j < k - 1 ==> s[j] & 0x80 != 0,
        s[k - 1] & 0x80 == 0,
    ensures vlen(s) == Some(k)
    decreases k
{
    if k == 1 { } else {
        assert(s[0] & 0x80 != 0);
        let t = s.skip(1);
        assert forall|j: int| 0 <= j < k - 2 implies t[j] & 0x80 != 0 by { assert(t[j] == s[j + 1]); }
        assert(t[k - 2] == s[k - 1]);
        lemma_vlen_scan(t, k - 1);
    }
}

// ------------------------------------------------------------------ read_varint64_offset (unrolled decoder)

/// sum of the 7-bit groups of k bytes starting at s[i], little end first
pub open spec fn vsum_at(s: Seq<u8>, i: int, k: int) -> nat
    decreases k
{
    if k <= 0 { 0 } else { (s[i] & 0x7f) as nat + 128 * vsum_at(s, i + 1, k - 1) }
}

/// k bytes at offset `off`: the first k-1 carry the continuation bit, the k-th does not  ==>  the varint at `off` is exactly those k bytes
pub proof fn lemma_vprefix_at(b: Seq<u8>, off: int, k: int)
    requires 0 <= off, 1 <= k, off + k <= b.len(),
        forall|j: int| 0 <= j < k - 1 ==> #[trigger] b[off + j] & 0x80 != 0,
        b[off + k - 1] & 0x80 == 0,
    ensures vlen(b.skip(off)) == Some(k), vval(b.skip(off)) == vsum_at(b, off, k)
    decreases k
{
    let s = b.skip(off);
    assert(s[0] == b[off]);
    if k == 1 {
        let x = b[off];
        assert(x & 0x80 == 0 ==> x & 0x7f == x) by(bit_vector);
        reveal_with_fuel(vsum_at, 2);
    } else {
        assert(b[off + 0] & 0x80 != 0);
        assert forall|j: int| 0 <= j < k - 2 implies #[trigger] b[off + 1 + j] & 0x80 != 0 by { assert(b[off + (j + 1)] & 0x80 != 0); }
        lemma_vprefix_at(b, off + 1, k - 1);
        assert(s.skip(1) =~= b.skip(off + 1));
    }
}

/// one `acc |= ((b & 0x7f) as u32) << 7` step of the decoder adds the group at its place value
pub proof fn lemma_or_group7(acc: u32, b: u8)
    by(bit_vector)
    requires acc < 128u32
    ensures (acc | (((b & 0x7f) as u32) << 7)) == acc + ((b & 0x7f) as u32) * 128u32,
        (acc | (((b & 0x7f) as u32) << 7)) < 16384u32,
{}

/// one `acc |= ((b & 0x7f) as u32) << 14` step of the decoder adds the group at its place value
pub proof fn lemma_or_group14(acc: u32, b: u8)
    by(bit_vector)
    requires acc < 16384u32
    ensures (acc | (((b & 0x7f) as u32) << 14)) == acc + ((b & 0x7f) as u32) * 16384u32,
        (acc | (((b & 0x7f) as u32) << 14)) < 0x20_0000u32,
{}

/// one `acc |= ((b & 0x7f) as u32) << 21` step of the decoder adds the group at its place value
pub proof fn lemma_or_group21(acc: u32, b: u8)
    by(bit_vector)
    requires acc < 0x20_0000u32
    ensures (acc | (((b & 0x7f) as u32) << 21)) == acc + ((b & 0x7f) as u32) * 0x20_0000u32,
        (acc | (((b & 0x7f) as u32) << 21)) < 0x1000_0000u32,
{}

pub proof fn lemma_low_group(b: u8)
    by(bit_vector)
    ensures ((b & 0x7f) as u32) < 128u32
{}

/// `lo as u64 | (hi as u64) << 28` for a 28-bit lo
pub proof fn lemma_or_28(lo: u32, hi: u32)
    by(bit_vector)
    requires lo < 0x1000_0000u32, hi < 0x1000_0000u32
    ensures (lo as u64 | ((hi as u64) << 28)) == (lo as u64) + (hi as u64) * 0x1000_0000u64,
        (lo as u64 | ((hi as u64) << 28)) < 0x100_0000_0000_0000u64
{}

/// `x | (r2 as u64) << 56` for a 56-bit x and an r2 that fits in 8 bits (no truncation)
pub proof fn lemma_or_56(x: u64, r2: u32)
    by(bit_vector)
    requires x < 0x100_0000_0000_0000u64, r2 < 256u32
    ensures (x | ((r2 as u64) << 56)) == x + (r2 as u64) * 0x100_0000_0000_0000u64
{}

/// the tenth byte: `r2 |= (b as u32) << 7` (the whole byte, not its low 7 bits)
pub proof fn lemma_or_last(g: u32, b: u8)
    by(bit_vector)
    requires g < 128u32, b & 0x80 == 0
    ensures (g | ((b as u32) << 7)) == g + ((b & 0x7f) as u32) * 128u32,
        (b & 0x7f) as u32 <= 1u32 ==> (g | ((b as u32) << 7)) < 256u32
{}

pub proof fn lemma_vlen_none(s: Seq<u8>)
    requires forall|j: int| 0 <= j < s.len() ==> s[j] & 0x80 != 0
    ensures vlen(s) is None
    decreases s.len()
{
    if s.len() > 0 {
        let t = s.skip(1);
        assert forall|j: int| 0 <= j < t.len() implies t[j] & 0x80 != 0 by { assert(t[j] == s[j + 1]); }
        lemma_vlen_none(t);
    }
}

/// the bytes before the end of the leading varint all have the continuation bit
pub proof fn lemma_vlen_bits(s: Seq<u8>)
    requires vlen(s) is Some
    ensures forall|j: int| 0 <= j < vlen(s).unwrap() - 1 ==> s[j] & 0x80 != 0,
        s[vlen(s).unwrap() - 1] & 0x80 == 0,
        1 <= vlen(s).unwrap() <= s.len(),
    decreases s.len()
{
    if s[0] & 0x80 == 0 { } else {
        let t = s.skip(1);
        lemma_vlen_bits(t);
        let n = vlen(t).unwrap();
        assert forall|j: int| 0 <= j < n implies s[j] & 0x80 != 0 by {
            if j > 0 { assert(s[j] == t[j - 1]); }
        }
        assert(s[n] == t[n - 1]);
    }
}

// ------------------------------------------------------------------ record streams

/// total length (prefix + body) of a complete first record of `s`
pub open spec fn first_rec(s: Seq<u8>) -> Option<int> {
    if s.len() == 0 || s[0] == 0 { None } else {
        match vlen(s) {
            Some(n) => if n <= 10 && n + vval(s) <= s.len() { Some(n + vval(s) as int) } else { None },
            None => None,
        }
    }
}

/// records of a stream: maximal sequence of complete records; stops at first 0 length / incomplete record
pub open spec fn parse(s: Seq<u8>) -> Seq<Seq<u8>>
    decreases s.len()
{
    match first_rec(s) {
        Some(n) => if 0 < n <= s.len() { seq![s.take(n)].add(parse(s.skip(n))) } else { seq![] },
        None => seq![],
    }
}

/// what is left after the complete records
pub open spec fn residue(s: Seq<u8>) -> Seq<u8>
    decreases s.len()
{
    match first_rec(s) {
        Some(n) => if 0 < n <= s.len() { residue(s.skip(n)) } else { s },
        None => s,
    }
}

pub proof fn lemma_first_rec_bounds(s: Seq<u8>)
    requires first_rec(s) is Some
    ensures 1 <= first_rec(s).unwrap() <= s.len()
{
    lemma_vlen_bounds(s);
}

pub proof fn lemma_first_rec_prefix(a: Seq<u8>, b: Seq<u8>)
    requires first_rec(a) is Some
    ensures first_rec(a.add(b)) == first_rec(a)
{
    lemma_vlen_prefix(a, b);
    assert(a.add(b)[0] == a[0]);
}

/// the chunking lemma: parsing a ++ b is parsing a, then parsing (what a left over) ++ b
pub proof fn lemma_parse_append(a: Seq<u8>, b: Seq<u8>)
    ensures parse(a.add(b)) == parse(a).add(parse(residue(a).add(b))),
            residue(a.add(b)) == residue(residue(a).add(b)),
    decreases a.len()
{
    match first_rec(a) {
        Some(n) => {
            lemma_first_rec_bounds(a);
            lemma_first_rec_prefix(a, b);
            let s = a.add(b);
            assert(s.take(n) =~= a.take(n));
            assert(s.skip(n) =~= a.skip(n).add(b));
            lemma_parse_append(a.skip(n), b);
            assert(parse(s) =~= seq![a.take(n)].add(parse(a.skip(n).add(b))));
            assert(parse(a) =~= seq![a.take(n)].add(parse(a.skip(n))));
            assert(parse(s) =~= parse(a).add(parse(residue(a).add(b))));
        }
        None => {
            assert(parse(a) =~= Seq::<Seq<u8>>::empty());
            assert(parse(a).add(parse(a.add(b))) =~= parse(a.add(b)));
        }
    }
}

/// records consumed by a scan that stops after `count` records (count == 0: stop at once),
/// at the first zero length byte, or at an incomplete record: (bytes, records)
pub open spec fn scan(s: Seq<u8>, count: nat) -> (int, nat)
    decreases s.len()
{
    if count == 0 { (0, 0) } else {
        match first_rec(s) {
            Some(n) => if 0 < n <= s.len() { let (b, c) = scan(s.skip(n), (count - 1) as nat); (n + b, c + 1) } else { (0, 0) },
            None => (0, 0),
        }
    }
}

/// a length prefix as the store writes it: at most 10 bytes, fits 32 bits, canonical (shortest) varint
pub open spec fn store_len(s: Seq<u8>) -> bool {
    vlen(s) is Some ==> (vlen(s).unwrap() <= 10 && vval(s) < 0x1_0000_0000 && vlen(s).unwrap() == enc_len(vval(s)))
}

/// streams written by the store: every length prefix met along the parse is a store length prefix
pub open spec fn ok_stream(s: Seq<u8>) -> bool
    decreases s.len()
{
    store_len(s)
    && match first_rec(s) { Some(n) => 0 < n <= s.len() ==> ok_stream(s.skip(n)), None => true }
}

/// the records are followed by a zero length byte (end marker) inside the stream
pub open spec fn terminated(s: Seq<u8>) -> bool { residue(s).len() > 0 && residue(s)[0] == 0 }

pub proof fn lemma_scan_step(s: Seq<u8>, count: nat)
    requires count > 0, first_rec(s) is Some
    ensures scan(s, count) == (first_rec(s).unwrap() + scan(s.skip(first_rec(s).unwrap()), (count - 1) as nat).0,
                              (scan(s.skip(first_rec(s).unwrap()), (count - 1) as nat).1 + 1) as nat)
{
    lemma_first_rec_bounds(s);
}

pub proof fn lemma_scan_bounds(s: Seq<u8>, count: nat)
    ensures 0 <= scan(s, count).0 <= s.len(), scan(s, count).1 <= count,
    decreases s.len()
{
    if count > 0 {
        match first_rec(s) {
            Some(n) => { lemma_first_rec_bounds(s); lemma_scan_bounds(s.skip(n), (count - 1) as nat); }
            None => {}
        }
    }
}

/// a prefix of an ok stream has an ok leading length
pub proof fn lemma_view_pre(r: Seq<u8>, n: int)
    requires 0 <= n <= r.len(), ok_stream(r)
    ensures vlen(r.take(n)) is Some ==> (vlen(r.take(n)).unwrap() <= 10 && vval(r.take(n)) < 0x1_0000_0000)
{
    if vlen(r.take(n)) is Some {
        lemma_vlen_prefix(r.take(n), r.skip(n));
        assert(r.take(n).add(r.skip(n)) =~= r);
    }
}

/// a complete record seen in a prefix window is the first record of the stream
pub proof fn lemma_consume(r: Seq<u8>, n: int, m: int, count: nat)
    requires 0 <= n <= r.len(), first_rec(r.take(n)) == Some(m), ok_stream(r), terminated(r), count > 0
    ensures first_rec(r) == Some(m), 1 <= m <= n,
        scan(r, count) == (m + scan(r.skip(m), (count - 1) as nat).0, (scan(r.skip(m), (count - 1) as nat).1 + 1) as nat),
        ok_stream(r.skip(m)), terminated(r.skip(m)),
{
    lemma_first_rec_bounds(r.take(n));
    lemma_first_rec_prefix(r.take(n), r.skip(n));
    assert(r.take(n).add(r.skip(n)) =~= r);
    lemma_scan_step(r, count);
}


// ------------------------------------------------------------------ scans only depend on the bytes they consume
/// a complete first record is also the first record of every prefix that contains it
pub proof fn lemma_first_rec_take(a: Seq<u8>, cut: int)
    requires first_rec(a) is Some, first_rec(a).unwrap() <= cut <= a.len()
    ensures first_rec(a.take(cut)) == first_rec(a)
{
    let l = vlen(a).unwrap();
    lemma_vlen_bits(a);
    lemma_vlen_bounds(a);
    let p = a.take(l);
    assert forall|j: int| 0 <= j < l - 1 implies p[j] & 0x80 != 0 by { assert(p[j] == a[j]); }
    assert(p[l - 1] == a[l - 1]);
    lemma_vlen_scan(p, l);
    lemma_vlen_prefix(p, a.skip(l));
    assert(p.add(a.skip(l)) =~= a);
    let t = a.take(cut);
    lemma_vlen_prefix(p, t.skip(l));
    assert(p.add(t.skip(l)) =~= t);
    assert(t[0] == a[0]);
}

/// two streams that agree on the bytes of the first k records of one of them scan alike
pub proof fn lemma_scan_prefix(a: Seq<u8>, b: Seq<u8>, k: nat)
    requires scan(a, k).1 == k, scan(a, k).0 <= b.len(), b.take(scan(a, k).0) == a.take(scan(a, k).0)
    ensures scan(b, k) == scan(a, k)
    decreases k
{
    lemma_scan_bounds(a, k);
    if k > 0 {
        let total = scan(a, k).0;
        match first_rec(a) {
            Some(n) => {
                lemma_first_rec_bounds(a);
                let a2 = a.skip(n);
                let k1 = (k - 1) as nat;
                lemma_scan_bounds(a2, k1);
                assert(scan(a2, k1).1 == k1);
                assert(total == n + scan(a2, k1).0);
                lemma_first_rec_take(a, total);
                let pa = a.take(total);
                assert(b.take(total).add(b.skip(total)) =~= b);
                lemma_first_rec_prefix(pa, b.skip(total));
                assert(first_rec(b) == Some(n));
                let b2 = b.skip(n);
                assert(b2.take(total - n) =~= b.take(total).skip(n));
                assert(a2.take(total - n) =~= a.take(total).skip(n));
                lemma_scan_prefix(a2, b2, k1);
            },
            None => { assert(scan(a, k) == (0int, 0nat)); }
        }
    }
}

/// scanning j <= k records of a stream with k complete records consumes a prefix of the k-record scan
pub proof fn lemma_scan_mono(s: Seq<u8>, j: nat, k: nat)
    requires j <= k, scan(s, k).1 == k
    ensures scan(s, j).1 == j, scan(s, j).0 <= scan(s, k).0
    decreases j
{
    lemma_scan_bounds(s, k);
    if j > 0 {
        match first_rec(s) {
            Some(n) => {
                lemma_first_rec_bounds(s);
                lemma_scan_bounds(s.skip(n), (k - 1) as nat);
                lemma_scan_mono(s.skip(n), (j - 1) as nat, (k - 1) as nat);
            },
            None => { assert(scan(s, k) == (0int, 0nat)); }
        }
    }
}

/// appending one complete record behind k complete records
pub proof fn lemma_scan_append(s: Seq<u8>, k: nat, n: int)
    requires scan(s, k).1 == k, 0 <= scan(s, k).0 <= s.len(), first_rec(s.skip(scan(s, k).0)) == Some(n)
    ensures scan(s, k + 1) == (scan(s, k).0 + n, k + 1)
    decreases k
{
    lemma_scan_bounds(s, k);
    if k == 0 {
        assert(s.skip(0) =~= s);
        lemma_first_rec_bounds(s);
        assert(scan(s.skip(n), 0) == (0int, 0nat));
    } else {
        match first_rec(s) {
            Some(m) => {
                lemma_first_rec_bounds(s);
                let s2 = s.skip(m);
                let k1 = (k - 1) as nat;
                lemma_scan_bounds(s2, k1);
                assert(s2.skip(scan(s2, k1).0) =~= s.skip(scan(s, k).0));
                lemma_scan_append(s2, k1, n);
            },
            None => { assert(scan(s, k) == (0int, 0nat)); }
        }
    }
}

/// ok_stream only depends on the records: k complete ok records followed by a stream that is ok
pub proof fn lemma_ok_stream_glue(s: Seq<u8>, k: nat)
    requires scan(s, k).1 == k, ok_prefixes(s, k), ok_stream(s.skip(scan(s, k).0))
    ensures ok_stream(s)
    decreases k
{
    lemma_scan_bounds(s, k);
    if k == 0 { assert(s.skip(0) =~= s); } else {
        match first_rec(s) {
            Some(m) => {
                lemma_first_rec_bounds(s);
                let s2 = s.skip(m);
                let k1 = (k - 1) as nat;
                lemma_scan_bounds(s2, k1);
                assert(s2.skip(scan(s2, k1).0) =~= s.skip(scan(s, k).0));
                lemma_ok_stream_glue(s2, k1);
            },
            None => { assert(scan(s, k) == (0int, 0nat)); }
        }
    }
}
/// the first k records have store-sized length prefixes
pub open spec fn ok_prefixes(s: Seq<u8>, k: nat) -> bool
    decreases k
{
    k == 0 || (store_len(s)
        && match first_rec(s) { Some(n) => 0 < n <= s.len() ==> ok_prefixes(s.skip(n), (k - 1) as nat), None => true })
}
pub proof fn lemma_ok_stream_prefixes(s: Seq<u8>, k: nat)
    requires ok_stream(s)
    ensures ok_prefixes(s, k)
    decreases k
{
    if k > 0 {
        match first_rec(s) {
            Some(n) => { lemma_first_rec_bounds(s); lemma_ok_stream_prefixes(s.skip(n), (k - 1) as nat); },
            None => {}
        }
    }
}
/// ok_prefixes only depends on the bytes of the records
pub proof fn lemma_ok_prefixes_prefix(a: Seq<u8>, b: Seq<u8>, k: nat)
    requires scan(a, k).1 == k, ok_prefixes(a, k), scan(a, k).0 <= b.len(), b.take(scan(a, k).0) == a.take(scan(a, k).0)
    ensures ok_prefixes(b, k)
    decreases k
{
    lemma_scan_bounds(a, k);
    if k > 0 {
        let total = scan(a, k).0;
        match first_rec(a) {
            Some(n) => {
                lemma_first_rec_bounds(a);
                let a2 = a.skip(n);
                let k1 = (k - 1) as nat;
                lemma_scan_bounds(a2, k1);
                lemma_first_rec_take(a, total);
                let pa = a.take(total);
                assert(b.take(total).add(b.skip(total)) =~= b);
                lemma_first_rec_prefix(pa, b.skip(total));
                lemma_vlen_prefix(pa, b.skip(total));
                lemma_vlen_prefix(pa, a.skip(total));
                assert(pa.add(a.skip(total)) =~= a);
                let b2 = b.skip(n);
                assert(b2.take(total - n) =~= b.take(total).skip(n));
                assert(a2.take(total - n) =~= a.take(total).skip(n));
                lemma_ok_prefixes_prefix(a2, b2, k1);
            },
            None => { assert(scan(a, k) == (0int, 0nat)); }
        }
    }
}
/// a stream of zeros is an ok, terminated, empty stream
pub proof fn lemma_zero_stream(s: Seq<u8>)
    requires forall|i: int| 0 <= i < s.len() ==> s[i] == 0u8
    ensures ok_stream(s), first_rec(s) is None, s.len() > 0 ==> terminated(s)
{
    assert(0u8 & 0x80 == 0) by(bit_vector);
    if s.len() > 0 { assert(s[0] == 0u8); }
}


// ------------------------------------------------------------------ reference decoder of the Kani companion
pub open spec fn pow128(n: nat) -> nat decreases n { if n == 0 { 1 } else { 128 * pow128((n - 1) as nat) } }
pub proof fn lemma_pow128_step(n: nat) ensures pow128(n + 1) == 128 * pow128(n), pow128(n) > 0 decreases n { if n > 0 { lemma_pow128_step((n - 1) as nat); } }
pub proof fn lemma_pow128_mono(a: nat, b: nat) requires a <= b ensures pow128(a) <= pow128(b) decreases b - a {
    if a < b { lemma_pow128_mono(a, (b - 1) as nat); lemma_pow128_step((b - 1) as nat); }
}

} // verus!
