@@ write_varint64 spec
    ensures r@ == enc(v as nat)
@@ write_varint64 entry
    let ghost v0 = v;
@@ write_varint64 loop 1
    invariant enc(v0 as nat) == buf@.add(enc(v as nat))
    decreases v
@@ write_varint64 loop 1 body_entry
    assert(((v as u8) & 0x7F) | 0x80 == ((v % 128) + 128) as u8) by(bit_vector);
    assert(v >> 7 == v / 128) by(bit_vector);
    assert(enc(v as nat) == seq![((v % 128) + 128) as u8].add(enc((v / 128) as nat)));
    let ghost b0 = buf@; let ghost v1 = v;
@@ write_varint64 loop 1 body_exit
    assert(buf@.add(enc(v as nat)) =~= b0.add(enc(v1 as nat)));
@@ read_varint64 spec
    requires bytes@.len() > 0, vlen(bytes@) is Some || bytes@.len() >= 10
    ensures
        (vlen(bytes@) is Some && vlen(bytes@).unwrap() <= 10 && vval(bytes@) <= u64::MAX) ==> (r is Ok && r.unwrap() == vval(bytes@)),
        (vlen(bytes@) is None || vlen(bytes@).unwrap() > 10) ==> r is Err,
@@ read_varint64 entry
    assert(bytes@.skip(0) =~= bytes@);
@@ read_varint64_offset spec
    requires offset < bytes@.len(), vlen(bytes@.skip(offset as int)) is Some || bytes@.len() - offset >= 10
    ensures
        (vlen(bytes@.skip(offset as int)) is Some && vlen(bytes@.skip(offset as int)).unwrap() <= 10 && vval(bytes@.skip(offset as int)) <= u64::MAX)
            ==> (r is Ok && r.unwrap() == vval(bytes@.skip(offset as int))),
        (vlen(bytes@.skip(offset as int)) is None || vlen(bytes@.skip(offset as int)).unwrap() > 10) ==> r is Err,
@@ read_varint64_offset entry
    let ghost s = bytes@.skip(offset as int);
    proof {
        if vlen(s) is Some { lemma_vlen_bits(s); }
        assert forall|j: int| 0 <= j < s.len() implies s[j] == #[trigger] bytes@[offset + j] by {}
    }
@@ read_varint64_offset before_return@top 1
    proof {
        let o = offset as int;
        lemma_vprefix_at(bytes@, o, 1);
        reveal_with_fuel(vsum_at, 11);
        let b0 = bytes@[o + 0];
        lemma_low_group(b0); let a0 = (b0 & 0x7f) as u32;
        assert(b0 & 0x80 == 0 ==> b0 & 0x7f == b0) by(bit_vector);
    }
@@ read_varint64_offset before_return@top 2
    proof {
        let o = offset as int;
        lemma_vprefix_at(bytes@, o, 2);
        reveal_with_fuel(vsum_at, 11);
        let b0 = bytes@[o + 0];
        let b1 = bytes@[o + 1];
        lemma_low_group(b0); let a0 = (b0 & 0x7f) as u32;
        lemma_or_group7(a0, b1); let a1 = a0 | (((b1 & 0x7f) as u32) << 7);
        assert(r0 == a1);
    }
@@ read_varint64_offset before_return@top 3
    proof {
        let o = offset as int;
        lemma_vprefix_at(bytes@, o, 3);
        reveal_with_fuel(vsum_at, 11);
        let b0 = bytes@[o + 0];
        let b1 = bytes@[o + 1];
        let b2 = bytes@[o + 2];
        lemma_low_group(b0); let a0 = (b0 & 0x7f) as u32;
        lemma_or_group7(a0, b1); let a1 = a0 | (((b1 & 0x7f) as u32) << 7);
        lemma_or_group14(a1, b2); let a2 = a1 | (((b2 & 0x7f) as u32) << 14);
        assert(r0 == a2);
    }
@@ read_varint64_offset before_return@top 4
    proof {
        let o = offset as int;
        lemma_vprefix_at(bytes@, o, 4);
        reveal_with_fuel(vsum_at, 11);
        let b0 = bytes@[o + 0];
        let b1 = bytes@[o + 1];
        let b2 = bytes@[o + 2];
        let b3 = bytes@[o + 3];
        lemma_low_group(b0); let a0 = (b0 & 0x7f) as u32;
        lemma_or_group7(a0, b1); let a1 = a0 | (((b1 & 0x7f) as u32) << 7);
        lemma_or_group14(a1, b2); let a2 = a1 | (((b2 & 0x7f) as u32) << 14);
        lemma_or_group21(a2, b3); let a3 = a2 | (((b3 & 0x7f) as u32) << 21);
        assert(r0 == a3);
    }
@@ read_varint64_offset before_return@top 5
    proof {
        let o = offset as int;
        lemma_vprefix_at(bytes@, o, 5);
        reveal_with_fuel(vsum_at, 11);
        let b0 = bytes@[o + 0];
        let b1 = bytes@[o + 1];
        let b2 = bytes@[o + 2];
        let b3 = bytes@[o + 3];
        let b4 = bytes@[o + 4];
        lemma_low_group(b0); let a0 = (b0 & 0x7f) as u32;
        lemma_or_group7(a0, b1); let a1 = a0 | (((b1 & 0x7f) as u32) << 7);
        lemma_or_group14(a1, b2); let a2 = a1 | (((b2 & 0x7f) as u32) << 14);
        lemma_or_group21(a2, b3); let a3 = a2 | (((b3 & 0x7f) as u32) << 21);
        assert(r0 == a3);
        lemma_low_group(b4); let c0 = (b4 & 0x7f) as u32;
        assert(r1 == c0);
        lemma_or_28(r0, r1);
    }
@@ read_varint64_offset before_return@top 6
    proof {
        let o = offset as int;
        lemma_vprefix_at(bytes@, o, 6);
        reveal_with_fuel(vsum_at, 11);
        let b0 = bytes@[o + 0];
        let b1 = bytes@[o + 1];
        let b2 = bytes@[o + 2];
        let b3 = bytes@[o + 3];
        let b4 = bytes@[o + 4];
        let b5 = bytes@[o + 5];
        lemma_low_group(b0); let a0 = (b0 & 0x7f) as u32;
        lemma_or_group7(a0, b1); let a1 = a0 | (((b1 & 0x7f) as u32) << 7);
        lemma_or_group14(a1, b2); let a2 = a1 | (((b2 & 0x7f) as u32) << 14);
        lemma_or_group21(a2, b3); let a3 = a2 | (((b3 & 0x7f) as u32) << 21);
        assert(r0 == a3);
        lemma_low_group(b4); let c0 = (b4 & 0x7f) as u32;
        lemma_or_group7(c0, b5); let c1 = c0 | (((b5 & 0x7f) as u32) << 7);
        assert(r1 == c1);
        lemma_or_28(r0, r1);
    }
@@ read_varint64_offset before_return@top 7
    proof {
        let o = offset as int;
        lemma_vprefix_at(bytes@, o, 7);
        reveal_with_fuel(vsum_at, 11);
        let b0 = bytes@[o + 0];
        let b1 = bytes@[o + 1];
        let b2 = bytes@[o + 2];
        let b3 = bytes@[o + 3];
        let b4 = bytes@[o + 4];
        let b5 = bytes@[o + 5];
        let b6 = bytes@[o + 6];
        lemma_low_group(b0); let a0 = (b0 & 0x7f) as u32;
        lemma_or_group7(a0, b1); let a1 = a0 | (((b1 & 0x7f) as u32) << 7);
        lemma_or_group14(a1, b2); let a2 = a1 | (((b2 & 0x7f) as u32) << 14);
        lemma_or_group21(a2, b3); let a3 = a2 | (((b3 & 0x7f) as u32) << 21);
        assert(r0 == a3);
        lemma_low_group(b4); let c0 = (b4 & 0x7f) as u32;
        lemma_or_group7(c0, b5); let c1 = c0 | (((b5 & 0x7f) as u32) << 7);
        lemma_or_group14(c1, b6); let c2 = c1 | (((b6 & 0x7f) as u32) << 14);
        assert(r1 == c2);
        lemma_or_28(r0, r1);
    }
@@ read_varint64_offset before_return@top 8
    proof {
        let o = offset as int;
        lemma_vprefix_at(bytes@, o, 8);
        reveal_with_fuel(vsum_at, 11);
        let b0 = bytes@[o + 0];
        let b1 = bytes@[o + 1];
        let b2 = bytes@[o + 2];
        let b3 = bytes@[o + 3];
        let b4 = bytes@[o + 4];
        let b5 = bytes@[o + 5];
        let b6 = bytes@[o + 6];
        let b7 = bytes@[o + 7];
        lemma_low_group(b0); let a0 = (b0 & 0x7f) as u32;
        lemma_or_group7(a0, b1); let a1 = a0 | (((b1 & 0x7f) as u32) << 7);
        lemma_or_group14(a1, b2); let a2 = a1 | (((b2 & 0x7f) as u32) << 14);
        lemma_or_group21(a2, b3); let a3 = a2 | (((b3 & 0x7f) as u32) << 21);
        assert(r0 == a3);
        lemma_low_group(b4); let c0 = (b4 & 0x7f) as u32;
        lemma_or_group7(c0, b5); let c1 = c0 | (((b5 & 0x7f) as u32) << 7);
        lemma_or_group14(c1, b6); let c2 = c1 | (((b6 & 0x7f) as u32) << 14);
        lemma_or_group21(c2, b7); let c3 = c2 | (((b7 & 0x7f) as u32) << 21);
        assert(r1 == c3);
        lemma_or_28(r0, r1);
    }
@@ read_varint64_offset before_return@top 9
    proof {
        let o = offset as int;
        lemma_vprefix_at(bytes@, o, 9);
        reveal_with_fuel(vsum_at, 11);
        let b0 = bytes@[o + 0];
        let b1 = bytes@[o + 1];
        let b2 = bytes@[o + 2];
        let b3 = bytes@[o + 3];
        let b4 = bytes@[o + 4];
        let b5 = bytes@[o + 5];
        let b6 = bytes@[o + 6];
        let b7 = bytes@[o + 7];
        let b8 = bytes@[o + 8];
        lemma_low_group(b0); let a0 = (b0 & 0x7f) as u32;
        lemma_or_group7(a0, b1); let a1 = a0 | (((b1 & 0x7f) as u32) << 7);
        lemma_or_group14(a1, b2); let a2 = a1 | (((b2 & 0x7f) as u32) << 14);
        lemma_or_group21(a2, b3); let a3 = a2 | (((b3 & 0x7f) as u32) << 21);
        assert(r0 == a3);
        lemma_low_group(b4); let c0 = (b4 & 0x7f) as u32;
        lemma_or_group7(c0, b5); let c1 = c0 | (((b5 & 0x7f) as u32) << 7);
        lemma_or_group14(c1, b6); let c2 = c1 | (((b6 & 0x7f) as u32) << 14);
        lemma_or_group21(c2, b7); let c3 = c2 | (((b7 & 0x7f) as u32) << 21);
        assert(r1 == c3);
        lemma_or_28(r0, r1);
        lemma_low_group(b8); lemma_or_56(r0 as u64 | ((r1 as u64) << 28), r2);
    }
@@ read_varint64_offset before_return@top 10
    proof {
        let o = offset as int;
        lemma_vprefix_at(bytes@, o, 10);
        reveal_with_fuel(vsum_at, 11);
        let b0 = bytes@[o + 0];
        let b1 = bytes@[o + 1];
        let b2 = bytes@[o + 2];
        let b3 = bytes@[o + 3];
        let b4 = bytes@[o + 4];
        let b5 = bytes@[o + 5];
        let b6 = bytes@[o + 6];
        let b7 = bytes@[o + 7];
        let b8 = bytes@[o + 8];
        let b9 = bytes@[o + 9];
        lemma_low_group(b0); let a0 = (b0 & 0x7f) as u32;
        lemma_or_group7(a0, b1); let a1 = a0 | (((b1 & 0x7f) as u32) << 7);
        lemma_or_group14(a1, b2); let a2 = a1 | (((b2 & 0x7f) as u32) << 14);
        lemma_or_group21(a2, b3); let a3 = a2 | (((b3 & 0x7f) as u32) << 21);
        assert(r0 == a3);
        lemma_low_group(b4); let c0 = (b4 & 0x7f) as u32;
        lemma_or_group7(c0, b5); let c1 = c0 | (((b5 & 0x7f) as u32) << 7);
        lemma_or_group14(c1, b6); let c2 = c1 | (((b6 & 0x7f) as u32) << 14);
        lemma_or_group21(c2, b7); let c3 = c2 | (((b7 & 0x7f) as u32) << 21);
        assert(r1 == c3);
        lemma_or_28(r0, r1);
        lemma_low_group(b8); lemma_or_last((b8 & 0x7f) as u32, b9);
        if vval(bytes@.skip(o)) <= u64::MAX { lemma_or_56(r0 as u64 | ((r1 as u64) << 28), r2); }
    }
@@ inner_sizeof_varint spec
    ensures r == enc_len(v as nat), r == enc(v as nat).len()
@@ inner_sizeof_varint entry
    proof { lemma_enc_len_table(v as nat); }
@@ move_data_to_start spec
    requires start <= old(message_buf)@.len()
    ensures final(message_buf)@.len() == old(message_buf)@.len(),
        forall|j: int| 0 <= j < old(message_buf)@.len() - start ==> final(message_buf)@[j] == old(message_buf)@[j + start],
@@ move_data_to_start loop 1
    invariant
        0 < start <= message_buf@.len(), message_buf@.len() == old(message_buf)@.len(),
        forall|j: int| 0 <= j < i - start ==> message_buf@[j] == old(message_buf)@[j + start],
        forall|j: int| i - start <= j < message_buf@.len() ==> message_buf@[j] == old(message_buf)@[j],
@@ copy_data spec
    requires start + form@.len() <= old(to)@.len(), old(to)@.len() <= usize::MAX
    ensures final(to)@.len() == old(to)@.len(),
        forall|j: int| 0 <= j < start ==> final(to)@[j] == old(to)@[j],
        forall|j: int| 0 <= j < form@.len() ==> final(to)@[start + j] == form@[j],
        forall|j: int| start + form@.len() <= j < old(to)@.len() ==> final(to)@[j] == old(to)@[j],
@@ MessageBufReader::new spec
    ensures r.wf(), r.view() == Seq::<u8>::empty()
@@ MessageBufReader::new_with_data spec
    requires start <= buf@.len(), 1 <= buf@.len() <= 0x100_0000_0000
    ensures r.wf(), r.view() == buf@.skip(start as int)
@@ MessageBufReader::is_empty spec
    requires self.wf()
    ensures r ==> (self.view().len() > 0 && self.view()[0] == 0),
        (!r && self.view().len() > 0) ==> self.view()[0] != 0,
@@ MessageBufReader::append_next_buf spec
    requires old(self).wf(), old(self).view().len() + next_buf@.len() <= 0x2_0000_0000
    ensures final(self).wf(), final(self).view() == old(self).view().add(next_buf@)
@@ MessageBufReader::capacity_expansion spec
    requires old(self).wf(), old(self).buf@.len() <= 0x80_0000_0000
    ensures final(self).start == old(self).start, final(self).end == old(self).end, final(self).next_len == old(self).next_len,
        final(self).buf@.len() == 2 * old(self).buf@.len(),
        forall|j: int| 0 <= j < old(self).buf@.len() ==> final(self).buf@[j] == old(self).buf@[j],
@@ MessageBufReader::next_message_vec spec
    requires old(self).wf(),
        // streams written by the store: length prefixes fit in 10 bytes and in 32 bits
        vlen(old(self).view()) is Some ==> (vlen(old(self).view()).unwrap() <= 10 && vval(old(self).view()) < 0x1_0000_0000),
    ensures final(self).wf(),
        match r {
            Some(m) => first_rec(old(self).view()) == Some(m@.len() as int)
                && m@ == old(self).view().take(m@.len() as int)
                && final(self).view() == old(self).view().skip(m@.len() as int),
            None => final(self).view() == old(self).view()
                && (old(self).view().len() > 0 && old(self).view()[0] != 0 ==> first_rec(old(self).view()) is None),
        },
@@ MessageBufReader::append_next_buf entry
    let ghost v0 = self.view();
    let ghost b0 = self.buf@;
    let ghost s0 = self.start as int;
@@ MessageBufReader::append_next_buf loop 1
    invariant
        self.start == 0, self.end == old(self).end - old(self).start, self.end <= self.buf@.len(),
        1 <= self.buf@.len() <= 0x100_0000_0000,
        self.end + next_buf@.len() <= 0x2_0000_0000,
        forall|j: int| 0 <= j < self.end ==> self.buf@[j] == b0[j + s0],
    decreases 0x200_0000_0000 - self.buf@.len()
@@ MessageBufReader::append_next_buf exit
    proof { assert(self.view() =~= v0.add(next_buf@)); }
@@ MessageBufReader::next_message_vec entry
    let ghost v0 = self.view();
@@ MessageBufReader::next_message_vec loop 1
    invariant_except_break
        !can_read_len,
        forall|j: int| self.start <= j < i ==> self.buf@[j] & 0x80 != 0,
    invariant
        self.start <= i <= self.end, self.wf(), *self == *old(self),
    ensures
        can_read_len ==> (self.start < i <= self.end && self.buf@[i - 1] & 0x80 == 0
            && forall|j: int| self.start <= j < i - 1 ==> self.buf@[j] & 0x80 != 0),
        !can_read_len ==> forall|j: int| self.start <= j < self.end ==> self.buf@[j] & 0x80 != 0,
    decreases self.end - i
@@ MessageBufReader::next_message_vec after_loop 1
    proof {
        if can_read_len { lemma_vlen_scan(v0, i - self.start); } else { lemma_vlen_none(v0); }
    }
@@ ref_decode spec
    // the reference decoder IS the spec: Some((n, v)) exactly when the leading varint ends within 10 bytes, with its length and value
    ensures match r {
            Some(p) => vlen(s@) == Some(p.0 as int) && p.0 <= 10 && vval(s@) == p.1,
            None => vlen(s@) is None || vlen(s@).unwrap() > 10,
        },
@@ ref_decode loop 1
    invariant i <= 10, i <= s@.len(), mul == pow128(i as nat), val < mul,
        vlen(s@) == (match vlen(s@.skip(i as int)) { Some(k) => Some(k + i), None => None::<int> }),
        vval(s@) == val + mul * vval(s@.skip(i as int)),
    decreases s@.len() - i
@@ ref_decode entry
    proof { assert(s@.skip(0) =~= s@); reveal_with_fuel(pow128, 2); }
@@ ref_decode loop 1 body_entry
    proof {
        let t = s@.skip(i as int);
        assert(t[0] == s@[i as int]);
        assert(t.skip(1) =~= s@.skip(i + 1));
        lemma_pow128_step(i as nat);
        let b = s@[i as int];
        assert(b & 0x80 == 0 ==> b < 128) by(bit_vector);
        assert((b & 0x7f) < 128) by(bit_vector);
        assert(mul * 128 == pow128((i + 1) as nat));
        assert(mul <= pow128(9)) by { lemma_pow128_mono(i as nat, 9); }
        assert(pow128(9) == 0x8000_0000_0000_0000) by { reveal_with_fuel(pow128, 10); }
        // value decomposition
        assert(mul * ((b & 0x7f) as nat + 128 * vval(t.skip(1))) == ((b & 0x7f) as nat) * mul + (mul * 128) * vval(t.skip(1))) by(nonlinear_arith);
        assert(((b & 0x7f) as nat) * mul <= 127 * mul) by(nonlinear_arith) requires (b & 0x7f) < 128, mul > 0;
        assert((b as nat) * mul <= 127 * mul || b >= 128) by(nonlinear_arith) requires mul > 0;
        assert((b as nat) * mul == mul * (b as nat)) by(nonlinear_arith);
        assert(128 * mul == mul * 128) by(nonlinear_arith);
        if b & 0x80 == 0 {
            assert(vlen(t) == Some(1int));
            assert(vval(t) == b as nat);
        } else {
            assert(vval(t) == (b & 0x7f) as nat + 128 * vval(t.skip(1)));
        }
    }
@@ ref_decode after_loop 1
    proof {
        if i < s@.len() && vlen(s@.skip(i as int)) is Some { lemma_vlen_bounds(s@.skip(i as int)); }
    }
