@@ write_varint64 spec
    ensures r@ == enc(v as nat)
@@ write_varint64 entry
    let ghost v0 = v;
@@ write_varint64 loop 1
    invariant enc(v0 as nat) == buf@.add(enc(v as nat))
    decreases v
@@ write_varint64 loop 1 body_entry
    assert(((v as u8) & 0x7F) | 0x80 == ((v % 128) + 128) as u8) by(bit_vector);
    assert(v >> 7 == v / 128) by(bit_vector);
    assert(enc(v as nat) == seq![((v % 128) + 128) as u8].add(enc((v / 128) as nat)));
    let ghost b0 = buf@; let ghost v1 = v;
@@ write_varint64 loop 1 body_exit
    assert(buf@.add(enc(v as nat)) =~= b0.add(enc(v1 as nat)));
@@ read_varint64 spec
    requires bytes@.len() > 0, vlen(bytes@) is Some || bytes@.len() >= 10
    ensures
        (vlen(bytes@) is Some && vlen(bytes@).unwrap() <= 10 && vval(bytes@) <= u64::MAX) ==> (r is Ok && r.unwrap() == vval(bytes@)),
        (vlen(bytes@) is None || vlen(bytes@).unwrap() > 10) ==> r is Err,
@@ read_varint64 entry
    assert(bytes@.skip(0) =~= bytes@);
@@ read_varint64_offset external
@@ read_varint64_offset spec
    requires offset < bytes@.len(), vlen(bytes@.skip(offset as int)) is Some || bytes@.len() - offset >= 10
    ensures
        (vlen(bytes@.skip(offset as int)) is Some && vlen(bytes@.skip(offset as int)).unwrap() <= 10 && vval(bytes@.skip(offset as int)) <= u64::MAX)
            ==> (r is Ok && r.unwrap() == vval(bytes@.skip(offset as int))),
        (vlen(bytes@.skip(offset as int)) is None || vlen(bytes@.skip(offset as int)).unwrap() > 10) ==> r is Err,
@@ inner_sizeof_varint spec
    ensures r == enc_len(v as nat), r == enc(v as nat).len()
@@ inner_sizeof_varint entry
    proof { lemma_enc_len_table(v as nat); }
@@ move_data_to_start spec
    requires start <= old(message_buf)@.len()
    ensures final(message_buf)@.len() == old(message_buf)@.len(),
        forall|j: int| 0 <= j < old(message_buf)@.len() - start ==> final(message_buf)@[j] == old(message_buf)@[j + start],
@@ move_data_to_start loop 1
    invariant
        0 < start <= message_buf@.len(), message_buf@.len() == old(message_buf)@.len(),
        forall|j: int| 0 <= j < i - start ==> message_buf@[j] == old(message_buf)@[j + start],
        forall|j: int| i - start <= j < message_buf@.len() ==> message_buf@[j] == old(message_buf)@[j],
@@ copy_data spec
    requires start + form@.len() <= old(to)@.len(), old(to)@.len() <= usize::MAX
    ensures final(to)@.len() == old(to)@.len(),
        forall|j: int| 0 <= j < start ==> final(to)@[j] == old(to)@[j],
        forall|j: int| 0 <= j < form@.len() ==> final(to)@[start + j] == form@[j],
        forall|j: int| start + form@.len() <= j < old(to)@.len() ==> final(to)@[j] == old(to)@[j],
@@ MessageBufReader::new spec
    ensures r.wf(), r.view() == Seq::<u8>::empty()
@@ MessageBufReader::new_with_data spec
    requires start <= buf@.len(), 1 <= buf@.len() <= 0x100_0000_0000
    ensures r.wf(), r.view() == buf@.skip(start as int)
@@ MessageBufReader::is_empty spec
    requires self.wf()
    ensures r ==> (self.view().len() > 0 && self.view()[0] == 0),
        (!r && self.view().len() > 0) ==> self.view()[0] != 0,
@@ MessageBufReader::append_next_buf spec
    requires old(self).wf(), old(self).view().len() + next_buf@.len() <= 0x2_0000_0000
    ensures final(self).wf(), final(self).view() == old(self).view().add(next_buf@)
@@ MessageBufReader::capacity_expansion spec
    requires old(self).wf(), old(self).buf@.len() <= 0x80_0000_0000
    ensures final(self).start == old(self).start, final(self).end == old(self).end, final(self).next_len == old(self).next_len,
        final(self).buf@.len() == 2 * old(self).buf@.len(),
        forall|j: int| 0 <= j < old(self).buf@.len() ==> final(self).buf@[j] == old(self).buf@[j],
@@ MessageBufReader::next_message_vec spec
    requires old(self).wf(),
        // streams written by the store: length prefixes fit in 10 bytes and in 32 bits
        vlen(old(self).view()) is Some ==> (vlen(old(self).view()).unwrap() <= 10 && vval(old(self).view()) < 0x1_0000_0000),
    ensures final(self).wf(),
        match r {
            Some(m) => first_rec(old(self).view()) == Some(m@.len() as int)
                && m@ == old(self).view().take(m@.len() as int)
                && final(self).view() == old(self).view().skip(m@.len() as int),
            None => final(self).view() == old(self).view()
                && (old(self).view().len() > 0 && old(self).view()[0] != 0 ==> first_rec(old(self).view()) is None),
        },
@@ MessageBufReader::append_next_buf entry
    let ghost v0 = self.view();
    let ghost b0 = self.buf@;
    let ghost s0 = self.start as int;
@@ MessageBufReader::append_next_buf loop 1
    invariant
        self.start == 0, self.end == old(self).end - old(self).start, self.end <= self.buf@.len(),
        1 <= self.buf@.len() <= 0x100_0000_0000,
        self.end + next_buf@.len() <= 0x2_0000_0000,
        forall|j: int| 0 <= j < self.end ==> self.buf@[j] == b0[j + s0],
    decreases 0x200_0000_0000 - self.buf@.len()
@@ MessageBufReader::append_next_buf exit
    proof { assert(self.view() =~= v0.add(next_buf@)); }
@@ MessageBufReader::next_message_vec entry
    let ghost v0 = self.view();
@@ MessageBufReader::next_message_vec loop 1
    invariant_except_break
        !can_read_len,
        forall|j: int| self.start <= j < i ==> self.buf@[j] & 0x80 != 0,
    invariant
        self.start <= i <= self.end, self.wf(), *self == *old(self),
    ensures
        can_read_len ==> (self.start < i <= self.end && self.buf@[i - 1] & 0x80 == 0
            && forall|j: int| self.start <= j < i - 1 ==> self.buf@[j] & 0x80 != 0),
        !can_read_len ==> forall|j: int| self.start <= j < self.end ==> self.buf@[j] & 0x80 != 0,
    decreases self.end - i
@@ MessageBufReader::next_message_vec after_loop 1
    proof {
        if can_read_len { lemma_vlen_scan(v0, i - self.start); } else { lemma_vlen_none(v0); }
    }
@@ ref_decode spec
    // the reference decoder IS the spec: Some((n, v)) exactly when the leading varint ends within 10 bytes, with its length and value
    ensures match r {
            Some(p) => vlen(s@) == Some(p.0 as int) && p.0 <= 10 && vval(s@) == p.1,
            None => vlen(s@) is None || vlen(s@).unwrap() > 10,
        },
@@ ref_decode loop 1
    invariant i <= 10, i <= s@.len(), mul == pow128(i as nat), val < mul,
        vlen(s@) == (match vlen(s@.skip(i as int)) { Some(k) => Some(k + i), None => None::<int> }),
        vval(s@) == val + mul * vval(s@.skip(i as int)),
    decreases s@.len() - i
@@ ref_decode entry
    proof { assert(s@.skip(0) =~= s@); reveal_with_fuel(pow128, 2); }
@@ ref_decode loop 1 body_entry
    proof {
        let t = s@.skip(i as int);
        assert(t[0] == s@[i as int]);
        assert(t.skip(1) =~= s@.skip(i + 1));
        lemma_pow128_step(i as nat);
        let b = s@[i as int];
        assert(b & 0x80 == 0 ==> b < 128) by(bit_vector);
        assert((b & 0x7f) < 128) by(bit_vector);
        assert(mul * 128 == pow128((i + 1) as nat));
        assert(mul <= pow128(9)) by { lemma_pow128_mono(i as nat, 9); }
        assert(pow128(9) == 0x8000_0000_0000_0000) by { reveal_with_fuel(pow128, 10); }
        // value decomposition
        assert(mul * ((b & 0x7f) as nat + 128 * vval(t.skip(1))) == ((b & 0x7f) as nat) * mul + (mul * 128) * vval(t.skip(1))) by(nonlinear_arith);
        assert(((b & 0x7f) as nat) * mul <= 127 * mul) by(nonlinear_arith) requires (b & 0x7f) < 128, mul > 0;
        assert((b as nat) * mul <= 127 * mul || b >= 128) by(nonlinear_arith) requires mul > 0;
        assert((b as nat) * mul == mul * (b as nat)) by(nonlinear_arith);
        assert(128 * mul == mul * 128) by(nonlinear_arith);
        if b & 0x80 == 0 {
            assert(vlen(t) == Some(1int));
            assert(vval(t) == b as nat);
        } else {
            assert(vval(t) == (b & 0x7f) as nat + 128 * vval(t.skip(1)));
        }
    }
@@ ref_decode after_loop 1
    proof {
        if i < s@.len() && vlen(s@.skip(i as int)) is Some { lemma_vlen_bounds(s@.skip(i as int)); }
    }
