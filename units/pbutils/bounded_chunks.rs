// Bounded stand-in (always run, labelled bounded, never counted as proved) for C20 at the level of whole streams: the proof is
// per function (MessageBufReader::{append_next_buf, next_message_vec} refine `view ++ chunk` / `first record of view`); when a
// rewrite of those functions loses the proof's anchors the proof is UNDECIDED (exit 2) — this enumeration then still decides
// the statement on a bounded domain, and it runs on every check as a cross-check of the composition.
// Streams of 1..=3 records with payload lengths out of {1, 5, 127, 128, 129, 255, 256, 300, 1024, 16383, 16384} (every prefix width
// boundary of the length varint), closed by the zero end marker; EVERY split into two chunks and every split into three
// chunks whose cuts lie within 4 bytes of a record boundary or a prefix byte; every decoding must return exactly the records
// written (each as prefix ++ payload), for reader buffers that were used before (stale bytes behind the data) as well.
use super::*;

fn vx_stream(lens: &[usize]) -> (Vec<u8>, Vec<Vec<u8>>) {
    let mut stream = Vec::new();
    let mut records = Vec::new();
    for (n, len) in lens.iter().enumerate() {
        let mut rec = write_varint64(*len as u64);
        rec.extend((0..*len).map(|i| ((i * 7 + n * 31 + 1) % 251) as u8 | 0x80));   // never a zero byte, high bit set: looks like prefix bytes
        stream.extend_from_slice(&rec);
        records.push(rec);
    }
    stream.push(0);
    (stream, records)
}

fn vx_decode(reader: &mut MessageBufReader, chunks: &[&[u8]]) -> Vec<Vec<u8>> {
    let mut out = Vec::new();
    for chunk in chunks {
        reader.append_next_buf(chunk);
        while let Some(v) = reader.next_message_vec() { out.push(v.to_vec()); }
    }
    out
}

fn vx_used_reader() -> MessageBufReader {
    // a reader that has decoded something before: its buffer holds stale bytes behind the live data
    let mut r = MessageBufReader::new();
    let (s, _) = vx_stream(&[300, 129]);
    r.append_next_buf(&s[..s.len() - 1]);
    while r.next_message_vec().is_some() {}
    r
}

#[test]
fn vx_bounded_c20_chunkings() {
    let lens = [1usize, 5, 127, 128, 129, 255, 256, 300, 1024, 16383, 16384];
    let mut failures: Vec<String> = vec![];
    let mut checked = 0u64;
    let mut shapes: Vec<Vec<usize>> = vec![];
    for a in lens { shapes.push(vec![a]); for b in lens { shapes.push(vec![a, b]); } }
    for a in [5usize, 128, 256, 16384] { for b in [127usize, 128, 16383] { for c in [1usize, 128, 300] { shapes.push(vec![a, b, c]); } } }
    for shape in shapes.iter() {
        let (stream, records) = vx_stream(shape);
        // interesting cut positions: near record boundaries and inside prefixes
        let mut marks: Vec<usize> = vec![];
        let mut pos = 0usize;
        for r in records.iter() { for d in 0..6 { marks.push(pos + d); if pos + r.len() >= d { marks.push(pos + r.len() - d); } } pos += r.len(); }
        marks.retain(|m| *m >= 1 && *m < stream.len());
        marks.sort(); marks.dedup();
        for used in [false, true] {
            let mut check = |chunks: &[&[u8]], what: String| {
                let mut reader = if used { vx_used_reader() } else { MessageBufReader::new() };
                let got = vx_decode(&mut reader, chunks);
                checked += 1;
                if got != records && failures.len() < 10 {
                    let lens_got: Vec<usize> = got.iter().map(|g| g.len()).collect();
                    failures.push(format!("VX-BOUNDED-FAIL CHUNKING payloads {:?} {} (reader used before: {}): decoded {} records of total lengths {:?}, written {} records of total lengths {:?}",
                        shape, what, used, got.len(), lens_got, records.len(), records.iter().map(|g| g.len()).collect::<Vec<_>>()));
                }
            };
            check(&[&stream], "one chunk".to_owned());
            let two: Vec<usize> = if stream.len() <= 700 { (1..stream.len()).collect() } else { marks.clone() };
            for &cut in two.iter() { check(&[&stream[..cut], &stream[cut..]], format!("cut at byte {}", cut)); }
            for (i, &c1) in marks.iter().enumerate() { for &c2 in marks[i + 1..].iter() {
                check(&[&stream[..c1], &stream[c1..c2], &stream[c2..]], format!("cut at bytes {} and {}", c1, c2));
            } }
        }
    }
    println!("vx_bounded_c20_chunkings: {} chunkings of {} streams decoded", checked, shapes.len());
    for f in failures.iter() { println!("{}", f); }
    assert!(failures.is_empty(), "{} chunkings decode differently", failures.len());
}
