@@ MessagePosition::get_end_position spec
    requires self.position + self.len <= u64::MAX
    ensures r == self.position + self.len
@@ FileMessageReader::new spec
    ensures r.file == file, r.start == start
@@ FileMessageReader::seek_start spec
    ensures final(self).file.contents() == old(self).file.contents(),
        r is Ok ==> final(self).start == start && final(self).file.pos() == start,
@@ FileMessageReader::read_len spec
    requires full_read_model(), old(self).wf(),
        // streams written by the store: a length prefix fits 32 bits and is canonically encoded (write_varint64 / quick-protobuf)
        store_prefix(window10(old(self).bytes(), old(self).start as int)),
    ensures final(self).file.contents() == old(self).file.contents(), final(self).start == old(self).start,
        r is Ok ==> ({
            let w = window10(old(self).bytes(), old(self).start as int);
            &&& final(self).file.pos() == old(self).start
            // never a length at end of file or on an end marker (zero length)
            &&& old(self).rest().len() > 0 && old(self).rest()[0] != 0
            &&& vlen(w) is Some && vval(w) > 0 && r.unwrap() == vlen(w).unwrap() + vval(w)
            // a complete record at the cursor: its total length (prefix + body) is returned
            &&& (first_rec(old(self).rest()) is Some ==> r.unwrap() == first_rec(old(self).rest()).unwrap())
        }),
@@ FileMessageReader::read_len entry
    let ghost c = self.file.contents();
    let ghost st = self.start as int;
    proof {
        if first_rec(c.skip(st)) is Some { lemma_window_prefix(c, st); lemma_first_rec_bounds(c.skip(st)); }
        if vlen(window10(c, st)) is Some { lemma_vlen_bounds(window10(c, st)); lemma_enc_len_table(vval(window10(c, st))); }
        assert(0u8 & 0x80 == 0) by(bit_vector);
    }
@@ FileMessageReader::read_len before_tail
    proof {
        assert(len_buf@ =~= window10(c, st)) by {
            assert forall|i: int| 0 <= i < 10 implies len_buf@[i] == window10(c, st)[i] by {
                if i < read_len as int {
                    assert(len_buf@.take(read_len as int)[i] == c.subrange(st, st + read_len)[i]);
                } else {
                    assert(len_buf@.skip(read_len as int)[i - read_len as int] == len_buf@[i]);
                }
            }
        }
    }
@@ FileMessageReader::read_next spec
    requires full_read_model(), old(self).wf(), store_prefix(window10(old(self).bytes(), old(self).start as int)),
    ensures final(self).file.contents() == old(self).file.contents(),
        r is Ok ==> ({
            let w = window10(old(self).bytes(), old(self).start as int);
            let n = vlen(w).unwrap() + vval(w);
            &&& vlen(w) is Some && vval(w) > 0
            &&& old(self).rest().len() > 0 && old(self).rest()[0] != 0
            &&& old(self).start + n <= old(self).bytes().len()
            // the returned bytes are exactly the framed record (prefix + body) at the cursor
            &&& r.unwrap()@ == old(self).bytes().subrange(old(self).start as int, old(self).start + n)
            &&& final(self).start == old(self).start + n && final(self).file.pos() == final(self).start
            &&& (first_rec(old(self).rest()) is Some ==> n == first_rec(old(self).rest()).unwrap())
        }),
@@ FileMessageReader::read_next_position spec
    requires full_read_model(), old(self).wf(), store_prefix(window10(old(self).bytes(), old(self).start as int)),
    ensures final(self).file.contents() == old(self).file.contents(),
        r is Ok ==> ({
            let w = window10(old(self).bytes(), old(self).start as int);
            let n = vlen(w).unwrap() + vval(w);
            &&& vlen(w) is Some && vval(w) > 0
            &&& old(self).rest().len() > 0 && old(self).rest()[0] != 0
            &&& r.unwrap().position == old(self).start && r.unwrap().len == n
            &&& final(self).start == old(self).start + n && final(self).file.pos() == final(self).start
            &&& (first_rec(old(self).rest()) is Some ==> n == first_rec(old(self).rest()).unwrap())
        }),
@@ FileMessageReader::read_index_position foriter 1 it
@@ FileMessageReader::read_index_position spec
    requires full_read_model(), old(self).wf(),
        has_records(old(self).rest(), (index + 1) as nat), store_stream(old(self).rest(), (index + 1) as nat),
    ensures final(self).file.contents() == old(self).file.contents(),
        // position and length of record number `index` (0-based) counted from the cursor
        r is Ok ==> ({
            let s = old(self).rest();
            &&& r.unwrap().position == old(self).start + off_after(s, index as nat)
            &&& first_rec(s.skip(off_after(s, index as nat))) == Some(r.unwrap().len as int)
            &&& final(self).start == r.unwrap().position + r.unwrap().len
        }),
@@ FileMessageReader::read_index_position entry
    let ghost s0 = self.rest();
    let ghost st0 = self.start as int;
    let ghost c0 = self.file.contents();
    proof { assert(s0.skip(0) =~= s0); lemma_scan_bounds(s0, index as nat); }
@@ FileMessageReader::read_index_position loop 1
    invariant
        full_read_model(), self.wf(), self.file.contents() == c0, c0 == old(self).file.contents(), st0 + s0.len() == c0.len(), s0 == c0.skip(st0), 0 <= st0,
        it.index@ <= index,
        has_records(self.rest(), (index + 1 - it.index@) as nat), store_stream(self.rest(), (index + 1 - it.index@) as nat),
        self.start >= st0,
        off_after(s0, index as nat) == (self.start - st0) + off_after(self.rest(), (index - it.index@) as nat),
        self.rest() == s0.skip(self.start - st0),
@@ FileMessageReader::read_index_position loop 1 body_entry
    proof {
        let k = (index - it.index@) as nat;
        lemma_window_skip(c0, self.start as int);
        lemma_records_step(self.rest(), k);
        lemma_scan_succ(self.rest(), k);
        let n = first_rec(self.rest()).unwrap();
        assert(self.rest().skip(n) =~= c0.skip(self.start + n));
        if k > 0 { lemma_records_step(self.rest(), (k - 1) as nat); }
    }
@@ FileMessageReader::read_index_position before_tail
    proof {
        lemma_window_skip(c0, self.start as int);
        lemma_records_step(self.rest(), 0);
        assert(off_after(self.rest(), 0) == 0);
    }
