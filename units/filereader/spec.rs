verus! {

/// the 10-byte, zero-filled length window FileMessageReader::read_len decodes
pub open spec fn window10(c: Seq<u8>, start: int) -> Seq<u8> {
    Seq::new(10, |i: int| if 0 <= start + i < c.len() { c[start + i] } else { 0u8 })
}

/// a complete varint inside the available bytes is decoded identically from the zero-padded window
pub proof fn lemma_window_prefix(c: Seq<u8>, start: int)
    requires 0 <= start <= c.len(), vlen(c.skip(start)) is Some, vlen(c.skip(start)).unwrap() <= 10
    ensures vlen(window10(c, start)) == vlen(c.skip(start)), vval(window10(c, start)) == vval(c.skip(start))
{
    let s = c.skip(start);
    let n = vlen(s).unwrap();
    lemma_vlen_bounds(s);
    let w = window10(c, start);
    let p = s.take(n);
    // p is a complete varint and a prefix of both s and w
    lemma_vlen_bits(s);
    assert(p.len() == n);
    assert forall|j: int| 0 <= j < n - 1 implies p[j] & 0x80 != 0 by { assert(p[j] == s[j]); }
    assert(p[n - 1] == s[n - 1]);
    lemma_vlen_scan(p, n);
    lemma_vlen_prefix(p, s.skip(n));
    assert(p.add(s.skip(n)) =~= s);
    lemma_vlen_prefix(p, w.skip(n));
    assert(p.add(w.skip(n)) =~= w) by {
        assert forall|i: int| 0 <= i < 10 implies p.add(w.skip(n))[i] == w[i] by {
            if i < n { assert(p[i] == s[i]); assert(s[i] == c[start + i]); }
        }
    }
}

/// length prefix as the store writes it: fits 32 bits, canonical (shortest) varint encoding
pub open spec fn store_prefix(w: Seq<u8>) -> bool {
    vlen(w) is Some ==> (vval(w) < 0x1_0000_0000 && vlen(w).unwrap() == enc_len(vval(w)))
}

/// the next k length prefixes along the record stream are store prefixes
pub open spec fn store_stream(s: Seq<u8>, k: nat) -> bool
    decreases k
{
    k == 0 || (store_prefix(window10(s, 0)) && match first_rec(s) { Some(n) => store_stream(s.skip(n), (k - 1) as nat), None => true })
}

pub proof fn lemma_window_skip(c: Seq<u8>, st: int)
    requires 0 <= st <= c.len()
    ensures window10(c.skip(st), 0) == window10(c, st)
{
    assert(window10(c.skip(st), 0) =~= window10(c, st));
}

/// one step of a k+1-record stream
pub proof fn lemma_records_step(s: Seq<u8>, k: nat)
    requires has_records(s, k + 1)
    ensures first_rec(s) is Some,
        1 <= first_rec(s).unwrap() <= s.len(),
        has_records(s.skip(first_rec(s).unwrap()), k),
        off_after(s, k + 1) == first_rec(s).unwrap() + off_after(s.skip(first_rec(s).unwrap()), k),
{
    match first_rec(s) {
        Some(n) => { lemma_first_rec_bounds(s); },
        None => { assert(scan(s, k + 1) == (0int, 0nat)); }
    }
}

impl FileMessageReader {
    /// bytes of the underlying file
    pub open spec fn bytes(&self) -> Seq<u8> { self.file.contents() }
    /// the reader is positioned on its logical cursor
    pub open spec fn wf(&self) -> bool {
        self.file.pos() == self.start && self.start <= self.file.contents().len() && self.file.contents().len() < 0x4000_0000_0000
    }
    /// the stream seen from the cursor
    pub open spec fn rest(&self) -> Seq<u8> { self.file.contents().skip(self.start as int) }
}

/// byte offset (relative) just after the first k records, when the stream has k complete records
pub open spec fn off_after(s: Seq<u8>, k: nat) -> int { scan(s, k).0 }
pub open spec fn has_records(s: Seq<u8>, k: nat) -> bool { scan(s, k).1 == k }

pub proof fn lemma_scan_succ(s: Seq<u8>, k: nat)
    requires has_records(s, k + 1)
    ensures has_records(s, k),
        first_rec(s.skip(off_after(s, k))) is Some,
        off_after(s, k + 1) == off_after(s, k) + first_rec(s.skip(off_after(s, k))).unwrap(),
        0 <= off_after(s, k) <= s.len(),
    decreases k
{
    lemma_scan_bounds(s, k);
    if k == 0 {
        assert(s.skip(0) =~= s);
        match first_rec(s) { Some(n) => { lemma_first_rec_bounds(s); lemma_scan_bounds(s.skip(n), 0); }, None => {} }
    } else {
        match first_rec(s) {
            Some(n) => {
                lemma_first_rec_bounds(s);
                let t = s.skip(n);
                lemma_scan_bounds(t, k);
                lemma_scan_bounds(t, (k - 1) as nat);
                lemma_scan_succ(t, (k - 1) as nat);
                assert(t.skip(off_after(t, (k - 1) as nat)) =~= s.skip(n + off_after(t, (k - 1) as nat)));
            },
            None => {}
        }
    }
}

} // verus!
