// Bounded stand-in (always run, labelled bounded, never counted as proved) behind the snapshot codec proof (unit snapshot:
// SnapshotWriter / SnapshotWriterActor / SnapshotReader + lemma_snapshot_roundtrip): it decides when a rewrite of the writer or the
// reader takes their text out of the proof's reach, and it exercises what the proof leaves uninterpreted (protobuf wire format, DTO
// conversions, the tokio file).  Record lists are written through the REAL writer actor (Record messages, Flush) into a real file —
// once into a fresh file and once over a longer leftover file of the same name — and read back with the real SnapshotReader; the
// header and every record must come back unchanged, in order, and nothing else.  Sizes sit on the boundaries that matter: empty
// key / value, 1-, 2-, 3-, 4-byte length prefixes, the reader's 1024-byte chunk, tokio's 2 MiB write limit.
use super::*;

fn rt_payload(seed: usize, len: usize) -> Vec<u8> {
    (0..len).map(|i| ((seed * 31 + i * 7) % 251) as u8 + 1).collect()
}

fn rt_record(i: usize, key_len: usize, value_len: usize) -> SnapshotRecordDto {
    SnapshotRecordDto { tree: Arc::new(["T_CONFIG", "T_USER", "T_NAMESPACE", "T_SEQUENCE"][i % 4].to_owned()), key: rt_payload(i, key_len), value: rt_payload(i + 100, value_len), op_type: (i % 3) as u32 }
}

fn rt_header(i: u64) -> SnapshotHeaderDto {
    let mut node_addrs = std::collections::HashMap::new();
    node_addrs.insert(1u64, Arc::new("127.0.0.1:9848".to_owned()));
    node_addrs.insert(2u64, Arc::new("127.0.0.1:9849".to_owned()));
    SnapshotHeaderDto { last_index: 1000 + i, last_term: 3, member: vec![1, 2], member_after_consensus: if i % 2 == 0 { vec![] } else { vec![1, 2, 3] }, node_addrs }
}

fn rt_same(a: &SnapshotRecordDto, b: &SnapshotRecordDto) -> bool { a.tree == b.tree && a.key == b.key && a.value == b.value && a.op_type == b.op_type }

async fn rt_one(dir: &std::path::Path, name: &str, header: SnapshotHeaderDto, records: Vec<SnapshotRecordDto>, leftover: Option<usize>, bad: &mut Vec<String>) {
    let path = dir.join(name);
    if let Some(n) = leftover {
        // a longer file of the same name is already there (an interrupted earlier attempt): frames of another snapshot
        let mut junk = vec![];
        { let mut w = Writer::new(&mut junk); w.write_message(&rt_header(77).to_record_do()).unwrap(); for i in 0..n { w.write_message(&rt_record(900 + i, 9, 40).to_record_do()).unwrap(); } }
        std::fs::write(&path, &junk).unwrap();
    }
    let path_str = Arc::new(path.to_string_lossy().into_owned());
    let writer = SnapshotWriterActor::new(path_str.clone(), header.clone()).start();
    for r in records.iter() {
        writer.send(SnapshotWriterRequest::Record(r.clone())).await.unwrap().unwrap();
    }
    writer.send(SnapshotWriterRequest::Flush).await.unwrap().unwrap();
    // the writer answers before the waited write has run: one more round trip through its mailbox
    writer.send(SnapshotWriterRequest::Flush).await.unwrap().unwrap();
    let tag = format!("{} ({} records{})", name, records.len(), if leftover.is_some() { ", over a longer leftover file" } else { "" });
    let mut reader = match SnapshotReader::init(&path_str).await {
        Ok(r) => r,
        Err(e) => { bad.push(format!("VX-BOUNDED-FAIL SNAPSHOT header {}: the reader does not open the file: {}", tag, e)); return; }
    };
    let h = reader.get_header();
    if h.last_index != header.last_index || h.last_term != header.last_term || h.member != header.member || h.member_after_consensus != header.member_after_consensus || h.node_addrs != header.node_addrs {
        bad.push(format!("VX-BOUNDED-FAIL SNAPSHOT header {}: header read back {:?}, written {:?}", tag, h, header));
    }
    let mut got = vec![];
    loop {
        match reader.read_record().await {
            Ok(Some(r)) => got.push(r),
            Ok(None) => break,
            Err(e) => { bad.push(format!("VX-BOUNDED-FAIL SNAPSHOT records {}: read error after {} records: {}", tag, got.len(), e)); return; }
        }
        if got.len() > records.len() + 50 { break; }
    }
    if got.len() != records.len() || !got.iter().zip(records.iter()).all(|(a, b)| rt_same(a, b)) {
        let first = got.iter().zip(records.iter()).position(|(a, b)| !rt_same(a, b));
        bad.push(format!("VX-BOUNDED-FAIL SNAPSHOT records {}: {} records read back, {} written; first difference at {:?} (written value lengths {:?})", tag, got.len(), records.len(), first,
            records.iter().map(|r| r.value.len()).take(12).collect::<Vec<_>>()));
    }
}

#[test]
fn vx_bounded_snapshot_roundtrip() {
    let base = std::env::temp_dir().join(format!("vx_snaprt_{}", std::process::id()));
    let _ = std::fs::remove_dir_all(&base);
    std::fs::create_dir_all(&base).unwrap();
    let sys = actix::System::new();
    let (bad, runs) = sys.block_on(async {
        let mut bad: Vec<String> = vec![];
        let mut runs = 0;
        // value-size profiles (bytes)
        let profiles: Vec<(&str, Vec<usize>)> = vec![
            ("none", vec![]),
            ("tiny", vec![0, 1, 2, 3, 100, 0]),
            ("prefix-steps", vec![100, 110, 127, 128, 129, 16_000, 16_383, 16_384, 16_385]),
            ("chunk", vec![900, 1000, 1010, 1020, 1024, 1030, 2040, 2048, 5000]),
            ("many-small", (0..400).map(|i| 3 + (i * 7) % 40).collect()),
            ("big", vec![10, 2 * 1024 * 1024 - 30, 10, 2 * 1024 * 1024, 10, 2 * 1024 * 1024 + 1, 10]),
            ("huge-then-small", vec![3 * 1024 * 1024 + 17, 5, 6, 7]),
            ("small-then-huge", vec![5, 6, 7, 3 * 1024 * 1024 + 17]),
        ];
        for (pi, (pname, sizes)) in profiles.iter().enumerate() {
            let records: Vec<SnapshotRecordDto> = sizes.iter().enumerate().map(|(i, n)| rt_record(i, if i % 5 == 0 { 0 } else { 3 + i % 30 }, *n)).collect();
            rt_one(&base, &format!("fresh-{}", pname), rt_header(pi as u64), records.clone(), None, &mut bad).await;
            rt_one(&base, &format!("leftover-{}", pname), rt_header(pi as u64), records, Some(if sizes.len() < 20 { 60 } else { 2000 }), &mut bad).await;
            runs += 2;
        }
        (bad, runs)
    });
    let _ = std::fs::remove_dir_all(&base);
    println!("VX-BOUNDED snapshot round trips: {} files written by the real writer actor and read back", runs);
    for b in bad.iter() { println!("{}", b); }
    assert!(bad.is_empty(), "{} snapshot file(s) do not read back what was written", bad.len());
}
