verus! {
/// generated protobuf messages SnapshotHeader<'a> / LogSnapshotItem<'a> (src/raft/filestore/log.rs): opaque here
pub struct SnapshotHeader { pub vx: u64 }
impl PbMessage for SnapshotHeader { uninterp spec fn pb_bytes(&self) -> Seq<u8>; }
pub struct LogSnapshotItem { pub vx: u64 }
impl PbMessage for LogSnapshotItem { uninterp spec fn pb_bytes(&self) -> Seq<u8>; }
/// message -> DTO conversions (field-wise copies in model.rs): deterministic functions of the message
pub uninterp spec fn hdr_dto(m: SnapshotHeader) -> SnapshotHeaderDto;
pub uninterp spec fn item_dto(m: LogSnapshotItem) -> SnapshotRecordDto;
impl From<SnapshotHeader> for SnapshotHeaderDto {
    #[verifier::external_body]
    fn from(value: SnapshotHeader) -> (r: Self) ensures r == hdr_dto(value) { unimplemented!() }
}
impl From<LogSnapshotItem> for SnapshotRecordDto {
    #[verifier::external_body]
    fn from(value: LogSnapshotItem) -> (r: Self) ensures r == item_dto(value) { unimplemented!() }
}
/// DTO -> message (field-wise copies in model.rs)
pub uninterp spec fn hdr_msg(d: SnapshotHeaderDto) -> SnapshotHeader;
pub uninterp spec fn item_msg(d: SnapshotRecordDto) -> LogSnapshotItem;
impl SnapshotHeaderDto {
    #[verifier::external_body]
    pub fn to_record_do(&self) -> (r: SnapshotHeader) ensures r == hdr_msg(*self) { unimplemented!() }
}
impl SnapshotRecordDto {
    #[verifier::external_body]
    pub fn to_record_do(&self) -> (r: LogSnapshotItem) ensures r == item_msg(*self) { unimplemented!() }
}
/// A-DTO
pub broadcast axiom fn axiom_hdr_roundtrip(d: SnapshotHeaderDto) ensures #[trigger] hdr_dto(hdr_msg(d)) == d;
pub broadcast axiom fn axiom_item_roundtrip(d: SnapshotRecordDto) ensures #[trigger] item_dto(item_msg(d)) == d;
/// A-SNAPNONEMPTY
pub broadcast axiom fn axiom_hdr_nonempty(d: SnapshotHeaderDto) ensures 1 <= #[trigger] hdr_msg(d).pb_bytes().len() < 0x1000_0000;
pub broadcast axiom fn axiom_item_nonempty(d: SnapshotRecordDto) ensures 1 <= #[trigger] item_msg(d).pb_bytes().len() < 0x1000_0000;
/// A-CODEC: what the encoder wrote, the decoder accepts
pub broadcast axiom fn axiom_hdr_decodes(m: SnapshotHeader) ensures #[trigger] pb_decodes::<SnapshotHeader>(pb_frame(m));
pub broadcast axiom fn axiom_item_decodes(m: LogSnapshotItem) ensures #[trigger] pb_decodes::<LogSnapshotItem>(pb_frame(m));

/// actix, reduced to what the writer actor uses
#[verifier::external_body]
#[verifier::reject_recursive_types(A)]
pub struct Context<A> { inner: core::marker::PhantomData<A> }
impl<A> Context<A> {
    /// the actor stops taking messages
    #[verifier::external_body]
    pub fn stop(&mut self) { unimplemented!() }
}
} // verus!
