verus! {
/// generated protobuf messages SnapshotHeader<'a> / LogSnapshotItem<'a> (src/raft/filestore/log.rs): opaque here
pub struct SnapshotHeader { pub vx: u64 }
impl PbMessage for SnapshotHeader { uninterp spec fn pb_bytes(&self) -> Seq<u8>; }
pub struct LogSnapshotItem { pub vx: u64 }
impl PbMessage for LogSnapshotItem { uninterp spec fn pb_bytes(&self) -> Seq<u8>; }
/// message -> DTO conversions (field-wise copies in model.rs): deterministic functions of the message
pub uninterp spec fn hdr_dto(m: SnapshotHeader) -> SnapshotHeaderDto;
pub uninterp spec fn item_dto(m: LogSnapshotItem) -> SnapshotRecordDto;
impl From<SnapshotHeader> for SnapshotHeaderDto {
    #[verifier::external_body]
    fn from(value: SnapshotHeader) -> (r: Self) ensures r == hdr_dto(value) { unimplemented!() }
}
impl From<LogSnapshotItem> for SnapshotRecordDto {
    #[verifier::external_body]
    fn from(value: LogSnapshotItem) -> (r: Self) ensures r == item_dto(value) { unimplemented!() }
}
} // verus!
