verus! {
/// THE message whose length-prefixed image is f (unique: shims/protobuf.rs)
pub open spec fn frame_msg<M: PbMessage>(f: Seq<u8>) -> M { choose|m: M| pb_frame(m) == f }

/// what BytesReader::read_message returns on a complete record is the message of that record
pub proof fn lemma_read_message_is_frame<M: PbMessage>(m: M, v: Seq<u8>)
    requires vlen(v) is Some, v.len() == vlen(v).unwrap() + vval(v), pb_frame(m).len() <= v.len(), v.take(pb_frame(m).len() as int) == pb_frame(m)
    ensures pb_frame(m) == v, frame_msg::<M>(v) == m
{
    let l = m.pb_bytes().len() as nat;
    let pf = pb_frame(m);
    let rest = m.pb_bytes().add(v.skip(pf.len() as int));
    assert(v =~= enc(l).add(rest)) by {
        assert(v.take(pf.len() as int).add(v.skip(pf.len() as int)) =~= v);
        assert(enc(l).add(m.pb_bytes()).add(v.skip(pf.len() as int)) =~= enc(l).add(rest));
    }
    lemma_dec_enc(l, rest);
    assert(pf.len() == v.len());
    assert(v.take(v.len() as int) =~= v);
    let w = frame_msg::<M>(v);
    assert(pb_frame(w) == v);
    assert(v.take(pb_frame(w).len() as int) =~= v);
    axiom_pb_frame_unique(m, w, v);
}

/// the records a byte stream decodes to, in order, up to the first frame that is not a record (the reader fails there),
/// the first zero length byte or the first incomplete frame
pub open spec fn recs_of(s: Seq<u8>) -> Seq<SnapshotRecordDto>
    decreases s.len()
{
    match first_rec(s) {
        Some(n) => if 0 < n <= s.len() && pb_decodes::<LogSnapshotItem>(s.take(n)) {
                seq![item_dto(frame_msg::<LogSnapshotItem>(s.take(n)))] + recs_of(s.skip(n))
            } else { seq![] },
        None => seq![],
    }
}
/// some complete frame along the stream is not a record
pub open spec fn bad_frame(s: Seq<u8>) -> bool
    decreases s.len()
{
    match first_rec(s) {
        Some(n) => if 0 < n <= s.len() { !pb_decodes::<LogSnapshotItem>(s.take(n)) || bad_frame(s.skip(n)) } else { false },
        None => false,
    }
}

// ---- the abstract vocabulary unit raftdata assumes (there: uninterpreted); here: DEFINED over the bytes of the file
/// A-SNAPIMAGE
pub open spec fn snap_image_ok(c: Seq<u8>) -> bool { ok_stream(c) && c.len() < 0x1_0000_0000 }
pub open spec fn snap_hdr(c: Seq<u8>) -> Option<SnapshotHeaderDto> {
    match first_rec(c) {
        Some(n) => if pb_decodes::<SnapshotHeader>(c.take(n)) { Some(hdr_dto(frame_msg::<SnapshotHeader>(c.take(n)))) } else { None },
        None => None,
    }
}
pub open spec fn snap_recs(c: Seq<u8>) -> Seq<SnapshotRecordDto> {
    match first_rec(c) { Some(n) => recs_of(c.skip(n)), None => seq![] }
}
/// nothing can fail on this handle: no I/O fault, reads are short only at the end of the file (A-FULLREAD), the header frame is complete
/// within the first 1024 bytes (init reads ONE chunk for it) and decodes, every later frame is a record
pub open spec fn snap_readable(f: tokio::fs::File) -> bool {
    let c = f.contents();
    let k = if c.len() < 1024 { c.len() as int } else { 1024int };
    !f.io_faulty() && full_read_model() && first_rec(c.take(k)) is Some && snap_hdr(c) is Some
        && !bad_frame(c.skip(first_rec(c).unwrap()))
}

impl SnapshotReader {
    /// the bytes not consumed yet: what is buffered, then what the file still holds behind its cursor
    pub open spec fn rest(&self) -> Seq<u8> { self.message_reader.view() + self.file.contents().skip(self.file.pos() as int) }
    pub open spec fn wf(&self) -> bool {
        self.message_reader.wf() && self.file.pos() <= self.file.contents().len() && self.file.contents().len() < 0x1_0000_0000
            && self.message_reader.view().len() <= self.file.pos()
            && ok_stream(self.rest()) && (self.is_end ==> first_rec(self.rest()) is None)
    }
    pub open spec fn hdr(&self) -> SnapshotHeaderDto { self.header }
    pub open spec fn remaining(&self) -> Seq<SnapshotRecordDto> { recs_of(self.rest()) }
    pub open spec fn faulty(&self) -> bool { self.file.io_faulty() || bad_frame(self.rest()) }
}

/// an ok stream stays ok behind its first record
pub proof fn lemma_ok_skip(s: Seq<u8>)
    requires ok_stream(s), first_rec(s) is Some
    ensures ok_stream(s.skip(first_rec(s).unwrap())), 1 <= first_rec(s).unwrap() <= s.len()
{
    lemma_first_rec_bounds(s);
}

/// a complete record at the head of a prefix window is the first record of the whole stream, with the same bytes
pub proof fn lemma_head_of_window(r: Seq<u8>, n: int, m: int)
    requires 0 <= n <= r.len(), first_rec(r.take(n)) == Some(m)
    ensures first_rec(r) == Some(m), 1 <= m <= n, r.take(n).take(m) == r.take(m)
{
    lemma_first_rec_bounds(r.take(n));
    lemma_first_rec_prefix(r.take(n), r.skip(n));
    assert(r.take(n).add(r.skip(n)) =~= r);
    assert(r.take(n).take(m) =~= r.take(m));
}

/// no complete record in the whole stream: none in any prefix window either
pub proof fn lemma_no_rec_in_window(r: Seq<u8>, n: int)
    requires 0 <= n <= r.len(), first_rec(r) is None
    ensures first_rec(r.take(n)) is None
{
    if first_rec(r.take(n)) is Some {
        lemma_head_of_window(r, n, first_rec(r.take(n)).unwrap());
    }
}

// ---------------------------------------------------------------- the writer side
/// the frames of a record list, concatenated
pub open spec fn frames(rs: Seq<SnapshotRecordDto>) -> Seq<u8>
    decreases rs.len()
{
    if rs.len() == 0 { Seq::empty() } else { frames(rs.drop_last()) + pb_frame(item_msg(rs.last())) }
}
/// THE image of a snapshot: the framed header, then the framed records in the order they were handed to the writer
pub open spec fn snap_image(h: SnapshotHeaderDto, rs: Seq<SnapshotRecordDto>) -> Seq<u8> { pb_frame(hdr_msg(h)) + frames(rs) }

impl SnapshotWriter {
    /// everything is appended at the end of the file
    pub open spec fn wf(&self) -> bool { self.file.pos() == self.file.contents().len() }
}
impl SnapshotWriterActor {
    /// the writer is open and appends
    pub open spec fn ready(&self) -> bool { self.inner_writer is Some && self.inner_writer.unwrap().wf() }
    pub open spec fn image(&self) -> Seq<u8> { self.inner_writer.unwrap().file.contents() }
}

// ---------------------------------------------------------------- round trip: what the writer wrote is what the reader reads
/// a frame at the head of a stream is its first record, whatever follows
pub proof fn lemma_frame_head<M: PbMessage>(m: M, t: Seq<u8>)
    requires 1 <= m.pb_bytes().len() < 0x1000_0000
    ensures first_rec(pb_frame(m) + t) == Some(pb_frame(m).len() as int), (pb_frame(m) + t).take(pb_frame(m).len() as int) == pb_frame(m),
        (pb_frame(m) + t).skip(pb_frame(m).len() as int) == t, store_len(pb_frame(m) + t), pb_frame(m).len() >= 2,
{
    let l = m.pb_bytes().len() as nat;
    let f = pb_frame(m);
    let s = f + t;
    let rest = m.pb_bytes() + t;
    assert(s =~= enc(l) + rest);
    lemma_dec_enc(l, rest);
    lemma_enc_len(l);
    lemma_enc_len_table(l);
    // the first byte of a length >= 1 is not zero
    assert(s[0] != 0) by {
        if l < 128 { assert(enc(l) =~= seq![l as u8]); assert(s[0] == l as u8); }
        else { let b = ((l % 128) + 128) as u8; assert(enc(l)[0] == b); assert(s[0] == b); }
    }
    assert(f.len() == enc(l).len() + l);
    assert(s.take(f.len() as int) =~= f);
    assert(s.skip(f.len() as int) =~= t);
}

/// frames() can also be unfolded at the front
pub proof fn lemma_frames_front(rs: Seq<SnapshotRecordDto>)
    requires rs.len() > 0
    ensures frames(rs) == pb_frame(item_msg(rs[0])) + frames(rs.skip(1))
    decreases rs.len()
{
    if rs.len() == 1 {
        assert(rs.drop_last() =~= Seq::<SnapshotRecordDto>::empty());
        assert(rs.skip(1) =~= Seq::<SnapshotRecordDto>::empty());
        assert(frames(rs.drop_last()) =~= Seq::<u8>::empty());
        assert(frames(rs.skip(1)) =~= Seq::<u8>::empty());
        assert(frames(rs) =~= pb_frame(item_msg(rs[0])) + frames(rs.skip(1)));
    } else {
        lemma_frames_front(rs.drop_last());
        assert(rs.drop_last().skip(1) =~= rs.skip(1).drop_last());
        assert(rs.skip(1).last() == rs.last());
        assert(rs.drop_last()[0] == rs[0]);
        assert(frames(rs) =~= pb_frame(item_msg(rs[0])) + (frames(rs.skip(1).drop_last()) + pb_frame(item_msg(rs.last()))));
    }
}

/// the records part of an image: an ok stream without bad frames that decodes to exactly the records written, in order
pub proof fn lemma_records_roundtrip(rs: Seq<SnapshotRecordDto>)
    ensures ok_stream(frames(rs)), !bad_frame(frames(rs)), recs_of(frames(rs)) == rs
    decreases rs.len()
{
    broadcast use axiom_item_roundtrip, axiom_item_nonempty, axiom_item_decodes;
    if rs.len() == 0 {
        assert(frames(rs) =~= Seq::<u8>::empty());
        assert(recs_of(frames(rs)) =~= rs);
    } else {
        let m = item_msg(rs[0]);
        let t = frames(rs.skip(1));
        lemma_frames_front(rs);
        lemma_frame_head(m, t);
        lemma_records_roundtrip(rs.skip(1));
        let s = frames(rs);
        let n = pb_frame(m).len() as int;
        // the decoded first frame is the first record
        assert(frame_msg::<LogSnapshotItem>(pb_frame(m)) == m) by {
            let w = frame_msg::<LogSnapshotItem>(pb_frame(m));
            assert(pb_frame(w) == pb_frame(m));
            assert(pb_frame(m).take(pb_frame(m).len() as int) =~= pb_frame(m));
            axiom_pb_frame_unique(m, w, pb_frame(m));
        }
        assert(recs_of(s) =~= seq![rs[0]] + recs_of(t));
        assert(seq![rs[0]] + rs.skip(1) =~= rs);
    }
}

/// C01 / C08 — THE ROUND TRIP: the image the writer produces for a header and a list of records (the postconditions of
/// SnapshotWriter::init / write_record and of the writer actor's handler say the file holds exactly `snap_image(h, rs)`) is a snapshot
/// image the reader accepts, and the reader (contracts of SnapshotReader::{init, init_by_file, read_record}) yields exactly that header
/// and exactly those records, in that order — nothing lost, nothing added, nothing changed.
pub proof fn lemma_snapshot_roundtrip(h: SnapshotHeaderDto, rs: Seq<SnapshotRecordDto>)
    requires snap_image(h, rs).len() < 0x1_0000_0000
    ensures snap_image_ok(snap_image(h, rs)), snap_hdr(snap_image(h, rs)) == Some(h), snap_recs(snap_image(h, rs)) == rs,
        !bad_frame(snap_image(h, rs).skip(first_rec(snap_image(h, rs)).unwrap())),
{
    broadcast use axiom_hdr_roundtrip, axiom_hdr_nonempty, axiom_hdr_decodes;
    let m = hdr_msg(h);
    let t = frames(rs);
    let img = snap_image(h, rs);
    lemma_frame_head(m, t);
    lemma_records_roundtrip(rs);
    assert(frame_msg::<SnapshotHeader>(pb_frame(m)) == m) by {
        let w = frame_msg::<SnapshotHeader>(pb_frame(m));
        assert(pb_frame(w) == pb_frame(m));
        assert(pb_frame(m).take(pb_frame(m).len() as int) =~= pb_frame(m));
        axiom_pb_frame_unique(m, w, pb_frame(m));
    }
}
} // verus!
