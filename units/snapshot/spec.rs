verus! {
/// THE message whose length-prefixed image is f (unique: shims/protobuf.rs)
pub open spec fn frame_msg<M: PbMessage>(f: Seq<u8>) -> M { choose|m: M| pb_frame(m) == f }

/// what BytesReader::read_message returns on a complete record is the message of that record
pub proof fn lemma_read_message_is_frame<M: PbMessage>(m: M, v: Seq<u8>)
    requires vlen(v) is Some, v.len() == vlen(v).unwrap() + vval(v), pb_frame(m).len() <= v.len(), v.take(pb_frame(m).len() as int) == pb_frame(m)
    ensures pb_frame(m) == v, frame_msg::<M>(v) == m
{
    let l = m.pb_bytes().len() as nat;
    let pf = pb_frame(m);
    let rest = m.pb_bytes().add(v.skip(pf.len() as int));
    assert(v =~= enc(l).add(rest)) by {
        assert(v.take(pf.len() as int).add(v.skip(pf.len() as int)) =~= v);
        assert(enc(l).add(m.pb_bytes()).add(v.skip(pf.len() as int)) =~= enc(l).add(rest));
    }
    lemma_dec_enc(l, rest);
    assert(pf.len() == v.len());
    assert(v.take(v.len() as int) =~= v);
    let w = frame_msg::<M>(v);
    assert(pb_frame(w) == v);
    assert(v.take(pb_frame(w).len() as int) =~= v);
    axiom_pb_frame_unique(m, w, v);
}

/// the records a byte stream decodes to, in order, up to the first frame that is not a record (the reader fails there),
/// the first zero length byte or the first incomplete frame
pub open spec fn recs_of(s: Seq<u8>) -> Seq<SnapshotRecordDto>
    decreases s.len()
{
    match first_rec(s) {
        Some(n) => if 0 < n <= s.len() && pb_decodes::<LogSnapshotItem>(s.take(n)) {
                seq![item_dto(frame_msg::<LogSnapshotItem>(s.take(n)))] + recs_of(s.skip(n))
            } else { seq![] },
        None => seq![],
    }
}
/// some complete frame along the stream is not a record
pub open spec fn bad_frame(s: Seq<u8>) -> bool
    decreases s.len()
{
    match first_rec(s) {
        Some(n) => if 0 < n <= s.len() { !pb_decodes::<LogSnapshotItem>(s.take(n)) || bad_frame(s.skip(n)) } else { false },
        None => false,
    }
}

// ---- the abstract vocabulary unit raftdata assumes (there: uninterpreted); here: DEFINED over the bytes of the file
/// A-SNAPIMAGE
pub open spec fn snap_image_ok(c: Seq<u8>) -> bool { ok_stream(c) && c.len() < 0x1_0000_0000 }
pub open spec fn snap_hdr(c: Seq<u8>) -> Option<SnapshotHeaderDto> {
    match first_rec(c) {
        Some(n) => if pb_decodes::<SnapshotHeader>(c.take(n)) { Some(hdr_dto(frame_msg::<SnapshotHeader>(c.take(n)))) } else { None },
        None => None,
    }
}
pub open spec fn snap_recs(c: Seq<u8>) -> Seq<SnapshotRecordDto> {
    match first_rec(c) { Some(n) => recs_of(c.skip(n)), None => seq![] }
}
/// nothing can fail on this handle: no I/O fault, reads are short only at the end of the file (A-FULLREAD), the header frame is complete
/// within the first 1024 bytes (init reads ONE chunk for it) and decodes, every later frame is a record
pub open spec fn snap_readable(f: tokio::fs::File) -> bool {
    let c = f.contents();
    let k = if c.len() < 1024 { c.len() as int } else { 1024int };
    !f.io_faulty() && full_read_model() && first_rec(c.take(k)) is Some && snap_hdr(c) is Some
        && !bad_frame(c.skip(first_rec(c).unwrap()))
}

impl SnapshotReader {
    /// the bytes not consumed yet: what is buffered, then what the file still holds behind its cursor
    pub open spec fn rest(&self) -> Seq<u8> { self.message_reader.view() + self.file.contents().skip(self.file.pos() as int) }
    pub open spec fn wf(&self) -> bool {
        self.message_reader.wf() && self.file.pos() <= self.file.contents().len() && self.file.contents().len() < 0x1_0000_0000
            && self.message_reader.view().len() <= self.file.pos()
            && ok_stream(self.rest()) && (self.is_end ==> first_rec(self.rest()) is None)
    }
    pub open spec fn hdr(&self) -> SnapshotHeaderDto { self.header }
    pub open spec fn remaining(&self) -> Seq<SnapshotRecordDto> { recs_of(self.rest()) }
    pub open spec fn faulty(&self) -> bool { self.file.io_faulty() || bad_frame(self.rest()) }
}

/// an ok stream stays ok behind its first record
pub proof fn lemma_ok_skip(s: Seq<u8>)
    requires ok_stream(s), first_rec(s) is Some
    ensures ok_stream(s.skip(first_rec(s).unwrap())), 1 <= first_rec(s).unwrap() <= s.len()
{
    lemma_first_rec_bounds(s);
}

/// a complete record at the head of a prefix window is the first record of the whole stream, with the same bytes
pub proof fn lemma_head_of_window(r: Seq<u8>, n: int, m: int)
    requires 0 <= n <= r.len(), first_rec(r.take(n)) == Some(m)
    ensures first_rec(r) == Some(m), 1 <= m <= n, r.take(n).take(m) == r.take(m)
{
    lemma_first_rec_bounds(r.take(n));
    lemma_first_rec_prefix(r.take(n), r.skip(n));
    assert(r.take(n).add(r.skip(n)) =~= r);
    assert(r.take(n).take(m) =~= r.take(m));
}

/// no complete record in the whole stream: none in any prefix window either
pub proof fn lemma_no_rec_in_window(r: Seq<u8>, n: int)
    requires 0 <= n <= r.len(), first_rec(r) is None
    ensures first_rec(r.take(n)) is None
{
    if first_rec(r.take(n)) is Some {
        lemma_head_of_window(r, n, first_rec(r.take(n)).unwrap());
    }
}
} // verus!
