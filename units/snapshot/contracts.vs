@@ SnapshotReader::get_header spec
    ensures *r == self.hdr()
@@ SnapshotReader::read_record spec
    requires old(self).wf()
    ensures
        final(self).file.contents() == old(self).file.contents(), final(self).header == old(self).header,
        final(self).file.io_faulty() == old(self).file.io_faulty(),
        r is Ok ==> final(self).wf(),
        // C01 / C08 — for EVERY chunking of the file by `read`: the next record of the stream, or the end of the records
        match r {
            Ok(Some(x)) => first_rec(old(self).rest()) is Some && ({
                    let n = first_rec(old(self).rest()).unwrap();
                    pb_decodes::<LogSnapshotItem>(old(self).rest().take(n)) && x == item_dto(frame_msg::<LogSnapshotItem>(old(self).rest().take(n)))
                        && final(self).rest() == old(self).rest().skip(n)
                }),
            Ok(None) => first_rec(old(self).rest()) is None && final(self).rest() == old(self).rest(),
            Err(_) => old(self).file.io_faulty() || bad_frame(old(self).rest()),
        },
        // <<abstract:read_record (the contract unit raftdata assumes)
        r is Ok ==> final(self).faulty() == old(self).faulty(), final(self).hdr() == old(self).hdr(),
        match r {
            Ok(Some(x)) => old(self).remaining().len() > 0 && x == old(self).remaining()[0] && final(self).remaining() == old(self).remaining().skip(1),
            Ok(None) => old(self).remaining().len() == 0 && final(self).remaining() == old(self).remaining(),
            Err(_) => old(self).faulty(),
        }
        // >>abstract
@@ SnapshotReader::init_by_file strip_mut file
@@ SnapshotReader::init_by_file spec
    requires snap_image_ok(file.contents())
    ensures
        r is Ok ==> r.unwrap().wf() && r.unwrap().file.contents() == file.contents() && r.unwrap().file.io_faulty() == file.io_faulty()
            && first_rec(file.contents()) is Some && ({
                let c = file.contents();
                let n = first_rec(c).unwrap();
                pb_decodes::<SnapshotHeader>(c.take(n)) && r.unwrap().header == hdr_dto(frame_msg::<SnapshotHeader>(c.take(n))) && r.unwrap().rest() == c.skip(n)
            }),
        // <<abstract:init_by_file (the contract unit raftdata assumes)
        r is Ok ==> snap_hdr(file.contents()) == Some(r.unwrap().hdr()) && r.unwrap().remaining() == snap_recs(file.contents())
            && (snap_readable(*file) ==> !r.unwrap().faulty()),
        r is Err ==> !snap_readable(*file),
        // >>abstract
@@ SnapshotReader::init_by_file entry
    let ghost f0 = *file;
    let ghost c = file.contents();
@@ SnapshotReader::init spec
    requires snap_image_ok(disk_at_open(path@))
    ensures
        r is Ok ==> r.unwrap().wf() && r.unwrap().file.contents() == disk_at_open(path@),
        // <<abstract:init (the contract unit raftdata assumes)
        r is Ok ==> snap_hdr(disk_at_open(path@)) == Some(r.unwrap().hdr()) && r.unwrap().remaining() == snap_recs(disk_at_open(path@)),
        // >>abstract
@@ SnapshotReader::init entry
    let ghost c = disk_at_open(path@);
@@ SnapshotReader::read_record entry
    let ghost o = *self;
    let ghost rest0 = self.rest();
    let ghost cts = self.file.contents();
@@ SnapshotReader::read_record loop 1
    invariant
        self.file.contents() == cts, self.header == o.header, self.file.io_faulty() == o.file.io_faulty(), !self.is_end,
        self.message_reader.wf(), self.file.pos() <= cts.len(), cts.len() < 0x1_0000_0000, self.message_reader.view().len() <= self.file.pos(),
        self.rest() == rest0, rest0 == o.rest(), ok_stream(rest0), o == *old(self), cts == o.file.contents(),
    decreases cts.len() - self.file.pos(),
@@ SnapshotReader::read_record loop 1 body_entry
    let ghost view_in = self.message_reader.view();
    let ghost pos_in = self.file.pos() as int;
    proof {
        assert(rest0.take(view_in.len() as int) =~= view_in);
        lemma_view_pre(rest0, view_in.len() as int);
    }
@@ SnapshotReader::read_record before_call from_bytes 1
                let ghost vs = v@;
                proof {
                    // `v` is the first record of the buffered window, hence of the whole stream
                    lemma_head_of_window(rest0, view_in.len() as int, vs.len() as int);
                    assert(rest0.take(vs.len() as int) =~= vs);
                    lemma_ok_skip(rest0);
                    lemma_first_rec_take(rest0, vs.len() as int);
                    assert(first_rec(vs) == Some(vs.len() as int));
                }
@@ SnapshotReader::read_record after_call read_message 1
                proof {
                    lemma_read_message_is_frame::<LogSnapshotItem>(item, vs);
                    assert(recs_of(rest0) =~= seq![item_dto(item)] + recs_of(rest0.skip(vs.len() as int)));
                    assert(recs_of(rest0).skip(1) =~= recs_of(rest0.skip(vs.len() as int)));
                }
@@ SnapshotReader::read_record before_return@loop1 1
                proof { assert(self.rest() =~= rest0.skip(vs.len() as int)); }
@@ SnapshotReader::read_record after_call read 1
            proof {
                // nothing complete is buffered
                assert(first_rec(view_in) is None);
                if read_len == 0 {
                    assert(cts.skip(pos_in) =~= Seq::<u8>::empty());
                    assert(rest0 =~= view_in);
                }
            }
@@ SnapshotReader::read_record after_call append_next_buf 1
            proof {
                let n = read_len as int;
                assert(buf@.subrange(0, n) =~= buf@.take(n));
                assert(cts.skip(pos_in) =~= cts.subrange(pos_in, pos_in + n) + cts.skip(pos_in + n));
                assert(self.rest() =~= rest0);
            }
@@ SnapshotReader::init_by_file after_call append_next_buf 1
        proof {
            let n = read_len as int;
            assert(buf@.subrange(0, n) =~= buf@.take(n));
            assert(message_reader.view() =~= c.take(n));
            lemma_view_pre(c, n);
            if first_rec(c) is None { lemma_no_rec_in_window(c, n); }
        }
@@ SnapshotReader::init_by_file before_call from_bytes 1
            let ghost vs = v@;
            proof {
                lemma_head_of_window(c, read_len as int, vs.len() as int);
                assert(c.take(vs.len() as int) =~= vs);
                lemma_ok_skip(c);
                lemma_first_rec_take(c, vs.len() as int);
                assert(first_rec(vs) == Some(vs.len() as int));
            }
@@ SnapshotReader::init_by_file after_call read_message 1
            proof {
                lemma_read_message_is_frame::<SnapshotHeader>(header, vs);
                assert(message_reader.view() + c.skip(read_len as int) =~= c.skip(vs.len() as int));
            }
@@ SnapshotReader::init after_call append_next_buf 1
        proof {
            let n = read_len as int;
            assert(buf@.subrange(0, n) =~= buf@.take(n));
            assert(message_reader.view() =~= c.take(n));
            lemma_view_pre(c, n);
        }
@@ SnapshotReader::init before_call from_bytes 1
            let ghost vs = v@;
            proof {
                lemma_head_of_window(c, read_len as int, vs.len() as int);
                assert(c.take(vs.len() as int) =~= vs);
                lemma_ok_skip(c);
                lemma_first_rec_take(c, vs.len() as int);
                assert(first_rec(vs) == Some(vs.len() as int));
            }
@@ SnapshotReader::init after_call read_message 1
            proof {
                lemma_read_message_is_frame::<SnapshotHeader>(header, vs);
                assert(message_reader.view() + c.skip(read_len as int) =~= c.skip(vs.len() as int));
            }
@@ SnapshotWriter::init spec
    // C01 (S25): a NEW snapshot file holds the framed header and nothing else — whatever a file of that name held before
    ensures r is Ok ==> r.unwrap().wf() && r.unwrap().file.contents() == pb_frame(hdr_msg(header)),
@@ SnapshotWriter::init entry
    broadcast use axiom_hdr_nonempty;
@@ SnapshotWriter::init before_tail
    proof { assert(file.contents() =~= pb_frame(hdr_msg(header))); }
@@ SnapshotWriter::write_record spec
    requires old(self).wf()
    // C01: a record handed to the writer is appended as one frame; nothing written before is touched
    ensures r is Ok ==> final(self).wf() && final(self).file.contents() == old(self).file.contents() + pb_frame(item_msg(*record)),
        r is Err ==> old(self).file.io_faulty(), final(self).file.io_faulty() == old(self).file.io_faulty(),
@@ SnapshotWriter::write_record before_tail
    proof { assert(self.file.contents() =~= old(self).file.contents() + pb_frame(item_msg(*record))); }
@@ SnapshotWriter::flush spec
    ensures final(self).file.contents() == old(self).file.contents(), final(self).file.pos() == old(self).file.pos(),
        final(self).file.io_faulty() == old(self).file.io_faulty(), r is Err ==> old(self).file.io_faulty(),
@@ SnapshotWriterActor::init chain 1
    env path: Arc<String>, header: SnapshotHeaderDto
    returns anyhow::Result<SnapshotWriter>
@@ SnapshotWriterActor::init subst
    SnapshotWriter::init(&path, header) => SnapshotWriter::init(path.as_str(), header)
@@ SnapshotWriterActor::init chain 1 spec
    ensures r is Ok ==> r.unwrap().wf() && r.unwrap().file.contents() == pb_frame(hdr_msg(header)),
@@ SnapshotWriterActor::init spec
    requires old(self).header is Some, old(self).inner_writer is None
    // C01: the actor starts with an image that holds exactly its header (or it stops)
    ensures final(self).inner_writer is Some ==> final(self).ready() && final(self).image() == snap_image(old(self).header.unwrap(), Seq::empty()),
        final(self).path == old(self).path,
@@ SnapshotWriterActor::init exit
    proof { assert(frames(Seq::<SnapshotRecordDto>::empty()) =~= Seq::<u8>::empty()); if self.inner_writer is Some { assert(self.image() =~= snap_image(old(self).header.unwrap(), Seq::empty())); } }
@@ SnapshotWriterActor::write chain 1
    env path: Arc<String>, header: SnapshotHeaderDto, mut writer: SnapshotWriter, record: SnapshotRecordDto
    returns anyhow::Result<SnapshotWriter>
@@ SnapshotWriterActor::write chain 1 spec
    requires writer.wf()
    ensures r is Ok ==> r.unwrap().wf() && r.unwrap().file.contents() == writer.file.contents() + pb_frame(item_msg(record)),
        r is Err ==> writer.file.io_faulty(),
@@ SnapshotWriterActor::write spec
    requires old(self).ready()
    // C01: every record a component sends is appended to the image, in arrival order, unchanged (or the actor stops: I/O fault)
    ensures final(self).path == old(self).path,
        final(self).inner_writer is Some ==> final(self).ready() && final(self).image() == old(self).image() + pb_frame(item_msg(record)),
        final(self).inner_writer is None ==> old(self).inner_writer.unwrap().file.io_faulty(),
@@ SnapshotWriterActor::flush chain 1
    env path: Arc<String>, header: SnapshotHeaderDto, mut writer: SnapshotWriter, record: SnapshotRecordDto
    returns anyhow::Result<SnapshotWriter>
@@ SnapshotWriterActor::flush chain 1 spec
    ensures r is Ok ==> r.unwrap().file.contents() == writer.file.contents() && r.unwrap().file.pos() == writer.file.pos(),
        r is Err ==> writer.file.io_faulty(),
@@ SnapshotWriterActor::flush spec
    requires old(self).ready()
    ensures final(self).path == old(self).path,
        final(self).inner_writer is Some ==> final(self).ready() && final(self).image() == old(self).image(),
        final(self).inner_writer is None ==> old(self).inner_writer.unwrap().file.io_faulty(),
@@ SnapshotWriterActor::handle@Handler<SnapshotWriterRequest> t20_calls write flush
@@ SnapshotWriterActor::handle@Handler<SnapshotWriterRequest> subst
    Self::Context => Context<Self>
@@ SnapshotWriterActor::handle@Handler<SnapshotWriterRequest> spec
    requires old(self).ready()
    // C01 (message level, A-WAIT): a Record message appends exactly that record's frame; Flush changes nothing in the image
    ensures
        final(self).inner_writer is Some ==> final(self).ready() && final(self).image() == (match msg {
            SnapshotWriterRequest::Record(record) => old(self).image() + pb_frame(item_msg(record)),
            SnapshotWriterRequest::Flush => old(self).image(),
        }),
        final(self).inner_writer is None ==> old(self).inner_writer.unwrap().file.io_faulty(),
