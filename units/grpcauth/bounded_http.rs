// Bounded stand-in (always run, labelled bounded, never counted as proved) for the HTTP half of C16:
// ApiCheckAuthMiddleware::call is an async closure in a generic actix Service impl (regex, header / query / form parsing) —
// outside Verus.  The REAL middleware and the REAL route table (web_config::app_config) are mounted on an actix test
// service with OpenAPI auth ON; every path x method x token placement below, none carrying a token issued by a login,
// must be answered 403 "unknown user!" by the middleware — except the endpoints the property itself exempts.  Then the lifetime of a
// session: a token is accepted while its session lives (2 s) and refused afterwards, for a client that polls every 300 ms across the
// expiry and for one that comes back later.
use super::*;
use crate::common::AppSysConfig;
use crate::starter::{build_share_data, config_factory};
use crate::web_config::app_config;
use actix_web::http::StatusCode;
use actix_web::test as atest;
use actix_web::{web::Data, App};

#[test]
fn vx_bounded_c16_http() {
    let dir = tempfile::tempdir().unwrap();
    let mut cfg = AppSysConfig::init_from_env();
    cfg.local_db_dir = dir.path().join("nacos_db").to_string_lossy().to_string();
    cfg.openapi_enable_auth = true;
    cfg.raft_auto_init = false;
    cfg.metrics_enable = false;
    cfg.naming_instance_metadata_persistence_enable = false;
    let cfg = Arc::new(cfg);
    let failures: Vec<String> = actix_rt::System::new().block_on(async move {
        let factory_data = config_factory(cfg.clone()).await.unwrap();
        let app_data = build_share_data(factory_data).unwrap();
        let app = atest::init_service(
            App::new()
                .app_data(Data::new(app_data.clone()))
                .app_data(Data::new(app_data.config_addr.clone()))
                .app_data(Data::new(app_data.naming_addr.clone()))
                .app_data(Data::new(app_data.bi_stream_manage.clone()))
                .wrap(ApiCheckAuth::new(app_data.clone()))
                .configure(app_config(cfg.as_ref().clone())),
        )
        .await;
        let data_paths = [
            "/nacos/v1/cs/configs", "/nacos/v1/cs/configs/listener", "/nacos/v2/cs/config", "/nacos/v2/cs/history/list",
            "/nacos/v1/ns/instance", "/nacos/v1/ns/instance/beat", "/nacos/v1/ns/instance/list", "/nacos/v1/ns/service", "/nacos/v1/ns/service/list",
            "/nacos/v2/ns/instance", "/nacos/v2/ns/instance/list", "/nacos/v2/ns/service", "/nacos/v2/ns/service/list", "/nacos/v1/ns/operator/metrics",
            "/nacos/v1/console/namespaces", "/nacos/v2/console/namespace/list", "/nacos/v2/console/namespace",
            "/nacos/v1/raft/vote", "/nacos/v1/raft/append", "/nacos/v1/raft/joinnode",
            "/rnacos/v1/mcp/server/list", "/rnacos/v1/anything/else", "/nacos/no/such/route",
        ];
        let q = "dataId=d&group=g&tenant=&serviceName=s&ip=1.1.1.1&port=80&namespaceId=public&content=c";
        let mut bad = vec![];
        let mut probes = 0usize;
        for base in data_paths {
            let spellings = [base.to_string(), format!("{}/", base), base.to_uppercase(), base.replacen("/nacos/", "/Nacos/", 1), format!("/{}", base), format!("/x{}", base),
                             if base.starts_with("/nacos/") { base.replacen("/v1/", "//v1/", 1) } else { base.to_string() }, format!("{}%2F", base), format!("{};x=1", base),
                             // percent-encoded letters: actix routes on the decoded path
                             base.replacen("/nacos/", "/%6eacos/", 1).replacen("/rnacos/", "/%72nacos/", 1), base.replacen("/v1/", "/v%31/", 1).replacen("/v2/", "/v%32/", 1),
                             { let mut b = base.to_string(); let last = b.pop().unwrap(); format!("{}%{:02x}", b, last as u32) }];
            for path in spellings.iter() {
                for method in ["GET", "POST", "PUT", "DELETE"] {
                    // none of these is a token issued by a login
                    let tokens: [(&str, Option<(&str, &str)>, Option<&str>, Option<&str>); 9] = [
                        ("no token", None, None, None),
                        ("empty accessToken header", Some(("accessToken", "")), None, None),
                        ("garbage accessToken header", Some(("accessToken", "no-such-token")), None, None),
                        ("garbage bearer", Some(("Authorization", "Bearer no-such-token")), None, None),
                        ("bearer without token", Some(("Authorization", "Bearer ")), None, None),
                        ("query token", None, Some("accessToken=no-such-token"), None),
                        ("empty query token", None, Some("accessToken="), None),
                        ("form token", None, None, Some("accessToken=no-such-token")),
                        ("token named differently", None, Some("access_token=x&token=x&AccessToken=x"), None),
                    ];
                    for (what, header, query, form) in tokens.iter() {
                        let uri = match query { Some(t) => format!("{}?{}&{}", path, q, t), None => format!("{}?{}", path, q) };
                        let mut req = match method { "GET" => atest::TestRequest::get(), "POST" => atest::TestRequest::post(), "PUT" => atest::TestRequest::put(), _ => atest::TestRequest::delete() }.uri(&uri);
                        if let Some((h, v)) = header { req = req.insert_header((*h, *v)); }
                        if let Some(f) = form { req = req.insert_header(("Content-Type", "application/x-www-form-urlencoded")).set_payload(f.to_string()); }
                        let resp = atest::call_service(&app, req.to_request()).await;
                        let status = resp.status();
                        let body = atest::read_body(resp).await;
                        let body = String::from_utf8_lossy(&body).to_string();
                        probes += 1;
                        let refused = status == StatusCode::FORBIDDEN && body.contains("unknown user!");
                        // outside the two prefixes (as the middleware's regexes see the path) the property says nothing: only require that no route is there
                        let outside = !path.to_lowercase().contains("/nacos/") && !path.to_lowercase().contains("/rnacos/v1/");
                        if !refused && !(outside && status == StatusCode::NOT_FOUND && body.is_empty()) {
                            if bad.len() < 12 { bad.push(format!("VX-BOUNDED {} {} ({}) answered {} {:?} instead of 403 unknown user", method, uri, what, status, &body[..body.len().min(80)])); }
                        }
                    }
                }
            }
        }
        // the exempted endpoints are NOT refused by the middleware (the sweep is not vacuous: the middleware distinguishes paths)
        for (method, path) in [("POST", "/nacos/v1/auth/login"), ("POST", "/nacos/v1/auth/users/login"), ("POST", "/nacos/v3/auth/user/login"), ("POST", "/rnacos/v1/auth/user/login"), ("GET", "/nacos/metrics")] {
            let req = if method == "GET" { atest::TestRequest::get() } else { atest::TestRequest::post() }.uri(&format!("{}?username=u&password=p", path)).to_request();
            let resp = atest::call_service(&app, req).await;
            let status = resp.status();
            let body = String::from_utf8_lossy(&atest::read_body(resp).await).to_string();
            if status == StatusCode::FORBIDDEN && body.contains("unknown user!") { bad.push(format!("VX-BOUNDED exempted endpoint {} {} is refused by the auth middleware", method, path)); }
        }
        if probes < 5000 { bad.push(format!("VX-BOUNDED only {} probes", probes)); }
        // ---- the lifetime of a session: a token is accepted while its session lives and refused once it has run out — also for a
        //      client that never pauses (an SDK polling with the token it got at login) and for one that comes back later.
        //      The session is stored the way an applied login entry stores it (CacheManagerRaftReq::Set, time-to-live 2 s).
        {
            use crate::cache::actor_model::{CacheManagerRaftReq, CacheSetParam};
            use crate::cache::model::CacheValue;
            for (token, ttl) in [("vx-poll-token", 2i32), ("vx-late-token", 1i32)] {
                let session = Arc::new(TokenSession { username: Arc::new("vx_user".to_owned()), roles: vec![], extend_infos: Default::default() });
                app_data.direct_cache_manager.send(CacheManagerRaftReq::Set(CacheSetParam::new_with_ttl(
                    CacheKey::new(CacheType::ApiTokenSession, Arc::new(token.to_owned())), CacheValue::ApiTokenSession(session), ttl))).await.unwrap().unwrap();
            }
            let t0 = std::time::Instant::now();
            let (mut served_early, mut served_late) = (0usize, 0usize);
            while t0.elapsed() < std::time::Duration::from_millis(7000) {
                let req = atest::TestRequest::get().uri("/nacos/v1/cs/configs?dataId=vx-c16&group=DEFAULT_GROUP").insert_header(("accessToken", "vx-poll-token")).to_request();
                let status = atest::call_service(&app, req).await.status();
                let at = t0.elapsed().as_millis();
                if at < 1200 { if status != StatusCode::FORBIDDEN { served_early += 1; } }
                else if at > 4000 && status != StatusCode::FORBIDDEN { served_late += 1; if served_late == 1 { bad.push(format!("VX-BOUNDED EXPIRED polling client: {} ms after a login whose session lives 2 s the token is still accepted (status {})", at, status)); } }
                tokio::time::sleep(std::time::Duration::from_millis(300)).await;
            }
            if served_early == 0 { bad.push("VX-BOUNDED EXPIRED probe is vacuous: the token of a live session was never accepted".to_owned()); }
            // a client that shows up long after its session ran out
            let req = atest::TestRequest::get().uri("/nacos/v1/cs/configs?dataId=vx-c16&group=DEFAULT_GROUP").insert_header(("accessToken", "vx-late-token")).to_request();
            let status = atest::call_service(&app, req).await.status();
            if status != StatusCode::FORBIDDEN { bad.push(format!("VX-BOUNDED EXPIRED late client: a token whose session ran out 6 s ago is accepted (status {})", status)); }
        }
        bad
    });
    assert!(failures.is_empty(), "{} failing request(s), first ones:\n{}", failures.len(), failures.join("\n"));
}
