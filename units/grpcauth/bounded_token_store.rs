// Bounded stand-in (always run, labelled bounded, never counted as proved) for the token STORE behind both halves of C16: the
// auth checks (HTTP middleware, gRPC server) accept a request iff DirectCacheManager answers the token lookup with a session, so
// "a wrong, expired or empty token is treated as no token" is decided there.  DirectCacheManager (actor, LRU-with-expiry cache of
// the inner_mem_cache crate, wall clock, snapshot codec) is outside Verus.
// One real-time run (about 4 s): a token issued with a lifetime of 2 s is accepted while fresh, and refused once the lifetime is
// over — on the node that issued it AND on a node that was restored from a snapshot taken while the token was alive (restart /
// snapshot install must not prolong a session); a token that was never issued and a removed token are refused.
use super::*;
use crate::cache::model::CacheType;
use crate::common::model::TokenSession;
use crate::raft::filestore::model::SnapshotHeaderDto;
use crate::raft::filestore::raftsnapshot::SnapshotReader;
use std::time::Duration;

/// C16: "A wrong, expired or empty token is treated as no token."
///
/// The OpenAPI auth middleware and the gRPC server both decide "valid token" by sending
/// `CacheManagerLocalReq::Get(CacheKey{ApiTokenSession, token})` to the `DirectCacheManager`
/// and passing the request iff the answer is `Value(ApiTokenSession(..))`.
///
/// Scenario: a login stores a token with a short lifetime; while the token is still alive the
/// node builds a raft snapshot; the node restarts (or a follower installs the snapshot) and
/// loads the snapshot into a fresh `DirectCacheManager`; the token's lifetime runs out.
/// After that the token lookup used by the auth checks must not yield a session any more.
#[actix::test]
async fn vx_bounded_c16_token_store() {
    const TOKEN_TTL_SECONDS: i32 = 2;
    let token = Arc::new("0123456789abcdef0123456789abcdef0123456789abcdef0123456789abcdef".to_string());
    let token_key = CacheKey::new(CacheType::ApiTokenSession, token.clone());
    let session = Arc::new(TokenSession {
        username: Arc::new("alice".to_string()),
        roles: vec![],
        extend_infos: Default::default(),
    });

    // 1. node before restart: what openapi::auth::do_login applies through raft on a successful login
    let before_restart = DirectCacheManager::new().start();
    let login_set = CacheManagerRaftReq::Set(CacheSetParam::new_with_ttl(
        token_key.clone(),
        CacheValue::ApiTokenSession(session),
        TOKEN_TTL_SECONDS,
    ));
    before_restart.send(login_set).await.unwrap().unwrap();
    let fresh = before_restart
        .send(CacheManagerLocalReq::Get(token_key.clone()))
        .await
        .unwrap()
        .unwrap();
    assert!(
        matches!(fresh, CacheManagerRaftResult::Value(CacheValue::ApiTokenSession(_))),
        "VX-BOUNDED-FAIL TOKEN a freshly issued token must be accepted, got {:?}",
        fresh
    );

    // 2. the node builds a snapshot while the token is still alive (real writer, real file)
    let dir = tempfile::tempdir().unwrap();
    let snapshot_path = Arc::new(
        dir.path()
            .join("snapshot_vx_c16")
            .to_string_lossy()
            .into_owned(),
    );
    let header = SnapshotHeaderDto {
        last_index: 1,
        last_term: 1,
        member: vec![1],
        member_after_consensus: vec![],
        node_addrs: Default::default(),
    };
    let writer = SnapshotWriterActor::new(snapshot_path.clone(), header).start();
    before_restart
        .send(RaftApplyDataRequest::BuildSnapshot(writer.clone()))
        .await
        .unwrap()
        .unwrap();
    // the second Flush is only answered once the first one has completed
    writer.send(SnapshotWriterRequest::Flush).await.unwrap().ok();
    writer.send(SnapshotWriterRequest::Flush).await.unwrap().ok();

    // 3. restart / snapshot install: a fresh cache manager is filled from the snapshot file
    let after_restart = DirectCacheManager::new().start();
    let mut reader = SnapshotReader::init(snapshot_path.as_str()).await.unwrap();
    let mut loaded = 0;
    while let Some(record) = reader.read_record().await.unwrap() {
        assert_eq!(record.tree.as_str(), DIRECT_CACHE_TABLE_NAME.as_str());
        after_restart
            .send(RaftApplyDataRequest::LoadSnapshotRecord(record))
            .await
            .unwrap()
            .unwrap();
        loaded += 1;
    }
    assert_eq!(loaded, 1, "the live token must be part of the snapshot");
    after_restart
        .send(RaftApplyDataRequest::LoadCompleted)
        .await
        .unwrap()
        .unwrap();


    // a token that was never issued, and one that was issued and removed (logout), are no tokens
    let never = CacheKey::new(CacheType::ApiTokenSession, Arc::new("ffffffffffffffffffffffffffffffffffffffffffffffffffffffffffffffff".to_string()));
    let got = before_restart.send(CacheManagerLocalReq::Get(never.clone())).await.unwrap().unwrap();
    assert!(!matches!(got, CacheManagerRaftResult::Value(_)), "VX-BOUNDED-FAIL TOKEN a token that was never issued resolves to a session: {:?}", got);
    let gone = CacheKey::new(CacheType::ApiTokenSession, Arc::new("aaaaaaaaaaaaaaaaaaaaaaaaaaaaaaaaaaaaaaaaaaaaaaaaaaaaaaaaaaaaaaaa".to_string()));
    let s2 = Arc::new(TokenSession { username: Arc::new("bob".to_string()), roles: vec![], extend_infos: Default::default() });
    before_restart.send(CacheManagerRaftReq::Set(CacheSetParam::new_with_ttl(gone.clone(), CacheValue::ApiTokenSession(s2), 3600))).await.unwrap().unwrap();
    before_restart.send(CacheManagerRaftReq::Remove(gone.clone())).await.unwrap().unwrap();
    let got = before_restart.send(CacheManagerLocalReq::Get(gone.clone())).await.unwrap().unwrap();
    assert!(!matches!(got, CacheManagerRaftResult::Value(_)), "VX-BOUNDED-FAIL TOKEN a removed token still resolves to a session: {:?}", got);

    // 4. the lifetime granted at login runs out
    tokio::time::sleep(Duration::from_millis(
        (TOKEN_TTL_SECONDS as u64 + 2) * 1000,
    ))
    .await;

    // 5. the lookup the auth middleware / gRPC server do for every request carrying this token
    for (name, node) in [
        ("node that issued the token", &before_restart),
        ("node restarted from the snapshot", &after_restart),
    ] {
        let got = node
            .send(CacheManagerLocalReq::Get(token_key.clone()))
            .await
            .unwrap()
            .unwrap();
        assert!(
            !matches!(got, CacheManagerRaftResult::Value(_)),
            "VX-BOUNDED-FAIL TOKEN {}: token issued with a {}s lifetime still resolves to a session after it expired \
             (request would be served instead of answered 403): {:?}",
            name,
            TOKEN_TTL_SECONDS,
            got
        );
        let exists = node
            .send(CacheManagerLocalReq::Exists(token_key.clone()))
            .await
            .unwrap()
            .unwrap();
        assert!(
            matches!(exists, CacheManagerRaftResult::Exists(false)),
            "VX-BOUNDED-FAIL TOKEN {}: expired token still reported as existing: {:?}",
            name,
            exists
        );
    }
}
