// Bounded stand-in for unit grpcauth (C16, gRPC half): the unit's contracts replayed natively on the real dispatcher
// (fill_token_session + InvokerHandler::handle) over a bounded set of requests.  Runs only when the deductive check is
// undecided on the current source.  Never counted as proved.
use super::*;
use crate::common::AppSysConfig;
use crate::starter::{build_share_data, config_factory};
use std::collections::HashMap;

const TOK: &str = "vx-cluster-token-1";

async fn send(server: &RequestServerImpl, ty: &str, cluster_hdr: Option<&str>, access_hdr: Option<&str>) -> (bool, bool, Option<String>) {
    let mut headers = HashMap::new();
    if let Some(v) = cluster_hdr { headers.insert(CLUSTER_TOKEN.to_string(), v.to_string()); }
    if let Some(v) = access_hdr { headers.insert("accessToken".to_string(), v.to_string()); }
    let payload = PayloadUtils::build_full_payload(ty, "junk-body".to_string(), "127.0.0.1", headers);
    let mut meta = RequestMeta::default();
    server.fill_token_session(&payload, &mut meta).await.ok();
    let valid = meta.cluster_token_is_valid;
    let has_session = meta.token_session.is_some();
    let msg = match server.invoker.handle(payload, meta).await { Ok(res) => if res.success { None } else { res.message.clone() }, Err(_) => Some("handler-entered".to_string()) };
    (valid, has_session, msg)
}

#[test]
fn vx_fallback_grpcauth() {
    let dir = tempfile::tempdir().unwrap();
    let mut cfg = AppSysConfig::init_from_env();
    cfg.local_db_dir = dir.path().join("nacos_db").to_string_lossy().to_string();
    cfg.openapi_enable_auth = true;
    cfg.cluster_token = Arc::new(TOK.to_string());
    cfg.raft_auto_init = false;
    cfg.metrics_enable = false;
    cfg.naming_instance_metadata_persistence_enable = false;
    let cfg = Arc::new(cfg);
    let failures: Vec<String> = actix_rt::System::new().block_on(async move {
        let factory_data = config_factory(cfg).await.unwrap();
        let app = build_share_data(factory_data).unwrap();
        let mut invoker = InvokerHandler::new(app.clone());
        invoker.add_raft_handler(&app);
        invoker.add_config_handler(&app);
        invoker.add_naming_handler(&app);
        let server = RequestServerImpl::new(app, invoker);
        let mut bad = vec![];
        let cluster_types = ["RaftAppendRequest", "RaftSnapshotRequest", "RaftVoteRequest", "RaftRouteRequest", "NamingRouteRequest"];
        let data_types = ["ConfigQueryRequest", "ConfigPublishRequest", "ConfigRemoveRequest", "ConfigBatchListenRequest", "InstanceRequest",
                          "BatchInstanceRequest", "SubscribeServiceRequest", "ServiceQueryRequest", "ServiceListRequest"];
        let wrong: Vec<Option<String>> = vec![None, Some("".into()), Some("v".into()), Some(TOK[..TOK.len() - 1].into()), Some(format!("{}x", TOK)),
                                              Some("vx-cluster-token-2".into()), Some(TOK.to_uppercase())];
        for ty in cluster_types {
            for w in &wrong {
                let (valid, _s, msg) = send(&server, ty, w.as_deref(), None).await;
                if valid { bad.push(format!("VX-FALLBACK cluster token {:?} marked valid for {}", w, ty)); }
                if msg.as_deref() != Some("request cluster token is invalid") { bad.push(format!("VX-FALLBACK {} with cluster token {:?} not refused: {:?}", ty, w, msg)); }
            }
            let (valid, _s, msg) = send(&server, ty, Some(TOK), None).await;
            if !valid || msg.as_deref() == Some("request cluster token is invalid") { bad.push(format!("VX-FALLBACK exact cluster token refused for {}", ty)); }
        }
        for ty in data_types {
            for acc in [None, Some(""), Some("no-such-token")] {
                for cl in [None, Some(TOK)] {
                    let (_v, has_session, msg) = send(&server, ty, cl, acc).await;
                    if has_session { bad.push(format!("VX-FALLBACK session attached for access token {:?}", acc)); }
                    if msg.as_deref() != Some("unknown user!") { bad.push(format!("VX-FALLBACK data request {} (accessToken {:?}, cluster {:?}) not refused with 403: {:?}", ty, acc, cl, msg)); }
                }
            }
        }
        // type-name spellings around the registered data types: whatever the dispatcher makes of them, a request without a session
        // must never be handed to a data handler (entering it shows as a decode error of the junk body, or as success)
        for ty in data_types {
            let spellings = [format!("Raft.{}", ty), format!("Raft{}", ty), format!("RaftAppendRequest.{}", ty), format!("NamingRouteRequest.{}", ty),
                             format!("ServerCheckRequest.{}", ty), format!("HealthCheckRequest.{}", ty), format!("x.{}", ty), format!("{}.x", ty),
                             format!(" {}", ty), format!("{} ", ty), ty.to_lowercase()];
            for sp in spellings.iter() {
                for cl in [None, Some(""), Some(TOK)] {
                    let (_v, _s, msg) = send(&server, sp, cl, None).await;
                    if msg.is_none() || msg.as_deref() == Some("handler-entered") {
                        bad.push(format!("VX-FALLBACK request type {:?} (cluster token {:?}, no session) reached a handler: {:?}", sp, cl, msg));
                    }
                }
            }
        }
        bad
    });
    assert!(failures.is_empty(), "{} failing request(s), first ones:\n{}", failures.len(), failures.iter().take(12).cloned().collect::<Vec<_>>().join("\n"));
}

/// the same sweep with NO cluster token configured (the default deployment)
#[test]
fn vx_fallback_grpcauth_no_cluster_token() {
    let dir = tempfile::tempdir().unwrap();
    let mut cfg = AppSysConfig::init_from_env();
    cfg.local_db_dir = dir.path().join("nacos_db").to_string_lossy().to_string();
    cfg.openapi_enable_auth = true;
    cfg.cluster_token = Arc::new(String::new());
    cfg.raft_auto_init = false;
    cfg.metrics_enable = false;
    cfg.naming_instance_metadata_persistence_enable = false;
    let cfg = Arc::new(cfg);
    let failures: Vec<String> = actix_rt::System::new().block_on(async move {
        let factory_data = config_factory(cfg).await.unwrap();
        let app = build_share_data(factory_data).unwrap();
        let mut invoker = InvokerHandler::new(app.clone());
        invoker.add_raft_handler(&app);
        invoker.add_config_handler(&app);
        invoker.add_naming_handler(&app);
        let server = RequestServerImpl::new(app, invoker);
        let mut bad = vec![];
        let data_types = ["ConfigQueryRequest", "ConfigPublishRequest", "ConfigRemoveRequest", "ConfigBatchListenRequest", "InstanceRequest",
                          "BatchInstanceRequest", "SubscribeServiceRequest", "ServiceQueryRequest", "ServiceListRequest"];
        for ty in data_types {
            for acc in [None, Some(""), Some("no-such-token")] {
                let (_v, has_session, msg) = send(&server, ty, None, acc).await;
                if has_session { bad.push(format!("VX-FALLBACK session attached for access token {:?}", acc)); }
                if msg.as_deref() != Some("unknown user!") { bad.push(format!("VX-FALLBACK data request {} (accessToken {:?}) not refused with 403: {:?}", ty, acc, msg)); }
            }
            let spellings = [format!("Raft.{}", ty), format!("Raft{}", ty), format!("RaftAppendRequest.{}", ty), format!("NamingRouteRequest.{}", ty),
                             format!("ServerCheckRequest.{}", ty), format!("HealthCheckRequest.{}", ty), format!("x.{}", ty), format!("{}.x", ty),
                             format!(" {}", ty), format!("{} ", ty), ty.to_lowercase()];
            for sp in spellings.iter() {
                for cl in [None, Some(""), Some("anything")] {
                    let (_v, _s, msg) = send(&server, sp, cl, None).await;
                    if msg.is_none() || msg.as_deref() == Some("handler-entered") {
                        bad.push(format!("VX-FALLBACK request type {:?} (cluster token {:?}, no session, no cluster token configured) reached a handler: {:?}", sp, cl, msg));
                    }
                }
            }
        }
        bad
    });
    assert!(failures.is_empty(), "{} failing request(s), first ones:\n{}", failures.len(), failures.iter().take(12).cloned().collect::<Vec<_>>().join("\n"));
}
