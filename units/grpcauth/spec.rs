verus! {
// the two sets below are written from the property statement, not read off `ignore_auth`
/// requests that never need a user token: the connection check and the health check
pub open spec fn is_public_type(t: Seq<char>) -> bool {
    t == "ServerCheckRequest"@ || t == "HealthCheckRequest"@
}
/// cluster-internal requests (Raft append / snapshot / vote / route, naming route)
pub open spec fn is_cluster_type(t: Seq<char>) -> bool {
    t == "RaftAppendRequest"@ || t == "RaftSnapshotRequest"@ || t == "RaftVoteRequest"@ || t == "RaftRouteRequest"@ || t == "NamingRouteRequest"@
}
pub proof fn reveal_types()
    ensures "ServerCheckRequest"@.len() == 18, "HealthCheckRequest"@.len() == 18
{
    reveal_strlit("ServerCheckRequest"); reveal_strlit("HealthCheckRequest");
}
/// header lookup by name
pub open spec fn hdr(h: Map<String, String>, name: Seq<char>) -> Option<Seq<char>> {
    if exists|k: String| k@ == name && h.contains_key(k) {
        let k = choose|k: String| k@ == name && h.contains_key(k);
        Some(h[k]@)
    } else { None }
}
/// token presented by a request: accessToken header, else Authorization header, else none
pub open spec fn presented_token(p: Payload) -> Seq<char> {
    match p.metadata {
        Some(m) => match hdr(m.headers@, "accessToken"@) {
            Some(v) => v,
            None => match hdr(m.headers@, "Authorization"@) { Some(v) => v, None => ""@ },
        },
        None => ""@,
    }
}
} // verus!
