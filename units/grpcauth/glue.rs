#[allow(unused_macros)]
macro_rules! format { ($($t:tt)*) => { crate::vx_format() } }
verus! {

#[verifier::external_body]
pub fn vx_format() -> String { unimplemented!() }

pub mod serde_json {
    use vstd::prelude::*;
    verus! {
    #[verifier::external_body]
    pub fn to_string<T>(v: &T) -> Result<String, crate::anyhow::Error> { unimplemented!() }
    }
}

pub struct Metadata { pub r#type: String, pub client_ip: String, pub headers: HashMap<String, String> }
pub struct Payload { pub metadata: Option<Metadata> }
pub struct TokenSession { pub username: Arc<String> }
pub struct ClientVersion {}
pub struct RequestMeta {
    pub connection_id: Arc<String>,
    pub client_ip: String,
    pub labels: HashMap<String, String>,
    pub token_session: Option<Arc<TokenSession>>,
    pub cluster_token_is_valid: bool,
    pub client_version: Arc<ClientVersion>,
}
pub struct AppSysConfig { pub openapi_enable_auth: bool, pub cluster_token: Arc<String>, pub raft_node_id: u64 }
pub struct AppShareData { pub sys_config: Arc<AppSysConfig> }

pub const SUCCESS_CODE: u16 = 200;
pub struct ServerCheckResponse { pub result_code: u16, pub connection_id: Option<String>, pub message: Option<String> }
impl Default for ServerCheckResponse {
    #[verifier::external_body]
    fn default() -> Self { unimplemented!() }
}

/// outcome of the dispatcher; `code` is the error code of `HandlerResult::error` (0 for success)
pub struct HandlerResult { pub success: bool, pub code: u16 }
impl HandlerResult {
    #[verifier::external_body]
    pub fn success(payload: Payload) -> (r: Self) ensures r.success, r.code == 0 { unimplemented!() }
    #[verifier::external_body]
    pub fn error(code: u16, message: String) -> (r: Self) ensures !r.success, r.code == code { unimplemented!() }
}

/// type url of a payload (PayloadUtils::get_payload_type: `metadata.type`)
pub open spec fn payload_type(p: Payload) -> Option<Seq<char>> {
    match p.metadata { Some(m) => Some(m.r#type@), None => None }
}

pub struct PayloadUtils {}
impl PayloadUtils {
    pub fn get_payload_type(payload: &Payload) -> (r: Option<&String>)
        ensures match r { Some(s) => payload_type(*payload) == Some(s@), None => payload_type(*payload) is None }
    {
        if let Some(meta) = &payload.metadata { return Some(&meta.r#type); }
        None
    }
    #[verifier::external_body]
    pub fn build_payload(url: &str, json: String) -> Payload { unimplemented!() }
}

/// stands for every registered data / cluster handler: entering it without authorisation is a precondition failure
pub struct ShimHandler { pub auth_on: bool, pub cluster_token_set: bool }
impl ShimHandler {
    #[verifier::external_body]
    pub async fn handle(&self, request_payload: Payload, request_meta: RequestMeta) -> (r: anyhow::Result<HandlerResult>)
        requires
            payload_type(request_payload) is Some,
            // C16: no data handler is entered without a valid session when auth is on
            !self.auth_on || is_public_type(payload_type(request_payload).unwrap()) || is_cluster_type(payload_type(request_payload).unwrap())
                || request_meta.token_session is Some,
            // C16: no cluster-internal handler is entered without the cluster token when one is configured
            !self.cluster_token_set || !is_cluster_type(payload_type(request_payload).unwrap()) || request_meta.cluster_token_is_valid,
    { unimplemented!() }
}

pub struct InvokerHandler { pub app: Arc<AppShareData> }
impl InvokerHandler {
    /// trait-object lookup in `handlers` (not verified): whatever handler it returns is subject to ShimHandler::handle's precondition
    #[verifier::external_body]
    pub fn match_handler<'a>(&'a self, url: &str) -> (r: Option<&'a ShimHandler>)
        ensures r is Some ==> r.unwrap().auth_on == self.app.sys_config.openapi_enable_auth
            && r.unwrap().cluster_token_set == (self.app.sys_config.cluster_token@.len() > 0)
    { unimplemented!() }
}

// ---- server side (src/grpc/server.rs)
pub struct RequestServerImpl { pub app: Arc<AppShareData>, pub invoker: InvokerHandler }
pub enum CacheType { ApiTokenSession, UserSession }
pub struct CacheKey { pub cache_type: CacheType, pub key: Arc<String> }
impl CacheKey {
    pub fn new(cache_type: CacheType, key: Arc<String>) -> (r: Self) ensures r.key == key { CacheKey { cache_type, key } }
}
/// A-CACHE: the session cache holds `s` under token `tok`
pub uninterp spec fn cache_holds(tok: Seq<char>, s: Arc<TokenSession>) -> bool;
#[verifier::external_body]
pub async fn get_user_session(app: &Arc<AppShareData>, key: CacheKey) -> (r: anyhow::Result<Option<Arc<TokenSession>>>)
    ensures match r { Ok(Some(s)) => cache_holds(key.key@, s), _ => true }
{ unimplemented!() }

} // verus!
