@@ InvokerHandler::ignore_auth spec
    // C16: exactly the public and the cluster-internal request types may skip the user token
    ensures r == (is_public_type(t@) || is_cluster_type(t@))
@@ InvokerHandler::is_cluster_request spec
    ensures r == is_cluster_type(t@)
@@ InvokerHandler::handle@PayloadHandler spec
    ensures
        // C16: auth on, data request, no session  =>  refused with 403 (and, by the callee's precondition, no handler was entered)
        (payload_type(request_payload) is Some && self.app.sys_config.openapi_enable_auth
            && !is_public_type(payload_type(request_payload).unwrap()) && !is_cluster_type(payload_type(request_payload).unwrap())
            && request_meta.token_session is None) ==> (r is Ok && !r.unwrap().success && r.unwrap().code == 403),
        // C16: cluster token configured, cluster-internal request, token not valid  =>  refused
        (payload_type(request_payload) is Some && self.app.sys_config.cluster_token@.len() > 0
            && is_cluster_type(payload_type(request_payload).unwrap()) && !request_meta.cluster_token_is_valid)
            ==> (r is Ok && !r.unwrap().success),
@@ InvokerHandler::handle@PayloadHandler entry
    proof {
        reveal_strlit("ServerCheckRequest"); reveal_strlit("HealthCheckRequest"); reveal_strlit("RaftAppendRequest");
        reveal_strlit("RaftSnapshotRequest"); reveal_strlit("RaftVoteRequest"); reveal_strlit("RaftRouteRequest"); reveal_strlit("NamingRouteRequest");
        assert("ServerCheckRequest"@[0] != "NamingRouteRequest"@[0]);
    }
@@ RequestServerImpl::fill_token_session spec
    ensures
        // C16: a user session is attached only with auth on, for a non-empty presented token, and only if the cache holds it for exactly that token
        (final(request_meta).token_session is Some && old(request_meta).token_session is None) ==>
            (self.app.sys_config.openapi_enable_auth && presented_token(*payload).len() > 0
             && cache_holds(presented_token(*payload), final(request_meta).token_session.unwrap())),
        // C16: the cluster flag can only be raised when a cluster token is configured and the request carries metadata
        // (that the compared value is the ClusterToken header passes through a closure `.map(|e| ..)`, opaque to Verus: assumed)
        (final(request_meta).cluster_token_is_valid && !old(request_meta).cluster_token_is_valid) ==>
            (self.app.sys_config.cluster_token@.len() > 0 && payload.metadata is Some),
        final(request_meta).connection_id == old(request_meta).connection_id,
@@ RequestServerImpl::fill_token_session entry
    broadcast use vstd::std_specs::hash::group_hash_axioms;
    broadcast use group_std_extra;
    proof { reveal_strlit("accessToken"); reveal_strlit("Authorization"); reveal_strlit("ClusterToken"); reveal_strlit(""); }
