@@ SeqRange::new spec
    requires start + len <= u64::MAX
    ensures r.wf(), r.lo() == start, r.hi() == start + len, r.is_empty() <==> len == 0
@@ SeqRange::renew spec
    requires start + len <= u64::MAX
    ensures final(self).wf(), final(self).lo() == start, final(self).hi() == start + len, final(self).is_empty() <==> len == 0
@@ SeqRange::next_id spec
    requires old(self).wf()
    ensures final(self).wf(), final(self).hi() == old(self).hi(),
        match r {
            Some(v) => !old(self).is_empty() && v == old(self).lo() && final(self).lo() == old(self).lo() + 1,
            None => old(self).is_empty() && *final(self) == *old(self),
        },
@@ SeqRange::has_next spec
    requires self.wf()
    ensures r == !self.is_empty(), r ==> self.lo() < self.hi(), !r ==> self.lo() == self.hi()
@@ SeqGroup::new spec
    ensures r.wf(), r.avail() =~= Set::<int>::empty(), r.top() == 0
@@ SeqGroup::do_next_id spec
    requires old(self).a().wf(), old(self).b().wf()
    ensures final(self).cur_is_a() == old(self).cur_is_a(), final(self).other() == old(self).other(),
        final(self).cur().wf(), final(self).cur().hi() == old(self).cur().hi(),
        match r {
            Some(v) => !old(self).cur().is_empty() && v == old(self).cur().lo() && final(self).cur().lo() == old(self).cur().lo() + 1,
            None => old(self).cur().is_empty() && final(self).cur() == old(self).cur(),
        },
@@ SeqGroup::switch_state spec
    ensures final(self).a() == old(self).a(), final(self).b() == old(self).b(), final(self).cur_is_a() == !old(self).cur_is_a()
@@ SeqGroup::next_id spec
    requires old(self).wf()
    // C19: the group always hands out its least available id, and removes exactly that id
    ensures final(self).wf(), final(self).top() == old(self).top(),
        match r {
            Some(v) => old(self).avail().contains(v as int)
                && (forall|x: int| old(self).avail().contains(x) ==> v <= x)
                && final(self).avail() =~= old(self).avail().remove(v as int),
            None => old(self).avail() =~= Set::<int>::empty() && final(self).avail() =~= old(self).avail(),
        },
@@ SeqGroup::apply_range spec
    requires old(self).wf(), start + len <= u64::MAX, len > 0,
    // C19: a range below what was already applied is DROPPED (its reply was overtaken): nothing changes; otherwise the new block is
    // added above everything applied so far, no id that is still in the buffer in use is lost, and the least-first order (wf) is kept —
    // for EVERY order in which range replies arrive and however many buffers are occupied (no assumption on the call sites)
    ensures final(self).wf(),
        start < old(self).top() ==> *final(self) == *old(self),
        start >= old(self).top() ==> ({
            &&& final(self).top() == start + len
            &&& forall|x: int| #[trigger] final(self).avail().contains(x) ==> old(self).avail().contains(x) || (start <= x < start + len)
            &&& forall|x: int| start <= x < start + len ==> #[trigger] final(self).avail().contains(x)
            &&& (old(self).a().is_empty() || old(self).b().is_empty()) ==> final(self).avail() =~= old(self).avail().union(ids(start as int, start + len))
        }),
@@ SeqGroup::mark_apply spec
    ensures final(self).a() == old(self).a(), final(self).b() == old(self).b(), final(self).cur_is_a() == old(self).cur_is_a()
@@ SeqGroup::clear_apply_mark spec
    ensures final(self).a() == old(self).a(), final(self).b() == old(self).b(), final(self).cur_is_a() == old(self).cur_is_a()
@@ SeqGroup::need_apply spec
    requires self.a().wf(), self.b().wf()
    ensures r ==> (self.a().is_empty() || self.b().is_empty())
@@ SimpleSequence::new spec
    requires batch_size > 0, last_id + batch_size + batch_size <= u64::MAX
    ensures r.wf(), r.last() == last_id, r.cache() == 0, r.batch() == batch_size
@@ SimpleSequence::set_last_id spec
    requires old(self).batch() > 0, last_id + old(self).batch() <= u64::MAX
    ensures final(self).wf(), final(self).last() == last_id, final(self).cache() == 0, final(self).batch() == old(self).batch()
@@ SimpleSequence::set_valid_last_id spec
    requires old(self).wf(), last_id + old(self).batch() <= u64::MAX
    // the high-water mark never decreases: replaying an older mark is a no-op
    ensures final(self).wf(), final(self).batch() == old(self).batch(),
        final(self).end() == (if old(self).end() >= last_id { old(self).end() } else { last_id as int }),
        final(self).last() >= old(self).last(),
@@ SimpleSequence::next_id spec
    requires old(self).wf(), old(self).room()
    ensures final(self).wf(), r == old(self).last() + 1, final(self).last() == r, final(self).batch() == old(self).batch(),
        final(self).end() >= old(self).end(), r <= final(self).end(),
@@ SimpleSequence::next_state spec
    requires old(self).wf(), old(self).room()
    // ids are consecutive; the replicated high-water mark is emitted exactly when the local cache is empty and equals the new end()
    ensures final(self).wf(), final(self).batch() == old(self).batch(),
        r is Ok,
        r.unwrap().0 == old(self).last() + 1, final(self).last() == r.unwrap().0, r.unwrap().0 <= final(self).end(),
        r.unwrap().1 is Some <==> old(self).cache() == 0,
        r.unwrap().1 is Some ==> r.unwrap().1.unwrap() == final(self).end() && final(self).end() == old(self).end() + old(self).batch(),
        r.unwrap().1 is None ==> final(self).end() == old(self).end(),
@@ SimpleSequence::next_section spec
    requires old(self).wf(), old(self).last() + batch_size + old(self).batch() <= u64::MAX
    ensures final(self).wf(), r is Ok, final(self).batch() == old(self).batch(),
        batch_size > 0 ==> (r.unwrap().0 == old(self).last() + 1 && r.unwrap().1 == old(self).last() + batch_size
            && final(self).last() == r.unwrap().1 && final(self).cache() == 0),
        batch_size == 0 ==> *final(self) == *old(self),
@@ SimpleSequence::get_end_id spec
    requires self.wf()
    ensures r == self.end()
@@ CacheSequence::new spec
    requires start_id + cache_size <= u64::MAX
    ensures r.wf(), r.avail() =~= ids(start_id as int, start_id + cache_size)
@@ CacheSequence::next_id spec
    requires old(self).wf()
    ensures final(self).wf(),
        match r {
            Some(v) => old(self).avail().contains(v as int) && (forall|x: int| old(self).avail().contains(x) ==> v <= x)
                && final(self).avail() =~= old(self).avail().remove(v as int),
            None => old(self).avail() =~= Set::<int>::empty() && *final(self) == *old(self),
        },
@@ SequenceDbManager::new spec
    ensures r.map() =~= Map::<Arc<String>, u64>::empty()
@@ SequenceDbManager::next_id spec
    requires old(self).next_free(key) < u64::MAX
    // the id handed out is the next free one; only this key's counter moves, by exactly one
    ensures r == old(self).next_free(key), final(self).map() =~= old(self).map().insert(key, (r + 1) as u64)
@@ SequenceDbManager::next_id entry
    broadcast use vstd::std_specs::hash::group_hash_axioms;
    broadcast use group_std_extra;
@@ SequenceDbManager::next_range spec
    requires old(self).next_free(key) + step <= u64::MAX
    // ranges handed out for one key are disjoint and increasing: [r, r+step) then next_free' = r+step
    ensures r is Ok, r.unwrap() == old(self).next_free(key), final(self).map() =~= old(self).map().insert(key, (r.unwrap() + step) as u64)
@@ SequenceDbManager::next_range entry
    broadcast use vstd::std_specs::hash::group_hash_axioms;
    broadcast use group_std_extra;
@@ SequenceManager::do_next_id spec
    requires forall|k: Arc<String>| #[trigger] old(self).seq_map@.contains_key(k) ==> old(self).seq_map@[k].wf()
    // C19 (manager level): the id handed to the caller IS the least id of that sequence's group and is removed from it; other sequences untouched
    ensures forall|k: Arc<String>| #[trigger] final(self).seq_map@.contains_key(k) ==> final(self).seq_map@[k].wf(),
        final(self).seq_step == old(self).seq_step,
        forall|k: Arc<String>| k != *key ==> (final(self).seq_map@.contains_key(k) == old(self).seq_map@.contains_key(k))
            && (old(self).seq_map@.contains_key(k) ==> #[trigger] final(self).seq_map@[k] == old(self).seq_map@[k]),
        final(self).seq_map@.contains_key(*key),
        old(self).seq_map@.contains_key(*key) ==> ({
            let g0 = old(self).seq_map@[*key];
            let g1 = final(self).seq_map@[*key];
            &&& g1.top() == g0.top()
            &&& match r.0 {
                Some(v) => g0.avail().contains(v as int) && (forall|x: int| g0.avail().contains(x) ==> v <= x) && g1.avail() =~= g0.avail().remove(v as int),
                None => g0.avail() =~= Set::<int>::empty() && g1.avail() =~= g0.avail(),
            }
        }),
        !old(self).seq_map@.contains_key(*key) ==> r.0 is None && final(self).seq_map@[*key].avail() =~= Set::<int>::empty() && final(self).seq_map@[*key].top() == 0,
@@ SequenceManager::do_next_id entry
    broadcast use vstd::std_specs::hash::group_hash_axioms;
    broadcast use axiom_seq_key_model;
    broadcast use group_std_extra;
@@ SequenceManager::handle_result spec
    requires forall|k: Arc<String>| #[trigger] old(self).seq_map@.contains_key(k) ==> old(self).seq_map@[k].wf(),
        match before_result {
            Ok(SequenceBeforeResult::UseFromRange { start, len, .. }) => start + len <= u64::MAX && len > 0,
            Ok(SequenceBeforeResult::FillRange { start, len, .. }) => start + len <= u64::MAX && len > 0,
            Ok(SequenceBeforeResult::DirectRange { start, len }) => start + len <= u64::MAX,
            _ => true,
        },
    ensures forall|k: Arc<String>| #[trigger] final(self).seq_map@.contains_key(k) ==> final(self).seq_map@[k].wf(),
        // C19: a request that fetched a range is answered with an id that is taken out of the group at that moment — the least one
        // available after the range was applied (or dropped as stale) — never with a number that stays available
        match before_result {
            Ok(SequenceBeforeResult::UseFromRange { key, start, len }) => match r {
                Ok(SequenceResult::NextId(id)) => final(self).seq_map@.contains_key(key)
                    && !final(self).seq_map@[key].avail().contains(id as int)
                    && forall|x: int| #[trigger] final(self).seq_map@[key].avail().contains(x) ==> id < x,
                Ok(SequenceResult::None) => true,
                _ => false,
            },
            Ok(SequenceBeforeResult::NextId(_, id, _)) => r == Ok::<SequenceResult, anyhow::Error>(SequenceResult::NextId(id)) && final(self).seq_map@ == old(self).seq_map@,
            _ => true,
        },
@@ SequenceManager::handle_result entry
    broadcast use vstd::std_specs::hash::group_hash_axioms;
    broadcast use axiom_seq_key_model;
    broadcast use group_std_extra;
