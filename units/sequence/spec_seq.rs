verus! {
impl SimpleSequence {
    pub closed spec fn last(&self) -> int { self.last_id as int }
    pub closed spec fn cache(&self) -> int { self.cache_size as int }
    pub closed spec fn batch(&self) -> int { self.batch_size as int }
    /// high-water mark: every id handed out so far is <= end()
    pub open spec fn end(&self) -> int { self.last() + self.cache() }
    pub open spec fn wf(&self) -> bool { self.batch() > 0 && self.end() <= u64::MAX }
    /// machine-integer room for one more batch (explicit overflow precondition)
    pub open spec fn room(&self) -> bool { self.end() + self.batch() <= u64::MAX }
}

} // verus!
