verus! {

pub open spec fn ids(lo: int, hi: int) -> Set<int> { vstd::set_lib::set_int_range(lo, hi) }

impl SeqRange {
    pub closed spec fn wf(&self) -> bool { self.current_index <= self.len && self.start + self.len <= u64::MAX }
    pub closed spec fn lo(&self) -> int { self.start + self.current_index }
    pub closed spec fn hi(&self) -> int { self.start + self.len }
    pub closed spec fn is_empty(&self) -> bool { self.current_index >= self.len }
    /// ids this range can still hand out
    pub open spec fn avail(&self) -> Set<int> { ids(self.lo(), self.hi()) }
}

impl SeqGroup {
    pub closed spec fn a(&self) -> SeqRange { self.range_a }
    pub closed spec fn b(&self) -> SeqRange { self.range_b }
    pub closed spec fn cur_is_a(&self) -> bool { self.use_a }
    pub open spec fn cur(&self) -> SeqRange { if self.cur_is_a() { self.a() } else { self.b() } }
    pub open spec fn other(&self) -> SeqRange { if self.cur_is_a() { self.b() } else { self.a() } }
    pub open spec fn wf(&self) -> bool {
        self.a().wf() && self.b().wf()
        // the buffer in use holds the smaller ids
        && (!self.a().is_empty() && !self.b().is_empty() ==> self.cur().hi() <= self.other().lo())
    }
    /// every id the group can still hand out
    pub open spec fn avail(&self) -> Set<int> { self.a().avail().union(self.b().avail()) }
    /// upper bound of everything ever put into the two buffers
    pub open spec fn top(&self) -> int { if self.a().hi() >= self.b().hi() { self.a().hi() } else { self.b().hi() } }
}

impl CacheSequence {
    pub closed spec fn avail(&self) -> Set<int> { ids(self.start_id as int, self.start_id + self.cache_size) }
    pub closed spec fn wf(&self) -> bool { self.start_id + self.cache_size <= u64::MAX }
}

impl SequenceDbManager {
    /// next free id per key (absent key: 1)
    pub closed spec fn next_free(&self, k: Arc<String>) -> int {
        if self.seq_map@.contains_key(k) { self.seq_map@[k] as int } else { 1 }
    }
    pub closed spec fn map(&self) -> Map<Arc<String>, u64> { self.seq_map@ }
}

// ---------------------------------------------------------------- history lemma (C19, SeqGroup)
// Abstract transition system defined by the postconditions of SeqGroup::{next_id, apply_range}.
pub struct GAbs { pub avail: Set<int>, pub top: int, pub last: int }

pub open spec fn g_inv(s: GAbs) -> bool {
    &&& forall|x: int| s.avail.contains(x) ==> s.last < x < s.top
    &&& s.last < s.top
}
pub open spec fn g_next(s: GAbs, t: GAbs, r: Option<int>) -> bool {
    match r {
        Some(v) => s.avail.contains(v) && (forall|x: int| s.avail.contains(x) ==> v <= x) && t.avail == s.avail.remove(v) && t.top == s.top && t.last == v,
        None => s.avail =~= Set::<int>::empty() && t == s,
    }
}
pub open spec fn g_apply(s: GAbs, t: GAbs, start: int, len: int) -> bool {
    len > 0 && t.last == s.last && (if start < s.top { t == s } else {
        t.top == start + len && (forall|x: int| #[trigger] t.avail.contains(x) ==> s.avail.contains(x) || (start <= x < start + len))
    })
}
/// ids never go backwards and are never issued twice: every id handed out is larger than the previous one
pub proof fn lemma_group_monotone(s: GAbs, t: GAbs, r: Option<int>)
    requires g_inv(s), g_next(s, t, r)
    ensures g_inv(t), r is Some ==> r.unwrap() > s.last
{
}
pub proof fn lemma_group_apply(s: GAbs, t: GAbs, start: int, len: int)
    requires g_inv(s), g_apply(s, t, start, len)
    ensures g_inv(t)
{
}

} // verus!
