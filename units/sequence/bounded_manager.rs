// Bounded stand-in (always run, labelled bounded, never counted as proved) for the MANAGER level of C19 on one node:
// SequenceManager's message flow (GetNextId -> local id | range request to Raft -> handle_result; FillRange refills) lives in
// actix handlers and future chains; the contracts of unit sequence assume of these call sites that a range is only applied
// while a buffer is free.  Here the real do_next_id / handle_result are driven with the real SequenceDbManager standing in for
// the Raft round trip: bursts of k = 1..4 requests that are all outstanding before the first reply is handled (at the start,
// and again every time the local buffers run dry), replies handled in request order, ordinary sequential use with the
// asynchronous refill in between — every id issued must be new and larger than every id issued before.
use super::*;
use crate::sequence::core::SequenceDbManager;

fn raft_next_range(db: &mut SequenceDbManager, key: &Arc<String>, step: u64) -> (u64, u64) { (db.next_range(key.clone(), step).unwrap(), step) }

/// one GetNextId with nothing else in flight, including the refill it may trigger (refill handled after `delay` further requests)
fn get_next_id(mgr: &mut SequenceManager, db: &mut SequenceDbManager, ctx: &mut Context<SequenceManager>, key: &Arc<String>, pending_fill: &mut Option<(u64, u64)>) -> Option<u64> {
    let step = mgr.seq_step;
    let (id, need_apply) = mgr.do_next_id(key);
    match id {
        Some(id) => {
            if need_apply {
                let group = mgr.seq_map.get_mut(key).unwrap();
                if group.need_apply() { group.mark_apply(); *pending_fill = Some(raft_next_range(db, key, step)); }
            }
            Some(id)
        }
        None => {
            let (start, len) = raft_next_range(db, key, step);
            match mgr.handle_result(Ok(SequenceBeforeResult::UseFromRange { key: key.clone(), start, len }), ctx).unwrap() { SequenceResult::NextId(id) => Some(id), _ => None }
        }
    }
}

#[test]
fn vx_bounded_sequence_manager() {
    let mut failures: Vec<String> = vec![];
    let mut runs = 0usize;
    for burst in 1..=4usize {
        for fill_delay in [0usize, 1, 7, 150] {
            for step in [3u64, 100] {
                let mut db = SequenceDbManager::new();
                let mut mgr = SequenceManager::new();
                mgr.seq_step = step;
                let mut ctx: Context<SequenceManager> = Context::new();
                let key = Arc::new("seq".to_string());
                let mut issued: Vec<u64> = vec![];
                let mut pending_fill: Option<(u64, u64)> = None;
                let mut since_fill = 0usize;
                let total = 6 * step as usize + 40;
                let mut guard = 0usize;
                while issued.len() < total && guard < 20 * total {
                    guard += 1;
                    // a refill reply that has been under way long enough arrives now
                    if pending_fill.is_some() { if since_fill >= fill_delay { let (start, len) = pending_fill.take().unwrap(); mgr.handle_result(Ok(SequenceBeforeResult::FillRange { key: key.clone(), start, len }), &mut ctx).unwrap(); since_fill = 0; } else { since_fill += 1; } }
                    let (id, need_apply) = mgr.do_next_id(&key);
                    match id {
                        Some(id) => {
                            issued.push(id);
                            if need_apply {
                                let group = mgr.seq_map.get_mut(&key).unwrap();
                                if group.need_apply() { group.mark_apply(); pending_fill = Some(raft_next_range(&mut db, &key, step)); since_fill = 0; }
                            }
                        }
                        None => {
                            // the buffers are dry: `burst` requests pile up, each asks Raft for a range; the replies are handled in order
                            let mut replies = vec![raft_next_range(&mut db, &key, step)];
                            for _ in 1..burst { let (more, _) = mgr.do_next_id(&key); if more.is_none() { replies.push(raft_next_range(&mut db, &key, step)); } else { issued.push(more.unwrap()); } }
                            for (start, len) in replies {
                                match mgr.handle_result(Ok(SequenceBeforeResult::UseFromRange { key: key.clone(), start, len }), &mut ctx) {
                                    Ok(SequenceResult::NextId(id)) => issued.push(id),
                                    Ok(_) => failures.push(format!("VX-BOUNDED-FAIL SEQUENCE no id for a request that fetched the range [{}, {}) (burst {}, refill delay {}, step {})", start, start + len, burst, fill_delay, step)),
                                    Err(e) => failures.push(format!("VX-BOUNDED-FAIL SEQUENCE error {} (burst {}, refill delay {}, step {})", e, burst, fill_delay, step)),
                                }
                            }
                        }
                    }
                }
                let _ = get_next_id;
                runs += 1;
                if issued.len() < total { failures.push(format!("VX-BOUNDED-FAIL SEQUENCE only {} ids issued (burst {}, refill delay {}, step {})", issued.len(), burst, fill_delay, step)); }
                for w in 1..issued.len() {
                    if issued[w] <= issued[w - 1] {
                        failures.push(format!("VX-BOUNDED-FAIL SEQUENCE id {} issued after id {} (burst {}, refill delay {}, step {}); ids so far: {:?}", issued[w], issued[w - 1], burst, fill_delay, step, &issued[..(w + 1).min(12)]));
                        break;
                    }
                }
            }
        }
    }
    assert!(runs >= 32);
    failures.dedup();
    assert!(failures.is_empty(), "{} failing run(s), first ones:\n{}", failures.len(), failures.iter().take(6).cloned().collect::<Vec<_>>().join("\n"));
}
