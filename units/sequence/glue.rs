verus! {
pub struct RaftRequestRoute {}

/// actix::Addr / Context: sending a message to oneself has no specified effect here (the refill request is handled as its own message)
#[verifier::external_body]
#[verifier::reject_recursive_types(A)]
pub struct Addr<A> { inner: core::marker::PhantomData<A> }
impl<A> Addr<A> {
    #[verifier::external_body]
    pub fn do_send<M>(&self, msg: M) { unimplemented!() }
}
#[verifier::external_body]
#[verifier::reject_recursive_types(A)]
pub struct Context<A> { inner: core::marker::PhantomData<A> }
impl<A> Context<A> {
    #[verifier::external_body]
    pub fn address(&self) -> Addr<A> { unimplemented!() }
}

/// A-KEY for the sequence names
pub broadcast axiom fn axiom_seq_key_model()
    ensures #[trigger] vstd::std_specs::hash::obeys_key_model::<Arc<String>>();
} // verus!
