// Bounded stand-in (always run, labelled bounded, never counted as proved) for the long-poll bookkeeping of C10 over SEQUENCES
// of operations, including ConfigListener::timeout (chrono clock, `iter().take(10000)` — outside Verus): the per-operation
// contracts of add / notify in unit config say nothing about the expiry timer and its interplay with notification.
// Every sequence of up to 5 operations out of 9 on the REAL ConfigListener — register a long-poll on {A}, {B} or {A, B} with a
// deadline in the past or far in the future, run the expiry timer, change key A, change key B — compared after every step
// with the statement: a waiting long-poll is answered exactly once; with the changed key as soon as a key it listens to
// changes; with the empty answer when its own deadline has passed and the timer runs; never dropped unanswered.
use super::*;

#[derive(Clone, Copy, Debug)]
enum Op { Add(u8, bool), Timeout, Notify(u8) }

#[derive(Clone, Debug, PartialEq)]
enum St { Pending, Null, Data(u8) }

fn key(i: u8) -> ConfigKey { ConfigKey::new(if i == 0 { "A" } else { "B" }, "g", "") }

#[test]
fn vx_bounded_config_long_poll() {
    let ops = [Op::Add(1, false), Op::Add(2, false), Op::Add(3, false), Op::Add(1, true), Op::Add(2, true), Op::Add(3, true), Op::Timeout, Op::Notify(0), Op::Notify(1)];
    let n = ops.len();
    let mut failures: Vec<String> = vec![];
    let mut steps = 0u64;
    let now = chrono::Local::now().timestamp_millis();
    'outer: for len in 1..=5usize {
        for code in 0..n.pow(len as u32) {
            let mut c = code;
            let seq: Vec<Op> = (0..len).map(|_| { let o = ops[c % n]; c /= n; o }).collect();
            let mut l = ConfigListener::new();
            // model: (keys bitmask, deadline passed?, state) + the receiving end of the real registration
            let mut model: Vec<(u8, bool, St)> = vec![];
            let mut rxs = vec![];
            for (j, op) in seq.iter().enumerate() {
                match *op {
                    Op::Add(mask, past) => {
                        let mut items = vec![];
                        if mask & 1 != 0 { items.push(ListenerItem::new(key(0), Arc::new("m".to_string()))); }
                        if mask & 2 != 0 { items.push(ListenerItem::new(key(1), Arc::new("m".to_string()))); }
                        let (tx, rx) = tokio::sync::oneshot::channel();
                        // distinct deadlines: earlier registrations may have LATER deadlines
                        let deadline = if past { now - 10_000 - j as i64 } else { now + 3_600_000 - j as i64 };
                        l.add(items, tx, deadline);
                        model.push((mask, past, St::Pending));
                        rxs.push(rx);
                    }
                    Op::Timeout => { l.timeout(); for m in model.iter_mut() { if m.2 == St::Pending && m.1 { m.2 = St::Null; } } }
                    Op::Notify(k) => { l.notify(key(k)); for m in model.iter_mut() { if m.2 == St::Pending && m.0 & (1 << k) != 0 { m.2 = St::Data(k); } } }
                }
                steps += 1;
                for (i, rx) in rxs.iter_mut().enumerate() {
                    let want = &model[i].2;
                    if *want == St::Pending {
                        match rx.try_recv() {
                            Err(tokio::sync::oneshot::error::TryRecvError::Empty) => {}
                            Err(tokio::sync::oneshot::error::TryRecvError::Closed) => { failures.push(format!("VX-BOUNDED-FAIL LONGPOLL registration #{} (keys {:#b}, deadline passed: {}) was dropped without an answer after {:?}", i + 1, model[i].0, model[i].1, &seq[..=j])); }
                            Ok(r) => { failures.push(format!("VX-BOUNDED-FAIL LONGPOLL registration #{} still has to wait but was answered {} after {:?}", i + 1, match r { ListenerResult::NULL => "NULL".to_string(), ListenerResult::DATA(k) => format!("DATA{:?}", k) }, &seq[..=j])); }
                        }
                    } else if let Ok(r) = rx.try_recv() {
                        let got = match r { ListenerResult::NULL => St::Null, ListenerResult::DATA(ks) => if ks.len() == 1 && ks[0] == key(0) { St::Data(0) } else if ks.len() == 1 && ks[0] == key(1) { St::Data(1) } else { St::Pending } };
                        if got != *want { failures.push(format!("VX-BOUNDED-FAIL LONGPOLL registration #{} answered {:?}, the statement says {:?}, after {:?}", i + 1, got, want, &seq[..=j])); }
                        model[i].2 = St::Null; model[i].1 = false; model[i].0 = 0;   // answered and consumed: nothing more may arrive
                        model[i].2 = St::Pending;                                     // (a consumed oneshot reports Closed from now on: tolerated below)
                        model[i] = (0, false, St::Pending);
                        *rx = { let (_tx, rx2) = tokio::sync::oneshot::channel::<ListenerResult>(); std::mem::forget(_tx); rx2 };
                    } else {
                        failures.push(format!("VX-BOUNDED-FAIL LONGPOLL registration #{} must have been answered {:?} but nothing arrived after {:?}", i + 1, want, &seq[..=j]));
                    }
                }
                if failures.len() > 6 { break 'outer; }
            }
        }
    }
    assert!(steps > 200_000 || !failures.is_empty(), "only {} steps", steps);
    assert!(failures.is_empty(), "{} failing schedule(s), first ones:\n{}", failures.len(), failures.iter().take(5).cloned().collect::<Vec<_>>().join("\n"));
}
