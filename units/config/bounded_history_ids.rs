// Bounded stand-in (always run, labelled bounded, never counted as proved) for the configuration-history half of C19 over
// HISTORIES with restarts: the per-function contracts of this unit (SimpleSequence, ConfigActor::set_config adopting the
// replicated high-water mark) are proofs; this enumeration decides over publish sequences + log replay when a rewrite takes
// set_config's text out of the proof's reach.
// The leader draws (history id, new high-water mark at the start of a batch) from its sequence, writes them into the log entry
// and applies it (ConfigAsyncCmd::Add); a restarted node (or a follower that takes over) has nothing but the LOG: it applies the
// same entries to a fresh ConfigActor and then draws ids itself.  Batch size 3 (instead of 100) so that batch boundaries fall
// inside short histories; every sequence of up to 5 publishes out of 4 (two keys x two contents: identical re-publishes included),
// a restart + replay after every prefix, three more publishes afterwards.  Every id drawn in either life must be above every id
// drawn before it; the ids stamped on the history entries of a key must be strictly increasing.
use super::*;
use crate::config::dal::ConfigHistoryParam;
use crate::config::model::SetConfigParam;

struct Entry { key: ConfigKey, value: Arc<String>, history_id: u64, history_table_id: Option<u64> }

fn apply(node: &mut ConfigActor, e: &Entry) {
    let param = SetConfigParam { key: e.key.clone(), value: e.value.clone(), config_type: None, desc: None, history_id: e.history_id,
        history_table_id: e.history_table_id, op_time: 0, op_user: None };
    node.set_config(param).ok();
}
fn publish(leader: &mut ConfigActor, log: &mut Vec<Entry>, drawn: &mut Vec<u64>, key: &ConfigKey, value: &str) {
    let (history_id, history_table_id) = leader.sequence.next_state().unwrap();
    drawn.push(history_id);
    let e = Entry { key: key.clone(), value: Arc::new(value.to_owned()), history_id, history_table_id };
    apply(leader, &e);
    log.push(e);
}
fn history_ids(node: &ConfigActor, key: &ConfigKey) -> Vec<i64> {
    let param = ConfigHistoryParam { id: None, data_id: Some(key.data_id.as_ref().to_owned()), group: Some(key.group.as_ref().to_owned()),
        tenant: Some(key.tenant.as_ref().to_owned()), order_by: None, order_by_desc: None, limit: Some(1000), offset: Some(0) };
    let (_, list) = node.get_history_info_page(&param);
    let mut ids: Vec<i64> = list.iter().map(|e| e.id.unwrap()).collect();
    ids.reverse();
    ids
}
fn fresh() -> ConfigActor { let mut a = ConfigActor::new(); a.sequence = SimpleSequence::new(0, 3); a }

#[test]
fn vx_bounded_c19_history_ids() {
    let keys = [ConfigKey::new("app.properties", "DEFAULT_GROUP", ""), ConfigKey::new("db.properties", "DEFAULT_GROUP", "")];
    let contents = ["v=1", "v=2"];
    let mut failures: Vec<String> = vec![];
    let mut runs = 0u64;
    'outer: for len in 1..=5usize {
        for code in 0..4usize.pow(len as u32) {
            let mut c = code;
            let seq: Vec<(usize, usize)> = (0..len).map(|_| { let o = c % 4; c /= 4; (o / 2, o % 2) }).collect();
            for restart_after in 1..=len {
                let mut log: Vec<Entry> = vec![];
                let mut drawn: Vec<u64> = vec![];
                let mut node = fresh();
                for (k, ci) in seq.iter().take(restart_after) { publish(&mut node, &mut log, &mut drawn, &keys[*k], contents[*ci]); }
                // restart / take-over: a fresh actor that has only the log
                let mut node2 = fresh();
                for e in log.iter() { apply(&mut node2, e); }
                for (k, ci) in seq.iter().skip(restart_after) { publish(&mut node2, &mut log, &mut drawn, &keys[*k], contents[*ci]); }
                for (j, v) in ["w=1", "w=2", "w=3"].iter().enumerate() { publish(&mut node2, &mut log, &mut drawn, &keys[j % 2], v); }
                runs += 1;
                if let Some(w) = drawn.windows(2).find(|w| w[0] >= w[1]) {
                    failures.push(format!("VX-BOUNDED-FAIL HISTORY-ID id {} is drawn after id {} (ids drawn in order: {:?}) — publishes {:?}, restart + replay after {}", w[1], w[0], drawn, seq, restart_after));
                }
                for key in keys.iter() {
                    let ids = history_ids(&node2, key);
                    if ids.windows(2).any(|w| w[0] >= w[1]) {
                        failures.push(format!("VX-BOUNDED-FAIL HISTORY-ID the history of {} carries the ids {:?} — publishes {:?}, restart + replay after {}", key.data_id, ids, seq, restart_after));
                    }
                }
                if failures.len() > 6 { break 'outer; }
            }
        }
    }
    assert!(runs > 5000 || !failures.is_empty(), "only {} runs", runs);
    assert!(failures.is_empty(), "{} failing histor(ies), first ones:\n{}", failures.len(), failures.iter().take(6).cloned().collect::<Vec<_>>().join("\n"));
}
