// Bounded stand-in (always run, labelled bounded, never counted as proved) for the config QUERY side of C09 that is outside
// Verus (iterator adapters): ConfigActor::{get_history_info_page, get_config_info_page, get_config_info_by_keys}.
// A store with 4 keys in 2 tenants whose histories have 0..7 content-changing publishes (plus repeated identical publishes and
// one removed key); every (offset, limit) window of the history of every key; every page of the listing for page sizes
// 1..4 with and without content — compared with the statement (newest first, one entry per content-changing publish, windows
// tile the history; every stored configuration exactly once with the md5 of its content; removed ones never).
use super::*;

fn publish(actor: &mut ConfigActor, key: &ConfigKey, content: &str, history_id: u64) {
    let param = SetConfigParam { key: key.clone(), value: Arc::new(content.to_owned()), config_type: None, desc: Some(Arc::new(format!("desc of {}", key.data_id))),
        history_id, history_table_id: None, op_time: 1_700_000_000_000 + history_id as i64, op_user: None };
    actor.set_config(param).unwrap();
}

fn history(actor: &ConfigActor, key: &ConfigKey, offset: i64, limit: Option<i64>) -> (usize, Vec<String>) {
    let param = ConfigHistoryParam { tenant: Some(key.tenant.to_string()), group: Some(key.group.to_string()), data_id: Some(key.data_id.to_string()),
        order_by: Some("last_time".to_owned()), order_by_desc: Some(true), limit, offset: Some(offset), ..Default::default() };
    let (total, list) = actor.get_history_info_page(&param);
    (total, list.into_iter().map(|e| e.content.unwrap_or_default()).collect())
}

#[test]
fn vx_bounded_config_queries() {
    let mut failures: Vec<String> = vec![];
    let mut checked = 0u64;
    for n in 0..=7u64 {
        let mut actor = ConfigActor::new();
        let keys = [ConfigKey::new("a.yaml", "g1", ""), ConfigKey::new("b.yaml", "g1", ""), ConfigKey::new("a.yaml", "g2", "t2"), ConfigKey::new("gone.yaml", "g1", "")];
        let mut hid = 0u64;
        let mut model: Vec<Vec<String>> = vec![vec![]; keys.len()];     // content-changing publishes, oldest first
        for (ki, key) in keys.iter().enumerate() {
            let count = if ki == 0 { n } else { (n + ki as u64) % 4 + 1 };
            for i in 1..=count {
                hid += 1;
                let content = format!("{}-v{}", key.data_id, i);
                publish(&mut actor, key, &content, hid);
                model[ki].push(content.clone());
                if i % 2 == 0 { hid += 1; publish(&mut actor, key, &content, hid); }    // identical content again: no new history entry
            }
        }
        actor.del_config(keys[3].clone()).unwrap();
        // ---- history windows
        for (ki, key) in keys.iter().enumerate().take(3) {
            let newest_first: Vec<String> = model[ki].iter().rev().cloned().collect();
            let total = newest_first.len();
            for offset in 0..=(total + 2) {
                for limit in 1..=(total + 2) {
                    let (t, got) = history(&actor, key, offset as i64, Some(limit as i64));
                    let want: Vec<String> = newest_first.iter().skip(offset).take(limit).cloned().collect();
                    checked += 1;
                    if t != total || got != want {
                        failures.push(format!("VX-BOUNDED-FAIL HISTORY key {:?} with {} publishes, offset {} limit {}: total {} page {:?}, the statement says total {} page {:?}", key, total, offset, limit, t, got, total, want));
                    }
                }
                let (t, got) = history(&actor, key, offset as i64, None);
                let want: Vec<String> = newest_first.iter().skip(offset).cloned().collect();
                if t != total || got != want { failures.push(format!("VX-BOUNDED-FAIL HISTORY key {:?} offset {} no limit: {:?} instead of {:?}", key, offset, got, want)); }
            }
        }
        let (t, got) = history(&actor, &keys[3], 0, Some(10));
        if t != 0 || !got.is_empty() { failures.push(format!("VX-BOUNDED-FAIL HISTORY a removed key still has history: total {} {:?}", t, got)); }
        // ---- listing with the stored values
        let stored: Vec<usize> = (0..3).filter(|ki| !model[*ki].is_empty()).collect();
        for with_content in [false, true] {
            for page_size in 1..=4usize {
                let mut seen: Vec<(String, String, String)> = vec![];
                let mut page_no = 0usize;
                loop {
                    let q = ConfigQueryParam { tenant: None, limit: page_size, offset: page_no * page_size, query_context: with_content, ..ConfigQueryParam::default() };
                    let (total, list) = actor.get_config_info_page(&q);
                    checked += 1;
                    if total != stored.len() { failures.push(format!("VX-BOUNDED-FAIL LISTING total {} but {} configurations are stored", total, stored.len())); break; }
                    if list.is_empty() { break; }
                    for info in list.iter() {
                        let ki = keys.iter().position(|k| k.data_id == info.data_id && k.group == info.group && k.tenant == info.tenant);
                        match ki {
                            Some(ki) if ki < 3 && !model[ki].is_empty() => {
                                let content = model[ki].last().unwrap();
                                if with_content && (info.content.as_deref().map(|s| s.as_str()) != Some(content.as_str()) || info.md5.as_deref().map(|s| s.as_str()) != Some(get_md5(content).as_str())) {
                                    failures.push(format!("VX-BOUNDED-FAIL LISTING {:?}/{:?} listed with content {:?} md5 {:?}, stored content {:?}", info.group, info.data_id, info.content, info.md5, content));
                                }
                                if !with_content && (info.content.is_some() || info.md5.is_some()) { failures.push("VX-BOUNDED-FAIL LISTING content returned although not asked for".to_string()); }
                            }
                            _ => failures.push(format!("VX-BOUNDED-FAIL LISTING lists {:?}/{:?}/{:?}, which is not stored", info.tenant, info.group, info.data_id)),
                        }
                        seen.push((info.tenant.to_string(), info.group.to_string(), info.data_id.to_string()));
                    }
                    page_no += 1;
                    if page_no > 10 { break; }
                }
                let mut s2 = seen.clone(); s2.sort(); s2.dedup();
                if failures.is_empty() && (seen.len() != stored.len() || s2.len() != seen.len()) { failures.push(format!("VX-BOUNDED-FAIL LISTING pages of size {} list {:?}: not every stored configuration exactly once ({} stored)", page_size, seen, stored.len())); }
            }
        }
        // ---- lookup by keys
        let (cnt, infos) = actor.get_config_info_by_keys(&keys);
        if cnt != stored.len() || infos.len() != stored.len() { failures.push(format!("VX-BOUNDED-FAIL BYKEYS {} answers for {} stored keys", infos.len(), stored.len())); }
        for info in infos.iter() {
            let ki = keys.iter().position(|k| k.data_id == info.data_id && k.group == info.group && k.tenant == info.tenant).unwrap();
            if ki == 3 || model[ki].is_empty() || info.content.as_deref().map(|s| s.as_str()) != Some(model[ki].last().unwrap().as_str()) { failures.push(format!("VX-BOUNDED-FAIL BYKEYS wrong answer for {:?}", keys[ki])); }
        }
        if failures.len() > 8 { break; }
    }
    failures.dedup();
    assert!(checked > 800 || !failures.is_empty(), "only {} queries", checked);
    assert!(failures.is_empty(), "{} failing quer(ies), first ones:\n{}", failures.len(), failures.iter().take(6).cloned().collect::<Vec<_>>().join("\n"));
}
