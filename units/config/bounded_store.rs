// Bounded stand-in (always run, labelled bounded, never counted as proved) for the WRITE side of C09 as a whole: the functions
// themselves (ConfigValue::update_value, ConfigActor::{set_config, set_tmp_config, del_config}) are under contract in this unit;
// this enumeration decides the statement over operation SEQUENCES when a rewrite of those functions (a new helper, a reshaped
// body) takes their text out of the proof's reach.
// Every sequence of up to 5 operations out of 12 on two keys — publish content x / y (the apply path), remove, a routed value
// recorded provisionally ahead of its log entry (SetTmpValue, different from the stored content), a full value that arrives as a
// snapshot record / import (SetFullValue) — on the REAL ConfigActor;
// after every step: the content and md5 read back, the history (one entry per publish that changed the content, newest first),
// the listing.  One long run checks the bound of 100 history entries.
use super::*;

fn publish(actor: &mut ConfigActor, key: &ConfigKey, content: &str, history_id: u64) {
    let param = SetConfigParam { key: key.clone(), value: Arc::new(content.to_owned()), config_type: None, desc: None,
        history_id, history_table_id: None, op_time: 1_700_000_000_000 + history_id as i64, op_user: None };
    actor.set_config(param).unwrap();
}

fn history(actor: &ConfigActor, key: &ConfigKey) -> (usize, Vec<String>) {
    let param = ConfigHistoryParam { tenant: Some(key.tenant.to_string()), group: Some(key.group.to_string()), data_id: Some(key.data_id.to_string()),
        order_by: Some("last_time".to_owned()), order_by_desc: Some(true), limit: Some(1000), offset: Some(0), ..Default::default() };
    let (total, list) = actor.get_history_info_page(&param);
    (total, list.into_iter().map(|e| e.content.unwrap_or_default()).collect())
}

#[derive(Clone, Default)]
struct KeyModel { content: Option<String>, published: bool, provisional: bool, history: Vec<String> }   // history: oldest first

#[derive(Clone, Copy, Debug)]
enum Op { Pub(usize, usize), Del(usize), Tmp(usize, usize), Full(usize, usize) }

fn check(actor: &ConfigActor, keys: &[ConfigKey], model: &[KeyModel], trace: &[Op]) -> Result<(), String> {
    for (ki, key) in keys.iter().enumerate() {
        let m = &model[ki];
        // content + md5 as the GET arm reads them
        match (actor.cache.get(key), &m.content) {
            (None, None) => {}
            (Some(v), Some(c)) => {
                if v.content.as_str() != c.as_str() { return Err(format!("CONTENT key {} holds {:?}, the last write was {:?}", ki, v.content, c)); }
                if v.md5.as_str() != get_md5(c).as_str() { return Err(format!("MD5 key {} has md5 {:?}, the md5 of its content {:?} is {:?}", ki, v.md5, c, get_md5(c))); }
            }
            (None, Some(c)) => return Err(format!("CONTENT key {} is not found, the last write was {:?}", ki, c)),
            (Some(v), None) => return Err(format!("CONTENT key {} was removed but reads {:?}", ki, v.content)),
        }
        let (total, got) = history(actor, key);
        let want: Vec<String> = m.history.iter().rev().cloned().collect();
        if total != want.len() || got != want { return Err(format!("HISTORY key {} has history {:?} (total {}), the content-changing publishes were (newest first) {:?}", ki, got, total, want)); }
    }
    // listing: every published key exactly once (a provisional-only key is not a stored configuration)
    let q = ConfigQueryParam { tenant: None, limit: 100, offset: 0, query_context: true, ..ConfigQueryParam::default() };
    let (total, list) = actor.get_config_info_page(&q);
    let want: Vec<usize> = (0..keys.len()).filter(|ki| model[*ki].published).collect();
    let mut got: Vec<usize> = vec![];
    for info in list.iter() {
        match keys.iter().position(|k| k.data_id == info.data_id && k.group == info.group && k.tenant == info.tenant) {
            Some(ki) => {
                got.push(ki);
                if model[ki].published && info.content.as_deref().map(|s| s.as_str()) != model[ki].content.as_deref() { return Err(format!("LISTING key {} listed with content {:?}, stored {:?}", ki, info.content, model[ki].content)); }
            }
            None => return Err(format!("LISTING lists {:?}, which was never written", info.data_id)),
        }
    }
    got.sort();
    let got_pub: Vec<usize> = got.iter().cloned().filter(|ki| model[*ki].published).collect();
    if got_pub != want || total < want.len() || total > got.len().max(want.len()) { return Err(format!("LISTING lists keys {:?} (total {}), stored are {:?}", got, total, want)); }
    let _ = trace;
    Ok(())
}

#[test]
fn vx_bounded_config_store() {
    let keys = [ConfigKey::new("a.yaml", "g1", ""), ConfigKey::new("b.yaml", "g1", "t2")];
    let contents = ["x: 1", "y: 22"];
    let mut ops = vec![];
    for k in 0..2 { for c in 0..2 { ops.push(Op::Pub(k, c)); } }
    for k in 0..2 { ops.push(Op::Del(k)); }
    for k in 0..2 { for c in 0..2 { ops.push(Op::Tmp(k, c)); } }
    // a FULL value of the key arrives (snapshot record / data import: ConfigCmd::SetFullValue -> inner_set_config): it replaces
    // whatever the node holds for the key, provisional values included, and the key is a stored configuration from then on
    for k in 0..2 { ops.push(Op::Full(k, k)); }
    let n = ops.len();
    let mut failures: Vec<String> = vec![];
    let mut steps = 0u64;
    let mut idx = vec![0usize; 5];
    'outer: for len in 1..=5usize {
        for code in 0..n.pow(len as u32) {
            let mut c = code;
            for j in 0..len { idx[j] = c % n; c /= n; }
            let mut actor = ConfigActor::new();
            let mut model = vec![KeyModel::default(), KeyModel::default()];
            let mut trace = vec![];
            let mut hid = 0u64;
            for j in 0..len {
                let op = ops[idx[j]];
                match op {
                    Op::Pub(k, ci) => {
                        hid += 1;
                        publish(&mut actor, &keys[k], contents[ci], hid);
                        let m = &mut model[k];
                        let changed = m.provisional || !m.published || m.content.as_deref() != Some(contents[ci]);
                        if changed { m.history.push(contents[ci].to_string()); if m.history.len() > 100 { m.history.remove(0); } }
                        m.content = Some(contents[ci].to_string()); m.published = true; m.provisional = false;
                    }
                    Op::Del(k) => { actor.del_config(keys[k].clone()).unwrap(); model[k] = KeyModel::default(); }
                    Op::Full(k, ci) => {
                        hid += 1;
                        actor.inner_set_config(keys[k].clone(), ConfigValue::init(Arc::new(contents[ci].to_string()), hid, 1_700_000_000_000 + hid as i64, None, None));
                        let m = &mut model[k];
                        m.content = Some(contents[ci].to_string()); m.published = true; m.provisional = false; m.history = vec![contents[ci].to_string()];
                    }
                    Op::Tmp(k, ci) => {
                        // a routed publish of DIFFERENT content, seen before its log entry (identical content is not routed as a change)
                        if model[k].content.as_deref() == Some(contents[ci]) { continue; }
                        actor.set_tmp_config(keys[k].clone(), Arc::new(contents[ci].to_string()));
                        let m = &mut model[k];
                        m.content = Some(contents[ci].to_string()); m.provisional = true;
                    }
                }
                trace.push(op);
                steps += 1;
                if let Err(e) = check(&actor, &keys, &model, &trace) { failures.push(format!("VX-BOUNDED-FAIL {} — after {:?}", e, trace)); break; }
            }
            if failures.len() > 8 { break 'outer; }
        }
    }
    // the bound: 105 content-changing publishes leave the newest 100, newest first
    {
        let mut actor = ConfigActor::new();
        let mut want: Vec<String> = vec![];
        for i in 1..=105u64 { let c = format!("v{}", i); publish(&mut actor, &keys[0], &c, i); want.push(c); if i % 7 == 0 { publish(&mut actor, &keys[0], &format!("v{}", i), 1000 + i); } }
        let want: Vec<String> = want.iter().rev().take(100).cloned().collect();
        let (total, got) = history(&actor, &keys[0]);
        if total != 100 || got != want { failures.push(format!("VX-BOUNDED-FAIL HISTORY-BOUND after 105 content-changing publishes the history has {} entries starting {:?}, the statement says the newest 100 starting {:?}", total, &got[..got.len().min(3)], &want[..3])); }
    }
    assert!(steps > 600_000 || !failures.is_empty(), "only {} steps", steps);
    assert!(failures.is_empty(), "{} failing sequence(s), first ones:\n{}", failures.len(), failures.iter().take(6).cloned().collect::<Vec<_>>().join("\n"));
}
