verus! {

impl ConfigValue {
    /// C09: the md5 served with a content is the md5 of that content; history bounded to the last 100
    pub open spec fn wf(&self) -> bool {
        self.md5@ == md5_spec(self.content@) && self.histories@.len() <= 100
    }
}

/// history after one more publish: newest last, oldest dropped beyond 100
pub open spec fn hist_push(h: Seq<HistoryItem>, item: HistoryItem) -> Seq<HistoryItem> {
    (if h.len() >= 100 { h.skip(1) } else { h }).push(item)
}

/// registrations recorded under a key (a function of the map only, so that it survives updates of other fields)
pub open spec fn waiting(l: Map<ConfigKey, Vec<u64>>, k: ConfigKey) -> Seq<u64> {
    if l.contains_key(k) { l[k]@ } else { Seq::empty() }
}

impl ConfigListener {
    /// long-polls not yet answered
    pub open spec fn pending(&self) -> Set<u64> { self.sender_map@.dom() }
    /// registrations recorded under a key
    pub open spec fn waiting_on(&self, k: ConfigKey) -> Seq<u64> { waiting(self.listener@, k) }
}

/// C10: the md5 a listener holds for a key differs from the current one (an absent key counts as md5 "")
pub open spec fn stale(cache: Map<ConfigKey, ConfigValue>, item: ListenerItem) -> bool {
    if cache.contains_key(item.key) { cache[item.key].md5@ != item.md5@ } else { item.md5@.len() > 0 }
}

impl ConfigActor {
    pub open spec fn wf(&self) -> bool {
        &&& forall|k: ConfigKey| #[trigger] self.cache@.contains_key(k) ==> self.cache@[k].wf()
        // C09: listings only name stored keys, and every published (non-tmp-only) key is listed
        &&& forall|k: ConfigKey| #[trigger] self.tenant_index@.contains(k) ==> self.cache@.contains_key(k)
        &&& forall|k: ConfigKey| #[trigger] self.cache@.contains_key(k) && self.cache@[k].histories@.len() > 0 ==> self.tenant_index@.contains(k)
        &&& self.sequence.wf()
    }
}

// ------------------------------------------------------------------ C10: completeness of long-poll notification (spec level)
/// abstract listener state: `keys_of(v)` = keys registration v was made for (ghost; exists only here)
pub struct LAbs { pub pending: Set<u64>, pub waiting: Map<ConfigKey, Set<u64>>, pub keys_of: Map<u64, Set<ConfigKey>> }

/// every pending long-poll is recorded under each key it listens to
pub open spec fn l_inv(s: LAbs) -> bool {
    forall|v: u64, k: ConfigKey| #[trigger] s.pending.contains(v) && s.keys_of.contains_key(v) && #[trigger] s.keys_of[v].contains(k)
        ==> s.waiting.contains_key(k) && s.waiting[k].contains(v)
}
/// ConfigListener::add as a transition (postcondition of `add`)
pub open spec fn l_add(s: LAbs, t: LAbs, v: u64, keys: Set<ConfigKey>) -> bool {
    &&& !s.pending.contains(v) && !s.keys_of.contains_key(v)
    &&& t.pending == s.pending.insert(v)
    &&& t.keys_of == s.keys_of.insert(v, keys)
    &&& forall|k: ConfigKey| #[trigger] keys.contains(k) ==> t.waiting.contains_key(k) && t.waiting[k].contains(v)
    &&& forall|k: ConfigKey, w: u64| s.waiting.contains_key(k) && #[trigger] s.waiting[k].contains(w) ==> t.waiting.contains_key(k) && t.waiting[k].contains(w)
}
/// ConfigListener::notify(k) as a transition (postcondition of `notify`)
pub open spec fn l_notify(s: LAbs, t: LAbs, k: ConfigKey) -> bool {
    &&& t.keys_of == s.keys_of
    &&& t.waiting == s.waiting.remove(k)
    &&& forall|v: u64| #[trigger] t.pending.contains(v) <==> (s.pending.contains(v) && !(s.waiting.contains_key(k) && s.waiting[k].contains(v)))
}
pub proof fn lemma_listener_add(s: LAbs, t: LAbs, v: u64, keys: Set<ConfigKey>)
    requires l_inv(s), l_add(s, t, v, keys)
    ensures l_inv(t)
{
    assert forall|w: u64, k: ConfigKey| #[trigger] t.pending.contains(w) && t.keys_of.contains_key(w) && #[trigger] t.keys_of[w].contains(k)
        implies t.waiting.contains_key(k) && t.waiting[k].contains(w) by {
        if w != v {
            assert(s.pending.contains(w));
            assert(s.keys_of.contains_key(w));
            assert(s.keys_of[w].contains(k));
            assert(s.waiting.contains_key(k) && s.waiting[k].contains(w));
            assert(t.waiting.contains_key(k) && t.waiting[k].contains(w));
        } else {
            assert(t.keys_of[v] == keys);
            assert(keys.contains(k));
            assert(t.waiting.contains_key(k) && t.waiting[k].contains(v));
        }
    }
}
/// after a change of key k has been notified, no pending long-poll listens to k: the change cannot go unreported
pub proof fn lemma_listener_notify_complete(s: LAbs, t: LAbs, k: ConfigKey)
    requires l_inv(s), l_notify(s, t, k)
    ensures l_inv(t),
        forall|v: u64| #[trigger] t.pending.contains(v) && t.keys_of.contains_key(v) ==> !t.keys_of[v].contains(k),
{
    assert forall|v: u64| #[trigger] t.pending.contains(v) && t.keys_of.contains_key(v) implies !t.keys_of[v].contains(k) by {
        if t.keys_of[v].contains(k) { assert(s.pending.contains(v)); assert(s.keys_of[v].contains(k)); }
    }
    assert forall|w: u64, k2: ConfigKey| #[trigger] t.pending.contains(w) && t.keys_of.contains_key(w) && #[trigger] t.keys_of[w].contains(k2)
        implies t.waiting.contains_key(k2) && t.waiting[k2].contains(w) by {
        assert(s.pending.contains(w));
        assert(s.keys_of[w].contains(k2));
    }
}


// ------------------------------------------------------------------ gRPC subscribers (config_subscribe.rs)
impl Subscriber {
    /// connection c is a subscriber of key k
    pub open spec fn subs(&self, k: ConfigKey, c: Arc<String>) -> bool { self.listener@.contains_key(k) && self.listener@[k]@.contains(c) }
}
pub open spec fn listed(items: Seq<ListenerItem>, k: ConfigKey) -> bool { exists|i: int| 0 <= i < items.len() && (#[trigger] items[i]).key == k }

// ------------------------------------------------------------------ C09: reads by key (ConfigActor::get_config_info_by_keys)
/// the row a read by key answers for a stored key: the key, the stored content, the stored md5, the stored description
pub open spec fn row_of(cache: Map<ConfigKey, ConfigValue>, k: ConfigKey) -> ConfigInfoDto {
    ConfigInfoDto { tenant: k.tenant, group: k.group, data_id: k.data_id, content: Some(cache[k].content), md5: Some(cache[k].md5), desc: cache[k].desc }
}
/// rows of the stored keys among `keys`, in the order asked; keys that are not stored are skipped
pub open spec fn rows_by_keys(cache: Map<ConfigKey, ConfigValue>, keys: Seq<ConfigKey>) -> Seq<ConfigInfoDto>
    decreases keys.len()
{
    if keys.len() == 0 { Seq::empty() }
    else {
        let pre = rows_by_keys(cache, keys.drop_last());
        if cache.contains_key(keys.last()) { pre.push(row_of(cache, keys.last())) } else { pre }
    }
}


// ------------------------------------------------------------------ C09: listings (ConfigActor::get_config_info_page)
pub open spec fn imin(a: int, b: int) -> int { if a <= b { a } else { b } }
/// the window [off, off+lim) of a list (same text as unit configindex)
pub open spec fn page<T>(s: Seq<T>, off: int, lim: int) -> Seq<T> { s.subrange(imin(off, s.len() as int), imin(off + lim, s.len() as int)) }
/// the row a listing shows for a stored key: content and md5 only when the query asks for them
pub open spec fn list_row(cache: Map<ConfigKey, ConfigValue>, k: ConfigKey, with_content: bool) -> ConfigInfoDto {
    ConfigInfoDto { tenant: k.tenant, group: k.group, data_id: k.data_id, desc: cache[k].desc,
        content: if with_content { Some(cache[k].content) } else { None }, md5: if with_content { Some(cache[k].md5) } else { None } }
}
/// rows of a page of keys, in page order; a key that is not stored has no row
pub open spec fn list_rows(cache: Map<ConfigKey, ConfigValue>, keys: Seq<ConfigKey>, with_content: bool) -> Seq<ConfigInfoDto>
    decreases keys.len()
{
    if keys.len() == 0 { Seq::empty() }
    else {
        let pre = list_rows(cache, keys.drop_last(), with_content);
        if cache.contains_key(keys.last()) { pre.push(list_row(cache, keys.last(), with_content)) } else { pre }
    }
}
/// when every key of the page is stored, the rows are the page, one row per key
pub proof fn lemma_list_rows_all(cache: Map<ConfigKey, ConfigValue>, keys: Seq<ConfigKey>, with_content: bool)
    requires forall|i: int| 0 <= i < keys.len() ==> cache.contains_key(#[trigger] keys[i])
    ensures list_rows(cache, keys, with_content).len() == keys.len(),
        forall|i: int| 0 <= i < keys.len() ==> #[trigger] list_rows(cache, keys, with_content)[i] == list_row(cache, keys[i], with_content)
    decreases keys.len()
{
    if keys.len() > 0 { lemma_list_rows_all(cache, keys.drop_last(), with_content); }
}
} // verus!
