// Bounded stand-in (always run, labelled bounded, never counted as proved) for the gRPC SUBSCRIPTION bookkeeping of C10 over
// sequences: Subscriber::{add_subscribe, remove_subscribe, remove_client_subscribe} are under contract in this unit one by
// one; this enumeration decides over operation sequences when a rewrite takes their text out of the proof's reach.
// Every sequence of up to 4 (and every fifth sequence of 5) operations out of 14 — two connections x (subscribe / unsubscribe the key sets {A}, {B}, {A, B};
// connection ends) — on the REAL Subscriber; after every step the subscriber set of every key (who is told about a change of
// that key) must be exactly the connections whose last word on that key was "subscribe" and that have not ended since.
use super::*;

#[derive(Clone, Copy, Debug)]
enum SOp { Sub(usize, u8), Unsub(usize, u8), End(usize) }

fn skey(i: usize) -> ConfigKey { ConfigKey::new(if i == 0 { "A" } else { "B" }, "g", "") }
fn conn(c: usize) -> Arc<String> { Arc::new(format!("conn-{}", c)) }
fn items(mask: u8) -> Vec<ListenerItem> { (0..2usize).filter(|i| mask & (1 << i) != 0).map(|i| ListenerItem::new(skey(i), Arc::new(String::new()))).collect() }

#[test]
fn vx_bounded_config_subscriptions() {
    let mut ops = vec![];
    for c in 0..2 { for m in 1..=3u8 { ops.push(SOp::Sub(c, m)); ops.push(SOp::Unsub(c, m)); } ops.push(SOp::End(c)); }
    let n = ops.len();
    let mut failures: Vec<String> = vec![];
    let mut steps = 0u64;
    'outer: for len in 1..=5usize {
        for code in 0..n.pow(len as u32) {
            if len == 5 && code % 5 != 0 { continue; }      // (sequences of 5: every fifth)
            let mut cc = code;
            let seq: Vec<SOp> = (0..len).map(|_| { let o = ops[cc % n]; cc /= n; o }).collect();
            let mut s = Subscriber::new();
            let mut model = [[false; 2]; 2];      // model[conn][key]
            for (j, op) in seq.iter().enumerate() {
                match *op {
                    SOp::Sub(c, m) => { s.add_subscribe(conn(c), items(m)); for k in 0..2 { if m & (1 << k) != 0 { model[c][k] = true; } } }
                    SOp::Unsub(c, m) => { s.remove_subscribe(conn(c), items(m)); for k in 0..2 { if m & (1 << k) != 0 { model[c][k] = false; } } }
                    SOp::End(c) => { s.remove_client_subscribe(conn(c)); model[c] = [false; 2]; }
                }
                steps += 1;
                for k in 0..2 {
                    let mut got: Vec<String> = s.listener.get(&skey(k)).map(|set| set.iter().map(|x| x.to_string()).collect()).unwrap_or_default();
                    got.sort();
                    let want: Vec<String> = (0..2).filter(|c| model[*c][k]).map(|c| conn(c).to_string()).collect();
                    if got != want {
                        failures.push(format!("VX-BOUNDED-FAIL SUBSCRIBERS of key {} are {:?}, the statement says {:?} — after {:?}", k, got, want, &seq[..=j]));
                        if failures.len() > 8 { break 'outer; }
                        continue 'outer;
                    }
                }
            }
        }
    }
    assert!(steps > 400_000 || !failures.is_empty(), "only {} steps", steps);
    assert!(failures.is_empty(), "{} failing sequence(s), first ones:\n{}", failures.len(), failures.iter().take(6).cloned().collect::<Vec<_>>().join("\n"));
}
