@@ Subscriber::remove_client_subscribe t10 1
@@ Subscriber::remove_client_subscribe t8 2
@@ Subscriber::remove_client_subscribe foriter 2 it2
@@ Subscriber::remove_client_subscribe spec
    // C10: the end of a connection ends only that connection's subscriptions: every other connection stays subscribed to exactly
    // the keys it was subscribed to (so no change of those keys goes unreported), and the closed connection gains nothing
    ensures forall|k: ConfigKey, c: Arc<String>| c != client_id ==> (#[trigger] final(self).subs(k, c) <==> old(self).subs(k, c)),
        forall|k: ConfigKey| #[trigger] final(self).subs(k, client_id) ==> old(self).subs(k, client_id),
@@ Subscriber::remove_client_subscribe entry
    broadcast use vstd::std_specs::hash::group_hash_axioms;
    broadcast use axiom_config_key_model;
    broadcast use group_std_extra;
    let ghost s0 = *self;
    let ghost cid = client_id;
@@ Subscriber::remove_client_subscribe loop 1
    invariant cid == client_id,
        forall|k: ConfigKey, c: Arc<String>| c != cid ==> (#[trigger] self.subs(k, c) <==> s0.subs(k, c)),
        forall|k: ConfigKey| #[trigger] self.subs(k, cid) ==> s0.subs(k, cid),
        forall|j: int, c: Arc<String>| 0 <= j < remove_keys@.len() ==> !#[trigger] self.subs(remove_keys@[j], c),
    decreases hs_rest(vx_it_1).len()
@@ Subscriber::remove_client_subscribe loop 1 arm_entry
    broadcast use vstd::std_specs::hash::group_hash_axioms;
    broadcast use axiom_config_key_model;
    broadcast use group_std_extra;
    let ghost s1 = *self;
    let ghost rk1 = remove_keys@;
    let ghost kk = key;
@@ Subscriber::remove_client_subscribe loop 1 body_exit
    proof {
        assert forall|k: ConfigKey, c: Arc<String>| #[trigger] self.subs(k, c) <==> (s1.subs(k, c) && !(c == cid && k == kk)) by {
            if k == kk { } else { assert(self.listener@.contains_key(k) == s1.listener@.contains_key(k)); }
        }
        assert forall|j: int, c: Arc<String>| 0 <= j < remove_keys@.len() implies !#[trigger] self.subs(remove_keys@[j], c) by {
            if j < rk1.len() { assert(remove_keys@[j] == rk1[j]); assert(!s1.subs(rk1[j], c)); }
            else { assert(remove_keys@[j] == kk); assert(self.listener@[kk]@.len() == 0); }
        }
    }
@@ Subscriber::remove_client_subscribe after_loop 1
    let ghost s2 = *self;
    let ghost rks = remove_keys@;
@@ Subscriber::remove_client_subscribe loop 2
    invariant it2.seq().unref() == rks, remove_keys@ == rks, self.client_keys == s2.client_keys,
        forall|j: int, c: Arc<String>| 0 <= j < rks.len() ==> !#[trigger] s2.subs(rks[j], c),
        forall|k: ConfigKey, c: Arc<String>| #[trigger] self.subs(k, c) <==> s2.subs(k, c),
@@ Subscriber::remove_client_subscribe loop 2 body_entry
    broadcast use vstd::std_specs::hash::group_hash_axioms;
    broadcast use axiom_config_key_model;
    let ghost s3 = *self;
    let ghost n2 = it2.index@;
    proof { assert(*key == rks[n2]); }
@@ Subscriber::remove_client_subscribe loop 2 body_exit
    proof {
        assert forall|k: ConfigKey, c: Arc<String>| #[trigger] self.subs(k, c) <==> s2.subs(k, c) by {
            assert(s3.subs(k, c) == s2.subs(k, c));
            if k == rks[n2] { assert(!s2.subs(rks[n2], c)); } else { assert(self.listener@.contains_key(k) == s3.listener@.contains_key(k)); }
        }
    }
@@ ConfigKey::new_by_arc spec
    ensures r.data_id == data_id, r.group == group, r.tenant == tenant
@@ ListenerItem::new spec
    ensures r.key == key, r.md5 == md5
@@ ConfigValue::new spec
    ensures r.content == content, r.wf(), !r.tmp, r.histories@.len() == 0, r.config_type is None, r.desc is None
@@ ConfigValue::init spec
    requires md5 is Some ==> md5.unwrap()@ == md5_spec(content@)
    ensures r.content == content, r.wf(), !r.tmp, r.config_type is None, r.desc is None, r.last_modified == op_time,
        // C09/C19: one history entry, stamped with the given id
        r.histories@.len() == 1, r.histories@[0].id == history_id, r.histories@[0].content == content,
        r.histories@[0].modified_time == op_time, r.histories@[0].op_user == op_user,
@@ ConfigValue::update_value spec
    requires old(self).histories@.len() <= 100, md5 is Some ==> md5.unwrap()@ == md5_spec(content@)
    ensures final(self).content == content, final(self).wf(), !final(self).tmp, final(self).last_modified == op_time,
        final(self).config_type == old(self).config_type, final(self).desc == old(self).desc,
        // C09: one more entry, newest last, bounded to the last 100 (oldest dropped)
        final(self).histories@ == hist_push(old(self).histories@, HistoryItem { id: history_id, content: content, modified_time: op_time, op_user: op_user }),   // @C09
        // C19: the newest entry carries exactly the id handed in
        final(self).histories@.len() > 0 && final(self).histories@.last().id == history_id,   // @C19
@@ ConfigListener::new spec
    ensures r.version == 0, r.sender_map@ =~= Map::<u64, ListenerSenderType>::empty(), r.listener@ =~= Map::<ConfigKey, Vec<u64>>::empty()
@@ ConfigListener::add foriter 1 it
@@ ConfigListener::add spec
    requires old(self).version < u64::MAX
    // C10: the long-poll gets a fresh registration number, is pending, and is recorded under every key it listens to;
    // nothing recorded before is lost
    ensures final(self).version == old(self).version + 1,
        final(self).sender_map@ == old(self).sender_map@.insert(final(self).version, sender),
        forall|i: int| 0 <= i < items@.len() ==> #[trigger] waiting(final(self).listener@, items@[i].key).contains(final(self).version),
        forall|k: ConfigKey, w: u64| #[trigger] waiting(old(self).listener@, k).contains(w) ==> waiting(final(self).listener@, k).contains(w),
        forall|k: ConfigKey, w: u64| #[trigger] waiting(final(self).listener@, k).contains(w) ==> waiting(old(self).listener@, k).contains(w) || w == final(self).version,
@@ ConfigListener::add entry
    broadcast use vstd::std_specs::hash::group_hash_axioms;
    broadcast use axiom_config_key_model;
    broadcast use group_std_extra;
@@ ConfigListener::add loop 1
    invariant
        it.seq().unref() == items@,
        self.version == old(self).version + 1, self.sender_map@ == old(self).sender_map@, self.time_listener@ == old(self).time_listener@,
        forall|i: int| 0 <= i < it.index@ ==> #[trigger] waiting(self.listener@, items@[i].key).contains(self.version),
        forall|k: ConfigKey, w: u64| #[trigger] waiting(old(self).listener@, k).contains(w) ==> waiting(self.listener@, k).contains(w),
        forall|k: ConfigKey, w: u64| #[trigger] waiting(self.listener@, k).contains(w) ==> waiting(old(self).listener@, k).contains(w) || w == self.version,
@@ ConfigListener::add loop 1 body_entry
    broadcast use vstd::std_specs::hash::group_hash_axioms;
    broadcast use axiom_config_key_model;
    broadcast use group_std_extra;
    let ghost l0 = self.listener@;
@@ ConfigListener::add loop 1 body_exit
    proof {
        let kk = items@[it.index@].key;
        let l1 = self.listener@;
        let v = self.version;
        if l0.contains_key(kk) {
            assert(l1[kk]@ == l0[kk]@.push(v));
            assert(l1[kk]@[l0[kk]@.len() as int] == v);
        } else {
            assert(l1[kk]@[0] == v);
        }
        assert(waiting(l1, kk).contains(v));
        assert forall|k: ConfigKey, w: u64| #[trigger] waiting(l0, k).contains(w) implies waiting(l1, k).contains(w) by {
            if k == kk && l0.contains_key(kk) {
                let i = choose|i: int| 0 <= i < l0[kk]@.len() && l0[kk]@[i] == w;
                assert(l1[kk]@[i] == w);
            }
        }
        assert forall|k: ConfigKey, w: u64| #[trigger] waiting(l1, k).contains(w) implies waiting(l0, k).contains(w) || w == v by {
            if k == kk {
                let i = choose|i: int| 0 <= i < l1[kk]@.len() && l1[kk]@[i] == w;
                if l0.contains_key(kk) { if i < l0[kk]@.len() { assert(l0[kk]@[i] == w); } }
            }
        }
        assert forall|i: int| 0 <= i < it.index@ + 1 implies #[trigger] waiting(l1, items@[i].key).contains(v) by {
            if i < it.index@ { assert(waiting(l0, items@[i].key).contains(v)); }
        }
    }
@@ ConfigListener::notify foriter 1 it
@@ ConfigListener::notify spec
    // C10: every long-poll recorded under the key is answered (leaves the pending set); the key's record is dropped; nothing else changes
    ensures final(self).listener@ == old(self).listener@.remove(key), final(self).version == old(self).version,
        final(self).time_listener@ == old(self).time_listener@,
        forall|v: u64| #[trigger] final(self).sender_map@.contains_key(v) <==> (old(self).sender_map@.contains_key(v) && !waiting(old(self).listener@, key).contains(v)),
        forall|v: u64| #[trigger] final(self).sender_map@.contains_key(v) ==> final(self).sender_map@[v] == old(self).sender_map@[v],
@@ ConfigListener::notify entry
    broadcast use vstd::std_specs::hash::group_hash_axioms;
    broadcast use axiom_config_key_model;
    broadcast use group_std_extra;
    let ghost sm0 = self.sender_map@;
    let ghost w0 = waiting(self.listener@, key);
@@ ConfigListener::notify loop 1
    invariant
        it.seq() == w0, sm0 == old(self).sender_map@,
        self.listener@ == old(self).listener@.remove(key), self.version == old(self).version, self.time_listener@ == old(self).time_listener@,
        forall|x: u64| #[trigger] self.sender_map@.contains_key(x) <==> (sm0.contains_key(x) && !(exists|i: int| 0 <= i < it.index@ && w0[i] == x)),
        forall|x: u64| #[trigger] self.sender_map@.contains_key(x) ==> self.sender_map@[x] == sm0[x],
@@ ConfigListener::notify loop 1 body_entry
    broadcast use vstd::std_specs::hash::group_hash_axioms;
    broadcast use group_std_extra;
    let ghost sm1 = self.sender_map@;
    let ghost idx = it.index@;
@@ ConfigListener::notify loop 1 body_exit
    proof {
        assert forall|x: u64| #[trigger] self.sender_map@.contains_key(x) <==> (sm0.contains_key(x) && !(exists|i: int| 0 <= i < idx + 1 && w0[i] == x)) by {
            if sm1.contains_key(x) && x != w0[idx] {
                if exists|i: int| 0 <= i < idx + 1 && w0[i] == x { let i = choose|i: int| 0 <= i < idx + 1 && w0[i] == x; assert(i < idx); }
            }
        }
    }
@@ ConfigListener::notify exit
    proof {
        if !old(self).listener@.contains_key(key) { assert(old(self).listener@.remove(key) =~= old(self).listener@); }
    }
@@ ConfigActor::set_tmp_config spec
    requires old(self).wf()
    ensures final(self).wf(),
        final(self).cache@.dom() == old(self).cache@.dom().insert(key),
        forall|k: ConfigKey| k != key && old(self).cache@.contains_key(k) ==> final(self).cache@[k] == old(self).cache@[k],
        final(self).cache@[key].content == val && final(self).cache@[key].tmp,
        final(self).tenant_index@ == old(self).tenant_index@, final(self).sequence == old(self).sequence,
@@ ConfigActor::set_tmp_config entry
    broadcast use vstd::std_specs::hash::group_hash_axioms;
    broadcast use axiom_config_key_model;
    broadcast use group_std_extra;
@@ ConfigActor::inner_set_config spec
    requires old(self).wf(), value.wf()
    ensures final(self).wf(),
        final(self).cache@ == old(self).cache@.insert(key, value),
        final(self).tenant_index@ == old(self).tenant_index@.insert(key), final(self).sequence == old(self).sequence,
@@ ConfigActor::inner_set_config entry
    broadcast use vstd::std_specs::hash::group_hash_axioms;
    broadcast use axiom_config_key_model;
@@ ConfigActor::set_config spec
    requires old(self).wf(),
        param.history_table_id is Some ==> param.history_table_id.unwrap() + old(self).sequence.batch() <= u64::MAX,
    ensures final(self).wf(), r is Ok,
        final(self).cache@.dom() == old(self).cache@.dom().insert(param.key),   // @C09
        forall|k: ConfigKey| k != param.key && old(self).cache@.contains_key(k) ==> final(self).cache@[k] == old(self).cache@[k],   // @C09
        // C09: the md5 served for the key is the md5 of the published content; type / description follow the publish when given
        final(self).cache@[param.key].md5@ == md5_spec(param.value@),   // @C09
        final(self).cache@[param.key].config_type == (if param.config_type is Some { param.config_type }   // @C09
            else if old(self).cache@.contains_key(param.key) { old(self).cache@[param.key].config_type } else { None }),
        final(self).cache@[param.key].desc == (if param.desc is Some { param.desc }   // @C09
            else if old(self).cache@.contains_key(param.key) { old(self).cache@[param.key].desc } else { None }),
        // C09: a publish that changes the content (or replaces a tmp / missing value) stores it and adds exactly one history entry stamped
        // with the given id; a publish of identical content changes neither content nor history
        ({   // @C09 @C10
            let same = old(self).cache@.contains_key(param.key) && !old(self).cache@[param.key].tmp && old(self).cache@[param.key].md5@ == md5_spec(param.value@);
            let item = HistoryItem { id: param.history_id, content: param.value, modified_time: param.op_time, op_user: param.op_user };
            let h0 = if old(self).cache@.contains_key(param.key) { old(self).cache@[param.key].histories@ } else { Seq::<HistoryItem>::empty() };
            &&& !final(self).cache@[param.key].tmp
            &&& same ==> final(self).cache@[param.key].content == old(self).cache@[param.key].content && final(self).cache@[param.key].histories@ == h0
                    && final(self).tenant_index@ == old(self).tenant_index@ && final(self).listener == old(self).listener
            &&& !same ==> final(self).cache@[param.key].content == param.value && final(self).cache@[param.key].histories@ == hist_push(h0, item)
                    && final(self).tenant_index@ == old(self).tenant_index@.insert(param.key)
                    // C10: every long-poll waiting on the key is answered
                    && final(self).listener.listener@ == old(self).listener.listener@.remove(param.key)
                    && (forall|v: u64| #[trigger] final(self).listener.sender_map@.contains_key(v) <==>
                          (old(self).listener.sender_map@.contains_key(v) && !waiting(old(self).listener.listener@, param.key).contains(v)))
        }),
        // C19: the replicated high-water mark of history ids is adopted on EVERY apply of the entry, whatever the content
        param.history_table_id is Some ==> final(self).sequence.end() ==
            (if old(self).sequence.end() >= param.history_table_id.unwrap() { old(self).sequence.end() } else { param.history_table_id.unwrap() as int }),   // @C19 @C07
        param.history_table_id is None ==> final(self).sequence == old(self).sequence,   // @C19 @C07
        final(self).subscriber == old(self).subscriber,   // @C10
@@ ConfigActor::set_config entry
    broadcast use vstd::std_specs::hash::group_hash_axioms;
    broadcast use axiom_config_key_model;
    broadcast use group_std_extra;
    let ghost c0 = self.cache@;
@@ ConfigActor::del_config spec
    requires old(self).wf()
    ensures final(self).wf(), r is Ok,
        // C09: not-found after a remove, gone from the listings
        final(self).cache@ == old(self).cache@.remove(key), final(self).tenant_index@ == old(self).tenant_index@.remove(key),
        // C10: every long-poll waiting on the key is answered
        final(self).listener.listener@ == old(self).listener.listener@.remove(key),
        forall|v: u64| #[trigger] final(self).listener.sender_map@.contains_key(v) <==>
            (old(self).listener.sender_map@.contains_key(v) && !waiting(old(self).listener.listener@, key).contains(v)),
        // C10: gRPC subscriptions survive the removal of the key, so that a later publish of it is still notified
        final(self).subscriber.listener@ == old(self).subscriber.listener@,   // @S9
        final(self).sequence == old(self).sequence,
@@ ConfigActor::del_config entry
    broadcast use vstd::std_specs::hash::group_hash_axioms;
    broadcast use axiom_config_key_model;
@@ Subscriber::notify spec
    ensures true
@@ Subscriber::remove_config_key t10 1
@@ Subscriber::remove_config_key t8 2
@@ Subscriber::remove_config_key spec
    // (not called any more since the S9 repair; kept under contract: it forgets the subscribers of exactly this key)
    ensures !final(self).listener@.contains_key(key),
        forall|k: ConfigKey, c: Arc<String>| k != key ==> (#[trigger] final(self).subs(k, c) <==> old(self).subs(k, c)),
@@ Subscriber::remove_config_key entry
    broadcast use vstd::std_specs::hash::group_hash_axioms;
    broadcast use axiom_config_key_model;
    broadcast use group_std_extra;
    let ghost s0 = *self;
    let ghost key0 = key;
@@ Subscriber::remove_config_key loop 1
    invariant self.listener@ == s0.listener@.remove(key0),
    decreases hs_rest(vx_it_1).len()
@@ Subscriber::remove_config_key loop 2
    invariant self.listener@ == s0.listener@.remove(key0),
@@ ConfigActor::handle@Handler<ConfigCmd> foriter 1 it
@@ ConfigActor::handle@Handler<ConfigCmd> foriter 2 it2
@@ ConfigActor::handle@Handler<ConfigCmd> spec
    requires old(self).wf(), old(self).listener.version < u64::MAX,
        match msg {
            ConfigCmd::SetFullValue(_, value) => value.wf(),
            ConfigCmd::InnerSetLastId(last_id) => last_id + old(self).sequence.batch() <= u64::MAX,
            ConfigCmd::GetSequenceSection(size) => old(self).sequence.last() + size + old(self).sequence.batch() <= u64::MAX,
            _ => true,
        },
    ensures final(self).wf(),
        match msg {
            // C09: reading a key returns exactly the stored content, its md5, type and description; not-found otherwise
            ConfigCmd::GET(key) => final(self).cache@ == old(self).cache@ && (
                if old(self).cache@.contains_key(key) {
                    r is Ok && (match r.unwrap() {
                        ConfigResult::Data { value, md5, config_type, desc, last_modified } =>
                            value == old(self).cache@[key].content && md5 == old(self).cache@[key].md5
                            && config_type == old(self).cache@[key].config_type && desc == old(self).cache@[key].desc,
                        _ => false,
                    })
                } else { r is Ok && r.unwrap() is NULL }),
            // C10: a long-poll is answered at once iff some held md5 is stale (or it does not wait); otherwise it is registered
            // under every key it listens to, in the same step
            ConfigCmd::LISTENER(items, sender, time) => final(self).cache@ == old(self).cache@ && (
                if (exists|i: int| 0 <= i < items@.len() && stale(old(self).cache@, items@[i])) || time <= 0 {
                    final(self).listener == old(self).listener
                } else {
                    final(self).listener.version == old(self).listener.version + 1
                    && final(self).listener.sender_map@ == old(self).listener.sender_map@.insert(final(self).listener.version, sender)
                    && (forall|i: int| 0 <= i < items@.len() ==> #[trigger] waiting(final(self).listener.listener@, items@[i].key).contains(final(self).listener.version))
                }),
            // C10: a gRPC subscription is recorded for exactly (connection, listed keys) and the subscriber is told at once about
            // every listed key whose held md5 is stale; long-poll registrations and the store are untouched
            ConfigCmd::Subscribe(items, client_id) => final(self).cache@ == old(self).cache@ && final(self).listener == old(self).listener
                && (forall|k: ConfigKey, c: Arc<String>| #[trigger] final(self).subscriber.subs(k, c) <==> (old(self).subscriber.subs(k, c) || (c == client_id && listed(items@, k))))
                && (if exists|i: int| 0 <= i < items@.len() && stale(old(self).cache@, items@[i]) {
                        r is Ok && (match r.unwrap() {
                            ConfigResult::ChangeKey(keys) => forall|i: int| 0 <= i < items@.len() && stale(old(self).cache@, items@[i]) ==> keys@.contains(#[trigger] items@[i].key),
                            _ => false,
                        })
                    } else { r is Ok && r.unwrap() is NULL }),
            // C10: an unsubscription ends exactly (connection, listed keys); the end of a connection ends only its own subscriptions
            ConfigCmd::RemoveSubscribe(items, client_id) => final(self).cache@ == old(self).cache@ && final(self).listener == old(self).listener
                && (forall|k: ConfigKey, c: Arc<String>| #[trigger] final(self).subscriber.subs(k, c) <==> (old(self).subscriber.subs(k, c) && !(c == client_id && listed(items@, k)))),
            ConfigCmd::RemoveSubscribeClient(client_id) => final(self).cache@ == old(self).cache@ && final(self).listener == old(self).listener
                && (forall|k: ConfigKey, c: Arc<String>| c != client_id ==> (#[trigger] final(self).subscriber.subs(k, c) <==> old(self).subscriber.subs(k, c))),
            _ => true,
        },
@@ ConfigActor::handle@Handler<ConfigCmd> entry
    broadcast use vstd::std_specs::hash::group_hash_axioms;
    broadcast use axiom_config_key_model;
    broadcast use group_std_extra;
@@ ConfigActor::handle@Handler<ConfigCmd> loop 1
    invariant
        *self == *old(self), it.seq().unref() == items@,
        changes@.len() > 0 <==> (exists|i: int| 0 <= i < it.index@ && stale(self.cache@, items@[i])),
@@ ConfigActor::handle@Handler<ConfigCmd> loop 1 body_entry
    broadcast use vstd::std_specs::hash::group_hash_axioms;
    broadcast use axiom_config_key_model;
    broadcast use group_std_extra;
    let ghost idx = it.index@;
    let ghost ch0 = changes@.len();
@@ ConfigActor::handle@Handler<ConfigCmd> loop 1 body_exit
    proof {
        if changes@.len() > ch0 { assert(stale(self.cache@, items@[idx])); }
        if stale(self.cache@, items@[idx]) { assert(changes@.len() > 0); }
        if changes@.len() > 0 && ch0 == 0 { assert(stale(self.cache@, items@[idx])); }
        if exists|i: int| 0 <= i < idx + 1 && stale(self.cache@, items@[i]) {
            let i = choose|i: int| 0 <= i < idx + 1 && stale(self.cache@, items@[i]);
            if i < idx { assert(ch0 > 0); }
        }
    }
@@ ConfigActor::handle@Handler<ConfigCmd> loop 2
    invariant *self == *old(self), it2.seq().unref() == items@,
        forall|i: int| 0 <= i < it2.index@ && stale(self.cache@, items@[i]) ==> changes@.contains(#[trigger] items@[i].key),
        changes@.len() > 0 ==> (exists|i: int| 0 <= i < it2.index@ && stale(self.cache@, items@[i])),
@@ ConfigActor::handle@Handler<ConfigCmd> loop 2 body_entry
    broadcast use vstd::std_specs::hash::group_hash_axioms;
    broadcast use axiom_config_key_model;
    broadcast use group_std_extra;
    let ghost idx2 = it2.index@;
    let ghost ch2 = changes@;
@@ ConfigActor::handle@Handler<ConfigCmd> loop 2 body_exit
    proof {
        assert forall|i: int| 0 <= i < idx2 + 1 && stale(self.cache@, items@[i]) implies changes@.contains(#[trigger] items@[i].key) by {
            if i < idx2 {
                let j = choose|j: int| 0 <= j < ch2.len() && ch2[j] == items@[i].key;
                assert(changes@[j] == ch2[j]);
            } else {
                assert(changes@.len() == ch2.len() + 1);
                assert(changes@[ch2.len() as int] == items@[idx2].key);
            }
        }
        if changes@.len() > 0 && !(exists|i: int| 0 <= i < idx2 && stale(self.cache@, items@[i])) { assert(stale(self.cache@, items@[idx2])); }
    }
@@ Subscriber::add_subscribe t8 1
@@ Subscriber::add_subscribe foriter 1 it
@@ Subscriber::add_subscribe foriter 2 it2
@@ Subscriber::add_subscribe foriter 3 it3
@@ Subscriber::add_subscribe spec
    // C10: the connection is recorded as a subscriber of exactly the listed keys, nobody else's subscription changes
    ensures forall|k: ConfigKey, c: Arc<String>| #[trigger] final(self).subs(k, c) <==> (old(self).subs(k, c) || (c == client_id && listed(items@, k))),
@@ Subscriber::add_subscribe entry
    broadcast use vstd::std_specs::hash::group_hash_axioms;
    broadcast use axiom_config_key_model;
    broadcast use group_std_extra;
    let ghost s0 = *self;
    let ghost its = items@;
@@ Subscriber::add_subscribe loop 1
    invariant it.seq().unref() == its, items@ == its,
        self.client_keys == s0.client_keys,
        forall|k: ConfigKey, c: Arc<String>| #[trigger] self.subs(k, c) <==> (s0.subs(k, c) || (c == client_id && listed(its.take(it.index@), k))),
        it.index@ == its.len() ==> forall|k: ConfigKey, c: Arc<String>| #[trigger] self.subs(k, c) <==> (s0.subs(k, c) || (c == client_id && listed(its, k))),
@@ Subscriber::add_subscribe loop 1 body_entry
    broadcast use vstd::std_specs::hash::group_hash_axioms;
    broadcast use axiom_config_key_model;
    broadcast use group_std_extra;
    let ghost s1 = *self;
    let ghost n = it.index@;
    proof {
        assert(*item == its[n]);
        assert forall|k: ConfigKey| listed(its.take(n + 1), k) <==> (listed(its.take(n), k) || k == its[n].key) by {
            if listed(its.take(n + 1), k) { let i = choose|i: int| 0 <= i < n + 1 && (#[trigger] its.take(n + 1)[i]).key == k; if i < n { assert(its.take(n)[i].key == k); } }
            if listed(its.take(n), k) { let i = choose|i: int| 0 <= i < n && (#[trigger] its.take(n)[i]).key == k; assert(its.take(n + 1)[i].key == k); }
            assert(its.take(n + 1)[n] == its[n]);
        }
    }
@@ Subscriber::add_subscribe after_loop 1
    proof { assert(its.take(its.len() as int) =~= its); }
    let ghost sl = self.listener;
    let ghost s2 = *self;
@@ Subscriber::add_subscribe loop 1 body_exit
    proof {
        let kk = its[n].key;
        assert forall|k: ConfigKey, c: Arc<String>| #[trigger] self.subs(k, c) <==> (s1.subs(k, c) || (c == client_id && k == kk)) by {
            if k == kk { } else { assert(self.listener@.contains_key(k) == s1.listener@.contains_key(k)); }
        }
        if n + 1 == its.len() { assert(its.take(n + 1) =~= its); }
    }
@@ Subscriber::add_subscribe loop 2
    invariant self.listener == sl
@@ Subscriber::add_subscribe loop 3
    invariant self.listener == sl
@@ Subscriber::add_subscribe exit
    proof {
        assert(self.listener == sl);
        assert forall|k: ConfigKey, c: Arc<String>| #[trigger] self.subs(k, c) <==> (s0.subs(k, c) || (c == client_id && listed(its, k))) by {
            assert(self.subs(k, c) == s2.subs(k, c));
        }
    }
@@ Subscriber::remove_subscribe t8 1
@@ Subscriber::remove_subscribe t8 2
@@ Subscriber::remove_subscribe foriter 1 it
@@ Subscriber::remove_subscribe foriter 2 it2
@@ Subscriber::remove_subscribe foriter 3 it3
@@ Subscriber::remove_subscribe spec
    // C10: the connection stops being a subscriber of exactly the listed keys; nobody else's subscription changes
    ensures forall|k: ConfigKey, c: Arc<String>| #[trigger] final(self).subs(k, c) <==> (old(self).subs(k, c) && !(c == client_id && listed(items@, k))),
@@ Subscriber::remove_subscribe entry
    broadcast use vstd::std_specs::hash::group_hash_axioms;
    broadcast use axiom_config_key_model;
    broadcast use group_std_extra;
    let ghost s0 = *self;
    let ghost its = items@;
    let ghost cid = client_id;
@@ Subscriber::remove_subscribe loop 1
    invariant it.seq().unref() == its, items@ == its, cid == client_id,
        self.client_keys == s0.client_keys,
        forall|k: ConfigKey, c: Arc<String>| #[trigger] self.subs(k, c) <==> (s0.subs(k, c) && !(c == cid && listed(its.take(it.index@), k))),
        forall|j: int, c: Arc<String>| 0 <= j < remove_keys@.len() ==> !#[trigger] self.subs(remove_keys@[j], c),
@@ Subscriber::remove_subscribe loop 1 body_entry
    broadcast use vstd::std_specs::hash::group_hash_axioms;
    broadcast use axiom_config_key_model;
    broadcast use group_std_extra;
    let ghost s1 = *self;
    let ghost n = it.index@;
    let ghost rk1 = remove_keys@;
    proof {
        assert(*item == its[n]);
        assert forall|k: ConfigKey| listed(its.take(n + 1), k) <==> (listed(its.take(n), k) || k == its[n].key) by {
            if listed(its.take(n + 1), k) { let i = choose|i: int| 0 <= i < n + 1 && (#[trigger] its.take(n + 1)[i]).key == k; if i < n { assert(its.take(n)[i].key == k); } }
            if listed(its.take(n), k) { let i = choose|i: int| 0 <= i < n && (#[trigger] its.take(n)[i]).key == k; assert(its.take(n + 1)[i].key == k); }
            assert(its.take(n + 1)[n] == its[n]);
        }
    }
@@ Subscriber::remove_subscribe loop 1 body_exit
    proof {
        let kk = its[n].key;
        assert forall|k: ConfigKey, c: Arc<String>| #[trigger] self.subs(k, c) <==> (s1.subs(k, c) && !(c == cid && k == kk)) by {
            if k == kk { } else { assert(self.listener@.contains_key(k) == s1.listener@.contains_key(k)); }
        }
        assert forall|j: int, c: Arc<String>| 0 <= j < remove_keys@.len() implies !#[trigger] self.subs(remove_keys@[j], c) by {
            if j < rk1.len() { assert(remove_keys@[j] == rk1[j]); assert(!s1.subs(rk1[j], c)); }
            else { assert(remove_keys@[j] == kk); assert(self.listener@[kk]@.len() == 0); }
        }
    }
@@ Subscriber::remove_subscribe after_loop 1
    proof { assert(its.take(its.len() as int) =~= its); }
    let ghost s2 = *self;
    let ghost rks = remove_keys@;
@@ Subscriber::remove_subscribe loop 2
    invariant it2.seq().unref() == rks, remove_keys@ == rks, self.client_keys == s2.client_keys,
        forall|j: int, c: Arc<String>| 0 <= j < rks.len() ==> !#[trigger] s2.subs(rks[j], c),
        forall|k: ConfigKey, c: Arc<String>| #[trigger] self.subs(k, c) <==> s2.subs(k, c),
@@ Subscriber::remove_subscribe loop 2 body_entry
    broadcast use vstd::std_specs::hash::group_hash_axioms;
    broadcast use axiom_config_key_model;
    let ghost s3 = *self;
    let ghost n2 = it2.index@;
    proof { assert(*key == rks[n2]); }
@@ Subscriber::remove_subscribe loop 2 body_exit
    proof {
        assert forall|k: ConfigKey, c: Arc<String>| #[trigger] self.subs(k, c) <==> s2.subs(k, c) by {
            assert(s3.subs(k, c) == s2.subs(k, c));
            if k == rks[n2] { assert(!s2.subs(rks[n2], c)); } else { assert(self.listener@.contains_key(k) == s3.listener@.contains_key(k)); }
        }
    }
@@ Subscriber::remove_subscribe after_loop 2
    let ghost sl = self.listener;
    let ghost s4 = *self;
@@ Subscriber::remove_subscribe loop 3
    invariant self.listener == sl
@@ Subscriber::remove_subscribe exit
    proof {
        assert(self.listener == sl);
        assert forall|k: ConfigKey, c: Arc<String>| #[trigger] self.subs(k, c) <==> (s0.subs(k, c) && !(c == cid && listed(its, k))) by {
            assert(self.subs(k, c) == s4.subs(k, c));
            assert(s4.subs(k, c) == s2.subs(k, c));
        }
    }
@@ ConfigActor::get_config_info_by_keys spec
    // C09: a read by keys answers exactly the stored rows of the named keys, in the order asked, with the stored content and its md5
    ensures r.1@ == rows_by_keys(self.cache@, keys@), r.0 == r.1@.len(),
@@ ConfigActor::get_config_info_by_keys foriter 1 it
@@ ConfigActor::get_config_info_by_keys entry
    broadcast use vstd::std_specs::hash::group_hash_axioms;
    broadcast use axiom_config_key_model;
    broadcast use group_std_extra;
@@ ConfigActor::get_config_info_by_keys loop 1
    invariant
        it.seq().unref() == keys@,
        info_list@ == rows_by_keys(self.cache@, keys@.take(it.index@)),
@@ ConfigActor::get_config_info_by_keys loop 1 body_entry
    broadcast use vstd::std_specs::hash::group_hash_axioms;
    broadcast use axiom_config_key_model;
    broadcast use group_std_extra;
    let ghost idx = it.index@;
    let ghost il0 = info_list@;
    proof { assert(keys@.take(idx + 1).drop_last() =~= keys@.take(idx)); }
@@ ConfigActor::get_config_info_by_keys before_tail
    proof { assert(keys@.take(keys@.len() as int) =~= keys@); }
@@ ConfigActor::get_config_info_by_keys loop 1 body_exit
    proof {
        assert(keys@.take(idx + 1).last() == keys@[idx]);
        assert(key == keys@[idx]);
        if self.cache@.contains_key(key) {
            assert(info_list@.len() == il0.len() + 1);
            assert(info_list@.last().content == Some(self.cache@[key].content));
            assert(info_list@.last().tenant == key.tenant);
            assert(info_list@.last().desc == self.cache@[key].desc);
            assert(info_list@.last() == row_of(self.cache@, key));
        } else { assert(info_list@ == il0); }
        assert(info_list@ =~= rows_by_keys(self.cache@, keys@.take(idx + 1)));
    }
@@ ConfigActor::get_config_info_page t8 1
@@ ConfigActor::get_config_info_page foriter 1 it
@@ ConfigActor::get_config_info_page spec
    requires self.wf()
    // C09: a listing shows the total of THE canonical result list and, for its window [offset, offset+limit), one row per key, in that order,
    // each row carrying the key and the STORED description / content / md5 of that key (content and md5 only when asked for)
    // (a window whose end offset + limit overflows usize is not decided: the index computes `offset + limit`)
    ensures param.offset + param.limit <= usize::MAX ==> {
        &&& r.0 == self.tenant_index.result_list(*param).len()
        &&& r.1@ == list_rows(self.cache@, page(self.tenant_index.result_list(*param), param.offset as int, param.limit as int), param.query_context)
        &&& r.1@.len() == page(self.tenant_index.result_list(*param), param.offset as int, param.limit as int).len()
    }
@@ ConfigActor::get_config_info_page entry
    broadcast use vstd::std_specs::hash::group_hash_axioms;
    broadcast use axiom_config_key_model;
    broadcast use group_std_extra;
    let ghost rl = self.tenant_index.result_list(*param);
    let ghost pg = page(rl, param.offset as int, param.limit as int);
    let ghost ok = param.offset + param.limit <= usize::MAX;
    let ghost wc = param.query_context;
@@ ConfigActor::get_config_info_page loop 1
    invariant
        it.seq().unref() == list@, ok ==> list@ == pg, wc == param.query_context,
        info_list@ == list_rows(self.cache@, list@.take(it.index@), wc),
@@ ConfigActor::get_config_info_page loop 1 body_entry
    broadcast use vstd::std_specs::hash::group_hash_axioms;
    broadcast use axiom_config_key_model;
    broadcast use group_std_extra;
    let ghost idx = it.index@;
    let ghost il0 = info_list@;
    proof { assert(list@.take(idx + 1).drop_last() =~= list@.take(idx)); }
@@ ConfigActor::get_config_info_page loop 1 body_exit
    proof {
        assert(list@.take(idx + 1).last() == list@[idx]);
        assert(*item == list@[idx]);
        if self.cache@.contains_key(*item) {
            assert(info_list@.last() == list_row(self.cache@, *item, wc));
        } else { assert(info_list@ == il0); }
        assert(info_list@ =~= list_rows(self.cache@, list@.take(idx + 1), wc));
    }
@@ ConfigActor::get_config_info_page before_tail
    proof {
        assert(list@.take(list@.len() as int) =~= list@);
        if ok {
            assert forall|i: int| 0 <= i < pg.len() implies self.cache@.contains_key(#[trigger] pg[i]) by {
                let j = imin(param.offset as int, rl.len() as int) + i;
                assert(pg[i] == rl[j]);
                assert(self.tenant_index@.contains(rl[j]));
            }
            lemma_list_rows_all(self.cache@, pg, wc);
        }
    }
