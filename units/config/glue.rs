use std::sync::Weak;
verus! {

/// md5 of a content string (crate md5): uninterpreted
pub uninterp spec fn md5_spec(s: Seq<char>) -> Seq<char>;
#[verifier::external_body]
pub fn get_md5(content: &str) -> (r: String) ensures r@ == md5_spec(content@) { unimplemented!() }
#[verifier::external_body]
pub fn now_millis_i64() -> i64 { unimplemented!() }

pub mod chrono {
    use vstd::prelude::*;
    verus! {
    pub struct DateTimeShim { pub ms: i64 }
    impl DateTimeShim { pub fn timestamp_millis(&self) -> (r: i64) ensures r == self.ms { self.ms } }
    pub struct Local {}
    impl Local {
        #[verifier::external_body]
        pub fn now() -> DateTimeShim { unimplemented!() }
    }
    }
}
pub use crate::chrono::Local;

#[verifier::external_type_specification]
#[verifier::external_body]
#[verifier::reject_recursive_types(T)]
#[verifier::reject_recursive_types(A)]
pub struct ExWeak<T: ?Sized, A: std::alloc::Allocator>(std::sync::Weak<T, A>);

pub struct NacosRaft {}
pub struct NamespaceActor {}
pub struct BiStreamManage {}
pub enum BiStreamManageCmd { NotifyConfig(ConfigKey, HashSet<Arc<String>>) }

/// actix::Addr<A>: sending has no specified effect on any state visible to these contracts
#[verifier::external_body]
#[verifier::reject_recursive_types(A)]
pub struct Addr<A> { inner: core::marker::PhantomData<A> }
impl<A> Addr<A> {
    #[verifier::external_body]
    pub fn do_send<M>(&self, msg: M) { unimplemented!() }
}

pub mod tokio { pub mod sync { pub mod oneshot {
    use vstd::prelude::*;
    verus! {
    #[verifier::external_body]
    #[verifier::reject_recursive_types(T)]
    pub struct Sender<T> { inner: core::marker::PhantomData<T> }
    impl<T> Sender<T> {
        /// consuming send: the receiver (a pending long-poll) is answered or already gone
        #[verifier::external_body]
        pub fn send(self, v: T) -> Result<(), T> { unimplemented!() }
    }
    }
} } }

/// config listing index (src/config/config_index.rs): assumed here, proved in unit configindex
#[verifier::external_body]
pub struct TenantIndex { vx: u8 }
impl TenantIndex {
    pub uninterp spec fn view(&self) -> Set<ConfigKey>;
    #[verifier::external_body]
    pub fn insert_config(&mut self, key: ConfigKey) -> (r: bool)
        ensures final(self)@ == old(self)@.insert(key), r == !old(self)@.contains(key)
    { unimplemented!() }
    #[verifier::external_body]
    pub fn remove_config(&mut self, key: &ConfigKey) -> (r: bool)
        ensures final(self)@ == old(self)@.remove(*key), r == old(self)@.contains(*key)
    { unimplemented!() }
    /// THE canonical result list of a search (unit configindex: TenantIndex::result_list — permitted tenants, groups, data ids in increasing order)
    pub uninterp spec fn result_list(&self, p: ConfigQueryParam) -> Seq<ConfigKey>;
    /// assumed here with the clauses unit configindex proves for the real TenantIndex::query_config_page (total, window) and its
    /// spec lemma lemma_result_exactly_once (the list names stored keys only); the two window clauses are compared textually
    /// with the proved ones on every run ([[same_block]] tenant_page)
    #[verifier::external_body]
    pub fn query_config_page(&self, param: &ConfigQueryParam) -> (r: (usize, Vec<ConfigKey>))
        // unit configindex proves these clauses under `requires offset + limit <= usize::MAX`; a window whose end overflows is not decided
        ensures param.offset + param.limit <= usize::MAX ==> ({
            // <<abstract:tenant_page
            &&& r.0 == self.result_list(*param).len()
            &&& r.1@ == page(self.result_list(*param), param.offset as int, param.limit as int)
            // >>abstract
            }),
            forall|i: int| 0 <= i < self.result_list(*param).len() ==> self@.contains(#[trigger] self.result_list(*param)[i]),
    { unimplemented!() }
}

pub struct SnapshotWriterActor {}
/// namespace privilege of the caller (src/common/model/privilege.rs): opaque here, decided in units privilege / configindex
#[verifier::external_body]
pub struct NamespacePrivilegeGroup { vx: u8 }
pub struct ConfigHistoryParam { pub vx: u8 }
/// actix Context<A>: opaque
#[verifier::external_body]
#[verifier::reject_recursive_types(A)]
pub struct Context<A> { inner: core::marker::PhantomData<A> }

impl ConfigActor {
    // query / snapshot helpers of the actor that are not under contract in this unit (listing correctness: unit configindex)
    #[verifier::external_body]
    pub fn get_history_info_page(&self, param: &ConfigHistoryParam) -> (usize, Vec<ConfigHistoryInfoDto>) { unimplemented!() }
    #[verifier::external_body]
    pub fn build_snapshot(&self, writer: Addr<SnapshotWriterActor>) -> anyhow::Result<()> { unimplemented!() }
}

/// A-KEY: derived Hash/Eq of ConfigKey are lawful
pub broadcast axiom fn axiom_config_key_model()
    ensures #[trigger] vstd::std_specs::hash::obeys_key_model::<ConfigKey>();

} // verus!
