#!/usr/bin/env python3
"""Mutation self-test of the machinery: apply deliberate property-breaking edits (units/*/mutations.toml)
to a scratch copy of /repo/src and require exit 1 on the named property; the unchanged copy must give exit 0.
usage: selftest.py [unit ...]    (never touches /repo)"""
import glob, os, shutil, subprocess, sys, tempfile, tomllib, concurrent.futures as cf
VERIF = os.path.dirname(os.path.dirname(os.path.abspath(__file__)))


def run_one(m, unit):
    scratch = tempfile.mkdtemp(prefix="vx_mut_")
    try:
        subprocess.run(["rsync", "-a", os.path.join(os.environ.get("VERIF_REPO", "/repo"), "src"), scratch + "/"], check=True)
        p = os.path.join(scratch, m["file"])
        s = open(p).read()
        if m["find"] not in s:
            return (unit, m["name"], "STALE", "pattern not found")
        if m.get("after"):
            # several look-alike copies in one file: the edit goes to the first match behind the marker
            if m["after"] not in s or m["find"] not in s[s.index(m["after"]):]:
                return (unit, m["name"], "STALE", "marker/pattern not found")
            k = s.index(m["after"])
            s = s[:k] + s[k:].replace(m["find"], m["replace"], 1)
        else:
            s = s.replace(m["find"], m["replace"], 1)
        open(p, "w").write(s)
        env = dict(os.environ)
        if not m.get("bounded"):
            env["VERIF_SKIP_BOUNDED"] = "1"     # the always-on bounded stand-ins cost a native build: only for the mutations that need them
        r = subprocess.run([os.path.join(VERIF, "check"), m["expect"], "--repo", scratch, "--no-evidence", "--units", unit],
                           capture_output=True, text=True, env=env)
        ok = (r.returncode == m.get("exit", 1))
        last = [l for l in r.stdout.strip().split("\n") if l.startswith(("obligation failed", "UNDECIDED", "bounded stand-in failed"))][:2]
        return (unit, m["name"], "caught" if ok else "MISSED(exit %d)" % r.returncode, " | ".join(last)[:300])
    finally:
        shutil.rmtree(scratch, ignore_errors=True)
        for f in glob.glob(os.path.join(VERIF, "replays", "*")):
            pass


def main():
    args = sys.argv[1:]
    only = None
    if "--only" in args:
        i = args.index("--only"); only = args[i + 1]; del args[i:i + 2]     # substring of the mutation name
    units = args
    jobs = []
    for p in sorted(glob.glob(os.path.join(VERIF, "units", "*", "mutations.toml"))):
        unit = os.path.basename(os.path.dirname(p))
        if units and unit not in units:
            continue
        for m in tomllib.load(open(p, "rb")).get("m", []):
            if only and only not in m["name"]:
                continue
            jobs.append((m, unit))
    bad = 0
    before = set(glob.glob(os.path.join(VERIF, "replays", "*")))
    par = [j for j in jobs if not j[0].get("bounded")]
    seq = [j for j in jobs if j[0].get("bounded")]      # native builds share one target dir: one at a time
    with cf.ThreadPoolExecutor(max_workers=6) as ex:
        for (unit, name, res, info) in ex.map(lambda a: run_one(*a), par):
            print("%-12s %-44s %-16s %s" % (unit, name, res, info))
            if res != "caught":
                bad += 1
    for j in seq:
        (unit, name, res, info) = run_one(*j)
        print("%-12s %-44s %-16s %s" % (unit, name, res, info))
        if res != "caught":
            bad += 1
    for f in set(glob.glob(os.path.join(VERIF, "replays", "*"))) - before:
        os.remove(f)
    print("%d mutations, %d not caught" % (len(jobs), bad))
    sys.exit(1 if bad else 0)


if __name__ == "__main__":
    main()
