"""Concrete-history corpus: native tests against the REAL crate that are tied to a property.

 findings/<S>/demo.rs  — the failing input / history of every defect found so far (fixed or recorded)
 seeded/<id>/demo_*.rs — the demonstration that came with every seeded property-breaking change

Every one of them passes on a tree where the property holds (except the demo of a recorded known finding, which fails
until that finding is repaired).  They are TESTS, not proofs; the checks use them for two things only:
  * replay: when a Verus obligation of property P fails, the corpus of P is run on the current tree; a failing test is a
    concrete failing history on the real code and is attached to the replay file (the VIOLATION line then carries no
    `no-failing-input-found`);
  * thorough tier: the corpus of P is run unconditionally (regression of every defect ever seen for P).
"""
import glob
import json
import os
import re

VERIF = os.path.dirname(os.path.dirname(os.path.abspath(__file__)))


def entries(prop):
    out = []
    for m in sorted(glob.glob(os.path.join(VERIF, "findings", "*", "meta.json"))):
        j = json.load(open(m))
        if prop in j["properties"]:
            out.append({"id": j["id"], "module_file": j["owning_source_file"], "test_file": os.path.join(os.path.dirname(m), "demo.rs"),
                        "filter": j["test_filter"], "kind": "finding"})
    for m in sorted(glob.glob(os.path.join(VERIF, "seeded", "*", "meta.json"))):
        j = json.load(open(m))
        if j.get("property") != prop or not j.get("confirmed"):
            continue
        demo = glob.glob(os.path.join(os.path.dirname(m), "demo_*.rs"))
        if demo:
            out.append({"id": os.path.basename(os.path.dirname(m)), "module_file": j["owning_source_file"], "test_file": demo[0],
                        "filter": j["test_name"], "kind": "seeded"})
    return out


def run(prop, repo):
    """returns (ran, failing, output): failing = [{"id", "test", "message"}]"""
    import native
    es = entries(prop)
    if not es:
        return [], [], ""
    mods = [(e["module_file"], e["test_file"]) for e in es]
    rc, out = native.run_native(mods, es[0]["filter"], repo=repo, extra_args=[e["filter"] for e in es[1:]])
    if rc is None or ("test result:" not in out and "panicked" not in out):
        raise RuntimeError("corpus run did not produce a test result:\n" + out[-1500:])
    failed = re.findall(r"^test (\S+) \.\.\. FAILED", out, re.M)
    ran = re.findall(r"^test (\S+) \.\.\. (?:ok|FAILED)", out, re.M)
    failing = []
    for t in failed:
        eid = next((e["id"] for e in es if e["filter"] in t.split("::")[-1]), "?")
        m = re.search(r"thread '%s'[^\n]*panicked at ([^\n]*)\n((?:[^\n]*\n){1,6})" % re.escape(t), out)
        failing.append({"id": eid, "test": t, "message": (m.group(1) + " " + " | ".join(x.strip() for x in m.group(2).split("\n") if x.strip()))[:600] if m else ""})
    return ran, failing, out


if __name__ == "__main__":
    import sys
    sys.path.insert(0, os.path.dirname(os.path.abspath(__file__)))
    ran, failing, out = run(sys.argv[1], sys.argv[2] if len(sys.argv) > 2 else "/repo")
    print("ran", len(ran), "failing", json.dumps(failing, indent=1))
