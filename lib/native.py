#!/usr/bin/env python3
"""Run a native test against the REAL crate: rsync the /repo working tree to a scratch dir, append
`#[cfg(test)] #[path=..] mod ..;` lines to the owning module files (nothing is written to /repo),
`cargo test --lib --offline <filter>`, remove the scratch copy.

usage: native.py <module-file-relative-to-repo> <abs test .rs> <filter> [--repo DIR]
exit code = cargo test's; prints the tail of its output.
"""
import os, shutil, subprocess, sys, tempfile, re

VERIF = os.path.dirname(os.path.dirname(os.path.abspath(__file__)))
TARGET = os.path.join(VERIF, ".cache", "native-target")


def touch_sources(dst):
    """cargo decides freshness by mtime against the last build in the (shared) target dir: a scratch copy prepared while another
    build was running would look older than that build and its stale binary would be run — stamp the sources after taking the lock"""
    for root, _dirs, files in os.walk(os.path.join(dst, "src")):
        for f in files:
            if f.endswith(".rs"):
                try:
                    os.utime(os.path.join(root, f), None)
                except OSError:
                    pass


def run_native(mods, flt, repo="/repo", timeout=3600, extra_args=None):
    """mods: list of (module file rel path, abs test file).  returns (rc, output)"""
    scratch = tempfile.mkdtemp(prefix="vx_native_")
    try:
        dst = os.path.join(scratch, "repo")
        if os.path.exists(os.path.join(repo, "Cargo.toml")):
            subprocess.run(["rsync", "-a", "--exclude", "target", "--exclude", ".git", repo + "/", dst + "/"], check=True)
        else:
            # `repo` is a scratch dir holding only src/ (mutation self-test): overlay it on the real tree
            subprocess.run(["rsync", "-a", "--exclude", "target", "--exclude", ".git", "/repo/", dst + "/"], check=True)
            subprocess.run(["rsync", "-a", repo + "/src/", dst + "/src/"], check=True)
        for i, (modfile, testfile) in enumerate(mods):
            name = "vx_native_" + re.sub(r"\W+", "_", os.path.basename(os.path.dirname(testfile)) + "_" + os.path.splitext(os.path.basename(testfile))[0]).lower()
            with open(os.path.join(dst, modfile), "a") as f:
                f.write('\n#[cfg(test)]\n#[path = "%s"]\nmod %s;\n' % (testfile, name))
        env = dict(os.environ, CARGO_NET_OFFLINE="true", CARGO_TARGET_DIR=TARGET, RUST_BACKTRACE="0")
        cmd = ["cargo", "test", "--lib", "--offline", "-p", "rnacos", flt, "--", "--nocapture", "--test-threads", "1"] + (extra_args or [])
        # one native build + run at a time: the test binary has the same file name for every scratch copy of the crate, so two
        # concurrent runs sharing the target dir could execute each other's binary
        import fcntl
        os.makedirs(TARGET, exist_ok=True)
        with open(os.path.join(TARGET, ".vx_native_lock"), "w") as lk:
            fcntl.flock(lk, fcntl.LOCK_EX)
            touch_sources(dst)
            p = subprocess.run(cmd, cwd=dst, env=env, capture_output=True, text=True, timeout=timeout)
        return p.returncode, p.stdout[-40000:] + "\n" + p.stderr[-40000:]
    finally:
        shutil.rmtree(scratch, ignore_errors=True)


if __name__ == "__main__":
    repo = "/repo"
    args = sys.argv[1:]
    if "--repo" in args:
        i = args.index("--repo"); repo = args[i + 1]; del args[i:i + 2]
    rc, out = run_native([(args[0], os.path.abspath(args[1]))], args[2], repo)
    print(out)
    sys.exit(rc)
