#!/usr/bin/env python3
"""Run a native test against the REAL crate: rsync the /repo working tree to a scratch dir, append
`#[cfg(test)] #[path=..] mod ..;` lines to the owning module files (nothing is written to /repo),
`cargo test --lib --offline <filter>`, remove the scratch copy.

usage: native.py <module-file-relative-to-repo> <abs test .rs> <filter> [--repo DIR]
exit code = cargo test's; prints the tail of its output.
"""
import os, shutil, subprocess, sys, tempfile, re

VERIF = os.path.dirname(os.path.dirname(os.path.abspath(__file__)))
TARGET = os.path.join(VERIF, ".cache", "native-target")


def touch_sources(dst):
    """cargo decides freshness by mtime against the last build in the (shared) target dir: a scratch copy prepared while another
    build was running would look older than that build and its stale binary would be run — stamp the sources after taking the lock"""
    for root, _dirs, files in os.walk(os.path.join(dst, "src")):
        for f in files:
            if f.endswith(".rs"):
                try:
                    os.utime(os.path.join(root, f), None)
                except OSError:
                    pass


def all_standins():
    """(module file, test file) of every [[bounded]] / [fallback] stand-in of every unit"""
    import glob, tomllib
    out = []
    for p in sorted(glob.glob(os.path.join(VERIF, "units", "*", "unit.toml"))):
        u = tomllib.load(open(p, "rb"))
        d = os.path.dirname(p)
        for bd in u.get("bounded", []) + ([u["fallback"]] if u.get("fallback") else []):
            out.append((bd["module_file"], os.path.join(d, bd["test"])))
    return out


def _prepare(repo, mods):
    scratch = tempfile.mkdtemp(prefix="vx_native_")
    dst = os.path.join(scratch, "repo")
    if os.path.exists(os.path.join(repo, "Cargo.toml")):
        subprocess.run(["rsync", "-a", "--exclude", "target", "--exclude", ".git", repo + "/", dst + "/"], check=True)
    else:
        # `repo` is a scratch dir holding only src/ (mutation self-test): overlay it on the real tree
        subprocess.run(["rsync", "-a", "--exclude", "target", "--exclude", ".git", "/repo/", dst + "/"], check=True)
        subprocess.run(["rsync", "-a", repo + "/src/", dst + "/src/"], check=True)
    seen = set()
    for (modfile, testfile) in mods:
        if (modfile, testfile) in seen:
            continue
        seen.add((modfile, testfile))
        name = "vx_native_" + re.sub(r"\W+", "_", os.path.basename(os.path.dirname(testfile)) + "_" + os.path.splitext(os.path.basename(testfile))[0]).lower()
        with open(os.path.join(dst, modfile), "a") as f:
            f.write('\n#[cfg(test)]\n#[path = "%s"]\nmod %s;\n' % (testfile, name))
    return scratch, dst


def _content_key(dst, mods):
    """everything the test binary is built from: the crate sources with the appended module lines, the manifests, the stand-in files"""
    import hashlib
    h = hashlib.sha256()
    files = []
    for root, _dirs, fs in os.walk(os.path.join(dst, "src")):
        files += [os.path.join(root, f) for f in fs]
    for f in ("Cargo.toml", "Cargo.lock", "build.rs"):
        if os.path.exists(os.path.join(dst, f)):
            files.append(os.path.join(dst, f))
    for root, _dirs, fs in os.walk(dst):
        if root == dst or "/src" in root[len(dst):] or "/target" in root[len(dst):] or "/.git" in root[len(dst):]:
            continue
        files += [os.path.join(root, f) for f in fs if f in ("Cargo.toml", "build.rs") or f.endswith(".proto")]
    for f in sorted(set(files)):
        h.update(os.path.relpath(f, dst).encode() + b"\0")
        h.update(open(f, "rb").read())
    for (_m, t) in sorted(set(mods)):
        h.update(t.encode() + b"\0")
        h.update(open(t, "rb").read())
    return h.hexdigest()[:24]


BINCACHE = os.path.join(VERIF, ".cache", "native-bin")


def _run_shared(mods, filters, repo, timeout):
    """one test binary holding EVERY stand-in, cached by the content it was built from (sources + stand-ins): the 16 checks of one
    run then build it once.  Returns None when the shared binary cannot be built (e.g. a stand-in of another unit does not compile
    against the current source) — the caller then builds just its own modules."""
    import fcntl, json as _json
    allm = []
    for m in list(mods) + all_standins():
        if m not in allm:
            allm.append(m)
    scratch, dst = _prepare(repo, allm)
    try:
        key = _content_key(dst, allm)
        os.makedirs(BINCACHE, exist_ok=True)
        os.makedirs(TARGET, exist_ok=True)
        binp = os.path.join(BINCACHE, key, "rnacos-tests")
        env = dict(os.environ, CARGO_NET_OFFLINE="true", CARGO_TARGET_DIR=TARGET, RUST_BACKTRACE="0")
        with open(os.path.join(TARGET, ".vx_native_lock"), "w") as lk:
            fcntl.flock(lk, fcntl.LOCK_EX)
            if not os.path.exists(binp):
                touch_sources(dst)
                p = subprocess.run(["cargo", "test", "--lib", "--offline", "-p", "rnacos", "--no-run", "--message-format=json"],
                                   cwd=dst, env=env, capture_output=True, text=True, timeout=timeout)
                exe = None
                for line in p.stdout.split("\n"):
                    if '"executable"' in line:
                        try:
                            j = _json.loads(line)
                            if j.get("executable") and j.get("profile", {}).get("test") and j.get("target", {}).get("name") == "rnacos":
                                exe = j["executable"]
                        except ValueError:
                            pass
                if p.returncode != 0 or not exe or not os.path.exists(exe):
                    return None
                # keep at most two binaries
                old = sorted((os.path.getmtime(os.path.join(BINCACHE, d)), d) for d in os.listdir(BINCACHE))
                for _t, d in old[:-1]:
                    shutil.rmtree(os.path.join(BINCACHE, d), ignore_errors=True)
                os.makedirs(os.path.dirname(binp), exist_ok=True)
                shutil.copy2(exe, binp + ".tmp")
                os.replace(binp + ".tmp", binp)
            else:
                os.utime(os.path.dirname(binp), None)
            env2 = dict(env, CARGO_MANIFEST_DIR=dst)
            p = subprocess.run([binp] + list(filters) + ["--nocapture", "--test-threads", "1"], cwd=dst, env=env2, capture_output=True, text=True, timeout=timeout)
        return p.returncode, p.stdout[-40000:] + "\n" + p.stderr[-40000:] + "\n[shared stand-in binary %s]\n" % key
    finally:
        shutil.rmtree(scratch, ignore_errors=True)


def run_native(mods, flt, repo="/repo", timeout=3600, extra_args=None, shared=False):
    """mods: list of (module file rel path, abs test file).  returns (rc, output)"""
    if shared and not os.environ.get("VERIF_NO_SHARED_BIN"):
        try:
            r = _run_shared(mods, [flt] + list(extra_args or []), repo, timeout)
        except Exception:
            r = None
        if r is not None:
            return r
    scratch, dst = _prepare(repo, mods)
    try:
        env = dict(os.environ, CARGO_NET_OFFLINE="true", CARGO_TARGET_DIR=TARGET, RUST_BACKTRACE="0")
        cmd = ["cargo", "test", "--lib", "--offline", "-p", "rnacos", flt, "--", "--nocapture", "--test-threads", "1"] + (extra_args or [])
        # one native build + run at a time: the test binary has the same file name for every scratch copy of the crate, so two
        # concurrent runs sharing the target dir could execute each other's binary
        import fcntl
        os.makedirs(TARGET, exist_ok=True)
        with open(os.path.join(TARGET, ".vx_native_lock"), "w") as lk:
            fcntl.flock(lk, fcntl.LOCK_EX)
            touch_sources(dst)
            p = subprocess.run(cmd, cwd=dst, env=env, capture_output=True, text=True, timeout=timeout)
        return p.returncode, p.stdout[-40000:] + "\n" + p.stderr[-40000:]
    finally:
        shutil.rmtree(scratch, ignore_errors=True)


if __name__ == "__main__":
    repo = "/repo"
    args = sys.argv[1:]
    if "--repo" in args:
        i = args.index("--repo"); repo = args[i + 1]; del args[i:i + 2]
    rc, out = run_native([(args[0], os.path.abspath(args[1]))], args[2], repo)
    print(out)
    sys.exit(rc)
