"""Assemble one Verus input file per unit from the *current* /repo working tree.

The function bodies are byte-exact slices of /repo/src (spans come from tools/vx-extract,
a syn-based parser).  Contracts, loop invariants and proof hints come from the unit's
sidecar `contracts.vs` and are spliced at structural anchors only (see DESIGN.md §2.1).
Every edit that is not a pure insertion of specification text is a numbered
transformation (T1..T13) and is recorded in the extraction manifest.
"""
import hashlib
import json
import os
import re
import subprocess
import tomllib

VERIF = os.path.dirname(os.path.dirname(os.path.abspath(__file__)))
REPO = os.environ.get("VERIF_REPO", "/repo")
# property the current run decides (set by check.py); None = all (try_unit, rebaseline).  Used by T19: the crash-point assertions are
# spliced only into the run of the properties a unit lists under `crashpoints_for`, so that a failing crash-point clause (which Verus
# ASSUMES from there on) cannot mask the clauses of the other properties further down in the same function
ACTIVE_PROP = None
CRASH_ACTIVE = True
VX = os.path.join(VERIF, ".cache", "vx-target", "release", "vx-extract")


class Undecided(Exception):
    """extraction / tooling problem: never an alarm (exit 2)"""


def ensure_vx():
    if os.path.exists(VX):
        return
    env = dict(os.environ, CARGO_NET_OFFLINE="true", CARGO_TARGET_DIR=os.path.join(VERIF, ".cache", "vx-target"))
    r = subprocess.run(["cargo", "build", "--release", "--offline"], cwd=os.path.join(VERIF, "tools", "vx-extract"),
                       env=env, capture_output=True, text=True)
    if r.returncode != 0 or not os.path.exists(VX):
        raise Undecided("cannot build vx-extract: " + r.stderr[-2000:])


_extract_cache = {}


def extract(path):
    """run vx-extract on an absolute path; returns (text_bytes, items)"""
    if path in _extract_cache:
        return _extract_cache[path]
    ensure_vx()
    r = subprocess.run([VX, path], capture_output=True, text=True)
    if r.returncode != 0:
        raise Undecided("vx-extract failed on %s: %s" % (path, r.stderr.strip()))
    j = json.loads(r.stdout)
    data = open(path, "rb").read()
    _extract_cache[path] = (data, j["items"])
    return _extract_cache[path]


# ----------------------------------------------------------------------------- contracts

class Contracts:
    """parsed contracts.vs: sections keyed by (item selector, anchor tuple)"""

    def __init__(self, text, fname="contracts.vs"):
        self.sections = {}   # item -> {anchor(str) -> text}
        self.flags = {}      # item -> {flag -> value}
        cur = None
        for ln, line in enumerate(text.split("\n"), 1):
            if line.startswith("@@"):
                parts = line[2:].split("#", 1)[0].split()
                if len(parts) < 2:
                    raise Undecided("%s:%d: bad section header" % (fname, ln))
                item, anchor = parts[0], parts[1:]
                a0 = anchor[0]
                if a0 in ("ret", "t8", "t8p", "t8o", "t10", "foriter", "external", "skip_body", "trait", "rename", "strip_mut", "t14", "nocanary", "effects", "effects_pass", "effects_sig", "crashpoints", "t20_calls", "replies"):
                    self.flags.setdefault(item, {}).setdefault(a0, []).append(anchor[1:])
                    cur = None
                    continue
                key = " ".join(anchor)
                if key in self.sections.setdefault(item, {}):
                    raise Undecided("%s:%d: duplicate section %s %s" % (fname, ln, item, key))
                self.sections[item][key] = []
                cur = self.sections[item][key]
            elif cur is not None:
                cur.append(line)
        for item in self.sections:
            for k in self.sections[item]:
                self.sections[item][k] = "\n".join(self.sections[item][k]).rstrip() + "\n"

    def get(self, item, key):
        return self.sections.get(item, {}).get(key)

    def flag(self, item, name):
        return self.flags.get(item, {}).get(name, [])

    def items(self):
        return set(self.sections) | set(self.flags)


DROP_ATTR_PATHS = {"derive", "bean", "serde", "rtype", "prost", "binrw", "allow", "doc", "inline", "br", "bw",
                   "brw", "async_trait", "cfg_attr", "must_use", "deprecated"}


STRUCTURAL = set()
DERIVED_DEFAULT = set()   # unit.toml: derived_default = [...] (T1: axiomatised compiler-generated Default)


def strip_attrs(data, item, tlog, keep_derive_copy=True):
    """return item text with proc-macro / derive attributes removed (T1, T2)"""
    s, e = item["start"], item["end"]
    text = data[s:e]
    cuts = []
    def collect(attrs):
        for a in attrs:
            root = a["path"].split("::")[0]
            if root == "derive":
                # keep Copy/PartialEq/Eq/Clone-on-Copy derives that Verus understands
                inner = a["text"]
                names = [x.strip() for x in re.sub(r"^#\[derive\(|\)\]$", "", inner).split(",") if x.strip()]
                keep = [n for n in names if n in ("Copy", "PartialEq", "Eq", "Hash", "PartialOrd", "Ord")]
                if "Copy" in names and "Clone" in names:
                    keep.append("Clone")
                if "PartialEq" in keep and "Eq" in keep and item["path"].split("::")[-1] in STRUCTURAL:   # unit.toml: structural = [...]
                    keep.append("Structural")   # Verus: exec `==` of a derived PartialEq+Eq type is structural equality
                rep = ("#[derive(%s)]" % ", ".join(keep)) if keep else ""
                cuts.append((a["start"] - s, a["end"] - s, rep.encode()))
                dropped = [n for n in names if n not in keep]
                if dropped:
                    tlog.append({"t": "T1", "item": item["path"], "dropped_derives": dropped})
            elif root in DROP_ATTR_PATHS:
                cuts.append((a["start"] - s, a["end"] - s, b""))
                if root != "doc":
                    tlog.append({"t": "T2", "item": item["path"], "attr": a["text"][:80]})
    collect(item.get("attrs", []))
    for f in item.get("fields", []) or []:
        collect(f.get("attrs", []))
    for v in item.get("variants", []) or []:
        collect(v.get("attrs", []))
        for f in v.get("fields", []) or []:
            collect(f.get("attrs", []))
    # T15: field visibility normalised to `pub` (Verus treats a struct with any non-pub field as opaque in pub specs)
    nvis = 0
    if item["kind"] == "struct" and item.get("named"):
        for f in item.get("fields", []) or []:
            fs = f["start"] - s
            # skip the field's own attributes
            astart = fs
            for a in f.get("attrs", []):
                astart = max(astart, a["end"] - s)
            seg = text[astart:f["end"] - s]
            m = re.match(rb"^(\s*)(pub\s*\([^)]*\)\s*|pub\s+)?", seg)
            vis = (m.group(2) or b"").strip()
            if vis != b"pub":
                cuts.append((astart + len(m.group(1)), astart + m.end(), b"pub "))
                nvis += 1
    if nvis:
        tlog.append({"t": "T15", "item": item["path"], "note": "%d field visibilities widened to pub" % nvis})
    for (a, b, rep) in sorted(cuts, reverse=True):
        text = text[:a] + rep + text[b:]
    # T15 (items): `struct X` / `pub(crate) struct X` -> `pub struct X` (specs that are `open` may only mention public types)
    m = re.search(rb"(?m)^(\s*)(pub\s*\([^)]*\)\s+|pub\s+)?(struct|enum)\b", text)
    if m and (m.group(2) or b"").strip() != b"pub":
        text = text[:m.start()] + m.group(1) + b"pub " + m.group(3) + text[m.end():]
        tlog.append({"t": "T15", "item": item["path"], "note": "item visibility widened to pub"})
    # T1: a dropped, compiler-generated Clone becomes an axiomatised structural clone
    dropped_clone = any(t.get("t") == "T1" and t.get("item") == item["path"] and "Clone" in t.get("dropped_derives", []) for t in tlog)
    if dropped_clone and item["kind"] in ("struct", "enum") and not (item.get("generics") or "").strip():
        name = item["path"].split("::")[-1]
        gen = item.get("generics") or ""
        if gen:
            params = [g.strip().split(":")[0].strip() for g in gen.strip("<>").split(",") if g.strip()]
            bounds = ", ".join("%s: Clone" % p_ if not p_.startswith("'") else p_ for p_ in params)
            hdr = "impl<%s> Clone for %s<%s>" % (bounds, name, ", ".join(params))
        else:
            hdr = "impl Clone for %s" % name
        text += ("\n%s {\n    #[verifier::external_body]\n    fn clone(&self) -> (r: Self)\n        ensures r == *self\n    { unimplemented!() }\n}\n" % hdr).encode()
    # T1: a dropped, compiler-generated Default of a plain struct with named fields that the unit lists under `derived_default` becomes an axiomatised default: Option fields are None,
    # bool fields false, integer fields 0; fields of other types are left unspecified (sound under-specification)
    dropped_default = any(t.get("t") == "T1" and t.get("item") == item["path"] and "Default" in t.get("dropped_derives", []) for t in tlog)
    if dropped_default and item["path"].split("::")[-1] in DERIVED_DEFAULT and item["kind"] == "struct" and item.get("named") and not (item.get("generics") or "").strip():
        name = item["path"].split("::")[-1]
        cl = []
        for f in item.get("fields", []) or []:
            ty = re.sub(r"\s+", "", f.get("ty") or "")
            if ty.startswith("Option<"):
                cl.append("r.%s is None" % f["name"])
            elif ty == "bool":
                cl.append("!r.%s" % f["name"])
            elif ty in ("u8", "u16", "u32", "u64", "usize", "i8", "i16", "i32", "i64", "isize"):
                cl.append("r.%s == 0" % f["name"])
        ens = ("\n        ensures " + ", ".join(cl)) if cl else ""
        text += ("\nimpl std::default::Default for %s {\n    #[verifier::external_body]\n    fn default() -> (r: Self)%s\n    { unimplemented!() }\n}\n" % (name, ens)).encode()
    return text


class Edit:
    def __init__(self):
        self.ins = []   # (offset, order, bytes)
        self.rep = []   # (start, end, bytes)

    def insert(self, off, text, order=0):
        if isinstance(text, str):
            text = text.encode()
        self.ins.append((off, order, len(self.ins), text))

    def replace(self, a, b, text):
        if isinstance(text, str):
            text = text.encode()
        self.rep.append((a, b, text))

    def split(self, a, b):
        """take the operations that lie inside [a, b] out of this Edit and return them as a new one (T20: the text of an
        async block / closure body is emitted somewhere else, with the edits that belong to it)"""
        inner = Edit()
        inner.ins = [i for i in self.ins if a <= i[0] <= b]
        inner.rep = [r for r in self.rep if a <= r[0] and r[1] <= b]
        self.ins = [i for i in self.ins if not (a <= i[0] <= b)]
        self.rep = [r for r in self.rep if not (a <= r[0] and r[1] <= b)]
        for r in self.rep:
            if r[0] < b and a < r[1]:
                raise Undecided("T20: an edit straddles the boundary of an async block")
        return inner

    def apply(self, data, start, end):
        """apply to data[start:end]; offsets are absolute in data"""
        ops = []
        for (off, order, seq, t) in self.ins:
            ops.append((off, 0, order, seq, off, t))
        for (a, b, t) in self.rep:
            ops.append((a, 1, 0, 0, b, t))
        # check replacements do not overlap
        reps = sorted(self.rep)
        for i in range(1, len(reps)):
            if reps[i][0] < reps[i - 1][1]:
                raise Undecided("overlapping replacements")
        out = []
        pos = start
        # process in order of offset; insertions at same offset keep (order, seq)
        ops.sort(key=lambda o: (o[0], o[1], o[2], o[3]))
        for (off, kind, order, seq, b, t) in ops:
            if off < pos:
                if kind == 0 and off >= start:
                    # insertion inside a replaced range: drop into output directly
                    out.append(t)
                    continue
                raise Undecided("edit out of order")
            out.append(data[pos:off])
            out.append(t)
            pos = b if kind == 1 else off
        out.append(data[pos:end])
        return b"".join(out)


def sel_item(items, sel, trait=None):
    """find item by path selector.  `Type::method` or `name`; for trait impl methods give trait"""
    def norm(p):
        # strip generic arguments of the self type:  PrivilegeGroup<T>::new -> PrivilegeGroup::new
        return re.sub(r"<[^:]*>(?=::|$)", "", p)
    cands = [it for it in items if (it["path"] == sel or norm(it["path"]) == sel) and it["kind"] in ("fn", "impl_fn", "struct", "enum", "const", "static", "type")]
    if trait is not None:
        nows = lambda s_: re.sub(r"\s+", "", s_ or "")     # `Trait<A, B>` may be written without the blank (section headers are blank-separated)
        cands = [it for it in cands if nows(it.get("trait")) == nows(trait)]
    elif len(cands) > 1:
        c2 = [it for it in cands if not it.get("trait")]
        if len(c2) == 1:
            cands = c2
    if len(cands) == 0:
        raise Undecided("lost anchor: item `%s`%s not found" % (sel, (" (trait %s)" % trait) if trait else ""))
    if len(cands) > 1:
        raise Undecided("ambiguous item `%s` (%d candidates)" % (sel, len(cands)))
    return cands[0]


CLAUSE_KW = ("requires", "ensures", "decreases", "recommends", "returns", "no_unwind", "opens_invariants", "default_ensures")


def canary_spec(spec):
    """same preconditions, postcondition `false` (vacuity guard): must FAIL to verify"""
    out = []
    skipping = False
    for line in spec.split("\n"):
        tok = line.strip().split(" ")[0] if line.strip() else ""
        tok = re.sub(r"\W.*$", "", tok)
        if tok in CLAUSE_KW:
            skipping = tok in ("ensures", "returns", "default_ensures")
        if not skipping:
            out.append(line)
    out.append("    ensures false,")
    return "\n".join(out) + "\n"


def emit_fn(data, it, ckey, C, tlog, anchors_used, canary=False):
    """returns bytes of the fn with contracts spliced"""
    f = it["fn"]
    ed = Edit()
    s, e = it["start"], it["end"]
    # attributes of the fn itself: drop proc-macro attrs, doc comments kept out
    for a in it.get("attrs", []):
        root = a["path"].split("::")[0]
        if a.get("inner"):
            continue   # inner doc comments inside the body are handled by T12
        if root in DROP_ATTR_PATHS:
            ed.replace(a["start"], a["end"], b"")
            if root != "doc":
                tlog.append({"t": "T2", "item": it["path"], "attr": a["text"][:80]})
    pre_attrs = C.get(ckey, "attrs") or ""
    external = bool(C.flag(ckey, "external"))
    if external:
        pre_attrs += "#[verifier::external_body]\n"
        tlog.append({"t": "T7", "item": it["path"], "note": "body not verified; contract assumed"})
    spec = C.get(ckey, "spec")
    if canary:
        spec = canary_spec(spec or "")
        tlog = []
    retname = (C.flag(ckey, "ret") or [["r"]])[0][0]
    if f["ret"] is not None and (spec is not None):
        ed.insert(f["ret"]["start"], "(%s: " % retname)
        ed.insert(f["ret"]["end"], ")", order=-1)
        tlog.append({"t": "T13", "item": it["path"], "note": "return value named `%s`" % retname})
    for sm in C.flag(ckey, "strip_mut"):
        # `mut x: T` parameter -> `x: T` + `let mut x = x;` at entry (Verus: mut params unsupported in specs)
        name = sm[0]
        found = False
        for inp in f["inputs"]:
            if inp["name"] == "mut " + name:
                ed.replace(inp["start"], inp["start"] + 4, b"")
                ed.insert(f["body_open"] + 1, " let mut %s = %s; " % (name, name), order=-5)
                tlog.append({"t": "T14", "item": it["path"], "note": "`mut %s` parameter rebound by `let mut %s = %s;`" % (name, name, name)})
                found = True
        if not found:
            raise Undecided("lost anchor: `mut %s` parameter of %s" % (name, it["path"]))
    if spec is not None:
        ed.insert(f["body_open"], "\n" + spec, order=0)
        anchors_used.add("spec")
    entry = C.get(ckey, "entry")
    if entry is not None:
        ed.insert(f["body_open"] + 1, "\n" + entry, order=0)
        anchors_used.add("entry")
    loops = {l["ord"]: l for l in f["loops"]}
    known = set()
    sect = C.sections.get(ckey, {})
    # T20: actor future chains `async move { B }.into_actor(self).map(|r, act, ctx| M).wait(ctx)`.  Verus has no model of async
    # BLOCKS (generator types), only of `async fn`.  Each chain listed in the sidecar (`chain K`: the captured variables with their
    # types, the block's result type) is lambda-lifted mechanically: the block body becomes the body of an associated
    # `async fn vx_async_<fn>_<K>(captures)`, and the chain expression becomes
    # `{ let r = Self::vx_async_<fn>_<K>(captures).await; let act = &mut *self; let ctx = &mut *ctx; M }` in a function that is
    # made `async`.  This is actix' meaning of `wait`: the actor handles no other message until the future has resolved and its
    # `map` closure has run with the actor (A-WAIT), given that nothing with an effect follows the chain in the same handler (checked).
    chain_cfg = {}
    for key in sect:
        kp = key.split()
        if kp[0] == "chain" and len(kp) == 2:
            cfg = {"captures": "", "returns": "()", "env": ""}
            for line in sect[key].splitlines():
                ls = line.strip()
                if ls.startswith("captures"):
                    cfg["captures"] = ls[len("captures"):].strip()
                elif ls.startswith("env"):
                    # the types of the handler's locals that a block MAY capture; which of them it does capture is read off the block
                    cfg["env"] += ("," if cfg["env"] else "") + ls[len("env"):].strip()
                elif ls.startswith("returns"):
                    cfg["returns"] = ls[len("returns"):].strip()
                elif ls.startswith("expose"):
                    # the value the waited future resolved to is handed out of the (unit) handler as a GHOST result, so that the
                    # handler's postcondition can say what the `map` closure made of it
                    cfg["expose"] = True
                elif ls and not ls.startswith("//"):
                    raise Undecided("bad line in `chain` section of %s: %s" % (ckey, ls))
            chain_cfg[int(kp[1])] = cfg
            anchors_used.add(key)
    chains = f.get("chains", [])
    allowed_encl = set()
    for K in chain_cfg:
        if K < 1 or K > len(chains):
            raise Undecided("lost anchor: actor future chain %d of %s (function now has %d)" % (K, it["path"], len(chains)))
        ch = chains[K - 1]
        if ch["encl"]:
            raise Undecided("unsupported construct: actor future chain %d of %s is itself inside a closure / async block" % (K, it["path"]))
        if ch["final"] != "wait":
            raise Undecided("unsupported construct: actor future chain %d of %s ends in `.%s(..)`, not `.wait(..)` (other messages may interleave)" % (K, it["path"], ch["final"]))
        if len(ch["maps"]) > 1:
            raise Undecided("unsupported construct: actor future chain %d of %s has %d `map` stages" % (K, it["path"], len(ch["maps"])))
        if not ch["async_block"].get("is_move"):
            raise Undecided("unsupported construct: actor future chain %d of %s: the async block is not `move`" % (K, it["path"]))
        allowed_encl.add((ch["async_block"]["start"], ch["async_block"]["end"]))
        for m_ in ch["maps"]:
            allowed_encl.add((m_["start"], m_["end"]))

    def in_foreign_closure(c_):
        """inside a closure / async block that T20 does not dissolve"""
        en = c_.get("encl")
        if en is None:
            return bool(c_.get("in_closure"))
        return any(tuple(x) not in allowed_encl for x in en)

    def chain_of(c_):
        """(K, 'block' | 'map') when the node lies in a dissolved chain, else None"""
        for K in chain_cfg:
            ch = chains[K - 1]
            if ch["async_block"]["start"] <= c_["start"] and c_["end"] <= ch["async_block"]["end"]:
                return (K, "block")
            for m_ in ch["maps"]:
                if m_["start"] <= c_["start"] and c_["end"] <= m_["end"]:
                    return (K, "map")
        return None

    t20_names = set(x for fl in C.flag(ckey, "t20_calls") for x in fl)
    for key, text in sect.items():
        parts = key.split()
        if parts[0] in ("spec", "attrs", "entry", "crash_inv", "crash_pre", "chain"):
            continue
        if parts[0] == "subst":
            # T18: literal expression rewrites `FROM => TO` (one per line) for spellings Verus cannot type (e.g. the
            # deref-coercion cast `(&s as &str)` == `s.as_str()`); every occurrence in the body; none found = lost anchor
            for line in text.splitlines():
                if "=>" not in line:
                    continue
                frm, to = [x.strip() for x in line.split("=>", 1)]
                sig0 = f["inputs"][0]["start"] if f["inputs"] else f["body_open"]
                body = data[sig0:f["body_close"]]      # parameter list + return type + body
                n = 0
                for m in re.finditer(re.escape(frm.encode()), body):
                    ed.replace(sig0 + m.start(), sig0 + m.end(), to)
                    n += 1
                if n == 0:
                    raise Undecided("lost anchor: `%s` not found in %s" % (frm, it["path"]))
                tlog.append({"t": "T18", "item": it["path"], "from": frm, "to": to, "occurrences": n})
            anchors_used.add(key)
            continue
        if parts[0] == "loop":
            n = int(parts[1])
            if n not in loops:
                raise Undecided("lost anchor: loop %d of %s (function now has %d loops)" % (n, it["path"], len(loops)))
            l = loops[n]
            if len(parts) == 2:
                ed.insert(l["body_open"], "\n" + text, order=0)
            elif parts[2] == "body_entry":
                ed.insert(l["body_open"] + 1, "\n" + text, order=0)
            elif parts[2] == "arm_entry":
                # T10 loops only: inside the `Some(pat) =>` arm, i.e. after the iterator has advanced
                ed.insert(l["body_open"] + 1, "\n" + text, order=20)
            elif parts[2] == "body_exit":
                ed.insert(l["body_close"], "\n" + text.rstrip("\n") + "\n    ", order=0)
            else:
                raise Undecided("bad anchor %s" % key)
        elif parts[0] == "havoc_loop":
            # T16: loop N is NOT verified: its text is replaced by the given statement (a call to a function with an
            # ASSUMED contract).  The loop text is kept as a comment; the evidence lists it as trusted code.
            n = int(parts[1])
            if n not in loops:
                raise Undecided("lost anchor: loop %d of %s (function now has %d loops)" % (n, it["path"], len(loops)))
            l = loops[n]
            ltxt = data[l["start"]:l["end"]]
            cm = b"\n".join(b"// T16| " + x for x in ltxt.replace(b"/*", b"/ *").replace(b"*/", b"* /").split(b"\n"))
            ed.replace(l["start"], l["end"], b"/* T16: loop %d not verified, replaced by an assumed-contract call */\n" % n + cm + b"\n" + text.encode())
            tlog.append({"t": "T16", "item": it["path"], "loop": n, "loop_sha256_16": sha(ltxt),
                         "note": "loop not verified: replaced by `%s` (assumed contract)" % text.strip().split("\n")[0][:120]})
        elif parts[0] in ("before_loop", "after_loop"):
            n = int(parts[1])
            if n not in loops:
                raise Undecided("lost anchor: loop %d of %s (function now has %d loops)" % (n, it["path"], len(loops)))
            l = loops[n]
            st = l.get("stmt") or {"start": l["start"], "end": l["end"]}
            if parts[0] == "before_loop":
                ed.insert(st["start"], text, order=0)
            else:
                end = st["end"]
                # include a trailing `;` if the statement has one right after
                ed.insert(end, "\n" + text, order=0)
        elif parts[0].startswith("before_return@"):
            # k-th `return` whose innermost enclosing loop is loop N (or `top`: outside every loop): robust against
            # returns being added / removed elsewhere in the function
            where = parts[0].split("@", 1)[1]
            k = int(parts[1])
            def innermost(r_):
                best = None
                for l_ in f["loops"]:
                    if l_["start"] <= r_["start"] and r_["end"] <= l_["end"]:
                        if best is None or (l_["end"] - l_["start"]) < (best["end"] - best["start"]):
                            best = l_
                return "top" if best is None else "loop%d" % best["ord"]
            cands = [r_ for r_ in f["returns"] if innermost(r_) == where]
            if k < 1 or k > len(cands):
                raise Undecided("lost anchor: return #%d in %s of %s (there are %d)" % (k, where, it["path"], len(cands)))
            r = cands[k - 1]
            ed.insert(r["start"], "{ " + text, order=0)
            ed.insert(r["end"], " }", order=-1)
        elif parts[0] == "before_return" and parts[1] == "*":
            # EVERY `return` of the function (a hint that is valid at each of them: robust against returns being added, removed or
            # reordered by a restructuring of the control flow)
            if not f["returns"]:
                raise Undecided("lost anchor: %s has no `return` any more" % it["path"])
            for r in f["returns"]:
                if r.get("in_closure"):
                    continue
                ed.insert(r["start"], "{ " + text, order=0)
                ed.insert(r["end"], " }", order=-1)
        elif parts[0] == "before_return":
            k = int(parts[1])
            rets = {r["ord"]: r for r in f["returns"]}
            if k not in rets:
                raise Undecided("lost anchor: return #%d of %s (function now has %d returns)" % (k, it["path"], len(rets)))
            r = rets[k]
            ed.insert(r["start"], "{ " + text, order=0)
            ed.insert(r["end"], " }", order=-1)
        elif parts[0] == "before_tail":
            if f["tail"] is None:
                raise Undecided("lost anchor: tail expression of %s" % it["path"])
            ed.insert(f["tail"]["start"], text, order=0)
        elif parts[0] == "exit":
            if f["tail"] is not None and f["ret"] is not None:
                raise Undecided("anchor `exit` on %s, which has a tail expression (use before_tail)" % it["path"])
            ed.insert(f["body_close"], text.rstrip("\n") + "\n    ", order=0)
        elif parts[0] in ("before_call", "after_call"):
            # the statement that holds the K-th call (source order of the call expressions' start) of a function / method
            # named NAME, at any nesting depth: `after_call remove_config 1`
            nm, k = parts[1], int(parts[2]) if len(parts) > 2 else 1
            cands = sorted([c for c in f.get("calls", []) if c["name"] == nm and not in_foreign_closure(c)], key=lambda c: c["start"])
            if k < 1 or k > len(cands):
                raise Undecided("lost anchor: call #%d of `%s` in %s (there are %d)" % (k, nm, it["path"], len(cands)))
            st = cands[k - 1].get("stmt")
            if not st:
                raise Undecided("lost anchor: call #%d of `%s` in %s is not inside a statement" % (k, nm, it["path"]))
            if parts[0] == "before_call":
                ed.insert(st["start"], text, order=0)
            else:
                ed.insert(st["end"], "\n" + text, order=0)
        elif parts[0] == "before_stmt":
            # top-level statement ordinal (1-based) of the fn body
            k = int(parts[1])
            if k < 1 or k > len(f["stmts"]):
                raise Undecided("lost anchor: statement #%d of %s" % (k, it["path"]))
            ed.insert(f["stmts"][k - 1]["start"], text, order=0)
        else:
            raise Undecided("unknown anchor `%s` for %s" % (key, ckey))
        anchors_used.add(key)
    # T8: for p in &X  ->  for p in X.iter()
    for t8 in C.flag(ckey, "t8"):
        n = int(t8[0])
        if n not in loops or loops[n]["kind"] != "for":
            raise Undecided("lost anchor: T8 for-loop %d of %s" % (n, it["path"]))
        l = loops[n]
        ex = data[l["expr"]["start"]:l["expr"]["end"]].decode()
        m = re.match(r"^&\s*(mut\s+)?(.*)$", ex, re.S)
        if not m:
            raise Undecided("T8 not applicable to loop %d of %s: `%s`" % (n, it["path"], ex))
        meth = "iter_mut" if m.group(1) else "iter"
        ed.replace(l["expr"]["start"], l["expr"]["end"], "%s.%s()" % (m.group(2), meth))
        tlog.append({"t": "T8", "item": it["path"], "loop": n, "from": ex, "to": "%s.%s()" % (m.group(2), meth)})
    # T8 (plain form): `for p in E` where E is already a reference to a std collection -> `for p in E.iter()`
    for t8 in C.flag(ckey, "t8p") + [x + ["owned"] for x in C.flag(ckey, "t8o")]:
        n = int(t8[0])
        if n not in loops or loops[n]["kind"] != "for":
            raise Undecided("lost anchor: T8 for-loop %d of %s" % (n, it["path"]))
        l = loops[n]
        ex = data[l["expr"]["start"]:l["expr"]["end"]].decode()
        if not re.match(r"^[A-Za-z_][A-Za-z0-9_\.]*$", ex):
            raise Undecided("T8p not applicable to loop %d of %s: `%s`" % (n, it["path"], ex))
        ed.replace(l["expr"]["start"], l["expr"]["end"], "%s.iter()" % ex)
        tlog.append({"t": "T8", "item": it["path"], "loop": n, "from": ex, "to": "%s.iter()" % ex,
                     "note": ("E is an OWNED std collection that is not used after the loop: iterated by reference instead of by value; the body type-checks "
                              "with `&T` items (auto-ref on method calls), the elements are dropped after the loop instead of one by one")
                             if "owned" in t8 else "E is a shared reference to a std collection: IntoIterator for &C is C::iter()"})
    # T17: effect log.  The function gets a trailing ghost parameter `Tracked(vx_log): Tracked<&mut VxLog>`; the message
    # argument of every call named in `effects` is wrapped in `vx_note(.., Tracked(vx_log))` (identity at run time, appends
    # eff_of(message) to the ghost log); calls named in `effects_pass` get the log as a trailing argument.
    eff_names = set(x for fl in C.flag(ckey, "effects") for x in fl)
    pass_names = set(x for fl in C.flag(ckey, "effects_pass") for x in fl)
    if eff_names or pass_names or C.flag(ckey, "effects_sig"):
        if not f["inputs"]:
            raise Undecided("T17: %s has no parameters" % it["path"])
        ed.insert(f["inputs"][-1]["end"], ", Tracked(vx_log): Tracked<&mut VxLog>" + (", Tracked(vx_replies): Tracked<&mut VxReplies>" if C.flag(ckey, "replies") else ""), order=-2)
        nw = npass = nrep = 0
        reply_names = set(x for fl in C.flag(ckey, "replies") for x in fl)
        for c in f.get("calls", []):
            if in_foreign_closure(c):
                if c["name"] in eff_names or c["name"] in pass_names:
                    raise Undecided("unsupported construct: effectful call `%s` inside a closure / async block of %s" % (c["name"], it["path"]))
                continue
            if c["name"] in eff_names and c.get("method"):
                if len(c["args"]) != 1:
                    raise Undecided("T17: `%s` call with %d arguments in %s" % (c["name"], len(c["args"]), it["path"]))
                a = c["args"][0]
                recv = data[c["recv"]["start"]:c["recv"]["end"]].decode() if c.get("recv") else ""
                # a plain place expression, optionally followed by pure accessors (`.as_ref().unwrap()`, `.clone()`)
                if not re.match(r"^[A-Za-z_][A-Za-z0-9_]*(\s*\.\s*[A-Za-z_][A-Za-z0-9_]*)*(\s*\.\s*(as_ref|unwrap|clone)\s*\(\s*\))*$", recv):
                    # the receiver is named twice in the rewritten call, so it must be a plain place expression
                    raise Undecided("unsupported construct: receiver `%s` of effectful call `%s` in %s is not a plain path" % (recv[:60], c["name"], it["path"]))
                ed.insert(a["start"], "vx_note(&%s, " % re.sub(r"\s+", "", recv), order=-2)
                ed.insert(a["end"], ", Tracked(vx_log))", order=-2)
                nw += 1
                if c["name"] in reply_names:
                    # reply log: `X.send(M).await` -> `vx_reply(X.send(M).await, log)` (identity on the awaited value; the value is
                    # appended to the ghost reply sequence, so that a postcondition can say what the function made of the answer)
                    aw = [w_ for w_ in f.get("await_spans", []) if w_["base"]["start"] == c["start"] and w_["base"]["end"] == c["end"]]
                    if len(aw) != 1:
                        raise Undecided("T17: the `%s` call of %s whose reply is to be logged is not awaited directly" % (c["name"], it["path"]))
                    ed.insert(aw[0]["start"], "vx_reply(", order=-4)
                    ed.insert(aw[0]["end"], ", Tracked(vx_replies))", order=-4)
                    nrep += 1
            elif c["name"] in pass_names:
                if not c["args"]:
                    if data[c["end"] - 1:c["end"]] != b")":
                        raise Undecided("T17: `%s` call without arguments in %s" % (c["name"], it["path"]))
                    ed.insert(c["end"] - 1, "Tracked(vx_log)", order=-2)
                else:
                    ed.insert(c["args"][-1]["end"], ", Tracked(vx_log)", order=-2)
                npass += 1
        tlog.append({"t": "T17", "item": it["path"], "wrapped_calls": nw, "passed_on": npass, "replies_logged": nrep,
                     "note": "ghost effect log threaded through the signature; message arguments of %s wrapped in vx_note(&RECEIVER, ARG, log) (run-time identity on ARG; the receiver must be a plain field path / local)" % sorted(eff_names)})
    # T19: crash points.  After EVERY statement that holds a call of one of the listed file-mutating methods (`write_all`, `set_len`)
    # the ghost assertion given in the `crash_inv` section is inserted: the invariant that must hold of the disk image at every
    # instant between two file mutations.  The places come from the syn call spans of the CURRENT text — a mutation that is added,
    # removed, split in two or moved gets / loses / moves its check with it; no sidecar line says where the writes are.
    cp_names = set(x for fl in C.flag(ckey, "crashpoints") for x in fl)
    if cp_names and CRASH_ACTIVE:
        inv = C.get(ckey, "crash_inv")
        if inv is None:
            raise Undecided("T19: %s has `crashpoints` but no `crash_inv` section" % ckey)
        anchors_used.add("crash_inv")
        ncp = 0
        for c in sorted(f.get("calls", []), key=lambda c_: c_["start"]):
            if c["name"] not in cp_names or not c.get("method"):
                continue
            if c.get("in_closure"):
                raise Undecided("unsupported construct: file mutation `%s` inside a closure / async block of %s" % (c["name"], it["path"]))
            st = c.get("stmt")
            if not st:
                raise Undecided("lost anchor: file mutation `%s` in %s is not inside a statement" % (c["name"], it["path"]))
            ncp += 1
            pre = C.get(ckey, "crash_pre")
            if pre is not None:
                # ghost snapshot taken just before the mutation (same text at every point)
                ed.insert(st["start"], pre.replace("$N", str(ncp)), order=50)
                anchors_used.add("crash_pre")
            ed.insert(st["end"], "\n" + inv.replace("$N", str(ncp)), order=50)
        tlog.append({"t": "T19", "item": it["path"], "crash_points": ncp,
                     "note": "ghost assertion `crash_inv` inserted after every statement holding a call of %s (erased before compilation)" % sorted(cp_names)})
    for fi in C.flag(ckey, "foriter"):
        n = int(fi[0]); nm = fi[1]
        if n not in loops or loops[n]["kind"] != "for":
            raise Undecided("lost anchor: for-loop %d of %s" % (n, it["path"]))
        ed.insert(loops[n]["expr"]["start"], "%s: " % nm, order=-3)
        tlog.append({"t": "T13", "item": it["path"], "note": "for-loop %d iterator named `%s`" % (n, nm)})
    # T10: for with continue -> loop { match it.next() {..} }
    for t10 in C.flag(ckey, "t10"):
        n = int(t10[0])
        if n not in loops or loops[n]["kind"] != "for":
            raise Undecided("lost anchor: T10 for-loop %d of %s" % (n, it["path"]))
        l = loops[n]
        itn = "vx_it_%d" % n
        pat = data[l["pat"]["start"]:l["pat"]["end"]].decode()
        ex = data[l["expr"]["start"]:l["expr"]["end"]].decode()
        # header `for PAT in EXPR` -> `let mut it = IntoIterator::into_iter(EXPR); loop`
        ed.replace(l["start"], l["expr"]["end"],
                   "let mut %s = IntoIterator::into_iter(%s);\nloop" % (itn, ex))
        ed.insert(l["body_open"] + 1, " match %s.next() { None => { break; } Some(%s) => {" % (itn, pat), order=10)
        ed.insert(l["body_close"], " } }", order=10)
        tlog.append({"t": "T10", "item": it["path"], "loop": n})
    # T12: inner doc comments in body
    body = data[f["body_open"]:f["body_close"]]
    for m in re.finditer(rb"^[ \t]*//![^\n]*\n", body, re.M):
        ed.replace(f["body_open"] + m.start(), f["body_open"] + m.end(), b"\n")
        tlog.append({"t": "T12", "item": it["path"]})
    has_log = bool(eff_names or pass_names or C.flag(ckey, "effects_sig"))
    lifted = []
    make_async = False
    if t20_names:
        # calls of functions that T20 turned into `async fn`s are awaited (they run their future chain in line, A-WAIT)
        n_aw = 0
        for c in f.get("calls", []):
            if c["name"] in t20_names and not in_foreign_closure(c):
                ed.insert(c["end"], ".await", order=-1)
                n_aw += 1
            elif c["name"] in t20_names:
                raise Undecided("unsupported construct: call of `%s` inside a closure / async block of %s" % (c["name"], it["path"]))
        if n_aw == 0:
            raise Undecided("lost anchor: no call of %s in %s" % (sorted(t20_names), it["path"]))
        # A-WAIT order for CALLERS: in the real program everything that follows the call in this handler runs BEFORE the callee's
        # waited future.  The in-line model is only right when nothing follows: an awaited call must be in TAIL position of the
        # handler (through blocks / if / match arms), directly followed by `return`, or followed only by a constructor-only tail
        # expression (`Ok(Resp::None)`); the places come from the syn tree (`tail_spans`).
        tails = [tuple(x) for x in f.get("tail_spans", [])]
        for c in f.get("calls", []):
            if c["name"] not in t20_names or in_foreign_closure(c):
                continue
            if not any(a_ <= c["start"] and c["end"] <= b_ for (a_, b_) in tails):
                raise Undecided("unsupported construct: the call of `%s` in %s is not in tail position (what follows it would run BEFORE that handler's waited future)" % (c["name"], it["path"]))
        make_async = True
        tlog.append({"t": "T20", "item": it["path"], "awaited_calls": n_aw,
                     "note": "calls of %s (functions whose actor future chain is run in line) are awaited; the function is made `async`" % sorted(t20_names)})
    for K in sorted(chain_cfg, reverse=True):
        ch = chains[K - 1]
        cfg = chain_cfg[K]
        blk = ch["async_block"]
        # A-WAIT order: what follows the chain in the same handler runs BEFORE the future in the real program
        for c in f.get("calls", []):
            if c["start"] >= ch["end"] and chain_of(c) is None and (c["name"] in eff_names or c["name"] in pass_names or c["name"] in t20_names):
                raise Undecided("unsupported construct: effectful call `%s` after the `.wait(..)` chain %d of %s (it would run before the future)" % (c["name"], K, it["path"]))
        lname = "vx_async_%s_%d" % (f["name"], K)
        ltail = C.get(ckey, "chain %d before_tail" % K)
        if ltail is not None:
            if not ch.get("block_tail"):
                raise Undecided("lost anchor: tail expression of the async block of chain %d of %s" % (K, it["path"]))
            anchors_used.add("chain %d before_tail" % K)
        inner = ed.split(blk["body_open"] + 1, blk["body_close"])
        btxt = inner.apply(data, blk["body_open"] + 1, blk["body_close"])
        caps = [x.strip() for x in split_top(cfg["captures"]) if x.strip()]
        for ev in [x.strip() for x in split_top(cfg["env"]) if x.strip()]:
            mm = re.match(r"^(?:mut\s+)?([A-Za-z_][A-Za-z0-9_]*)\s*:", ev)
            if not mm:
                raise Undecided("bad env entry `%s` in chain %d of %s" % (ev, K, ckey))
            if mm.group(1) in ch.get("idents", []):
                caps.append(ev)
        cap_names = []
        for c_ in caps:
            mm = re.match(r"^(?:mut\s+)?([A-Za-z_][A-Za-z0-9_]*)\s*:", c_)
            if not mm:
                raise Undecided("bad capture `%s` in chain %d of %s" % (c_, K, ckey))
            cap_names.append(mm.group(1))
        # a captured local that the block mutates (`mut x: T` in the env table) is a plain parameter rebound mutably at entry
        # (Verus: `mut` parameters cannot be mentioned in specs)
        rebind = "".join(" let mut %s = %s;" % (n_, n_) for c_, n_ in zip(caps, cap_names) if re.match(r"^mut\s", c_))
        caps = [re.sub(r"^mut\s+", "", c_) for c_ in caps]
        params = ", ".join(caps + (["Tracked(vx_log): Tracked<&mut VxLog>"] if has_log else []))
        args = ", ".join(cap_names + (["Tracked(vx_log)"] if has_log else []))
        def cond_lines(txt):
            """lines `?NAME rest` are kept (as `rest`) only when NAME is among the captured variables, `?!NAME rest` only when it is not:
            a clause about a variable can only be stated when the block has it"""
            out_ = []
            for ln_ in txt.splitlines():
                mm_ = re.match(r"^(\s*)\?(!?)([A-Za-z_][A-Za-z0-9_]*)\s(.*)$", ln_)
                if mm_:
                    if (mm_.group(3) in cap_names) != bool(mm_.group(2)):
                        out_.append(mm_.group(1) + mm_.group(4))
                else:
                    out_.append(ln_)
            return "\n".join(out_) + ("\n" if txt.endswith("\n") else "")
        if ltail is not None:
            inner.insert(ch["block_tail"]["start"], cond_lines(ltail), order=0)
            btxt = inner.apply(data, blk["body_open"] + 1, blk["body_close"])
        lspec = cond_lines(C.get(ckey, "chain %d spec" % K) or "")
        lentry = cond_lines(C.get(ckey, "chain %d entry" % K) or "")
        if lspec:
            anchors_used.add("chain %d spec" % K)
        if lentry:
            anchors_used.add("chain %d entry" % K)
        lifted.append(("// T20: body of the `async move` block of actor future chain %d of %s, lambda-lifted (captures become parameters)\n"
                       "async fn %s(%s) -> (r: %s)\n%s{%s\n%s" % (K, f["name"], lname, params, cfg["returns"], lspec, rebind, lentry)).encode() + btxt + b"\n    }\n")   # (indented: a `}` in column 0 ends the impl for the diagnostics' line map)
        # the chain expression in the handler
        call = "%s%s(%s).await" % ("Self::" if it["kind"] == "impl_fn" else "", lname, args)
        if ch["maps"]:
            m_ = ch["maps"][0]
            mb = m_["body"]
            minner = ed.split(mb["start"], mb["end"])
            mtxt = minner.apply(data, mb["start"], mb["end"]).decode()
            ps = [p_["text"] for p_ in m_["params"]]
            if len(ps) != 3:
                raise Undecided("unsupported construct: `map` closure of chain %d of %s takes %d parameters" % (K, it["path"], len(ps)))
            ghost_copy = ""
            if cfg.get("expose"):
                pn = re.match(r"^\s*(?:mut\s+)?([A-Za-z_][A-Za-z0-9_]*)", ps[0])
                if not pn:
                    raise Undecided("T20 expose: the first parameter of the `map` closure of chain %d of %s is not a plain name" % (K, it["path"]))
                ghost_copy = " proof { vx_chain = Some(%s); }" % pn.group(1)
            rep = "{ let %s = %s;%s let %s = &mut *self; let %s = &mut *%s; %s }" % (ps[0], call, ghost_copy, ps[1], ps[2], ch["final_arg"], mtxt)
        else:
            rep = "{ let _ = %s; }" % call
        # nothing else may have been planned inside the chain expression
        leftovers = ed.split(ch["start"], ch["end"])
        if leftovers.ins or leftovers.rep:
            raise Undecided("T20: edits inside actor future chain %d of %s outside its block / map bodies" % (K, it["path"]))
        ed.replace(ch["start"], ch["end"], rep)
        make_async = True
        tlog.append({"t": "T20", "item": it["path"], "chain": K, "lifted_fn": lname, "captures": caps, "block_sha256_16": sha(data[blk["start"]:blk["end"]]),
                     "note": "`async move {B}.into_actor(self).map(|r, act, ctx| M).wait(ctx)` -> `{ let r = %s(captures).await; let act = &mut *self; let ctx = &mut *ctx; M }`; "
                             "B is the verbatim block body; the function is made `async` (A-WAIT: actix runs the future and its map closure before the next message; nothing effectful follows the chain)" % lname})
    if make_async and not f.get("is_async"):
        ed.insert(f["sig_start"], "async ", order=-9)
    if make_async and f["ret"] is None:
        # measured: this Verus drops the `ensures` of an `async fn` that returns `()` at its `.await` sites (a non-unit result keeps
        # them).  A unit handler that T20 made async therefore returns the one-value type `VxDone`: `-> (vx_done: VxDone)`, the body
        # becomes `{ { BODY }; VxDone::Done }`, every bare `return;` of the handler becomes `return VxDone::Done;`.
        exposed = [K_ for K_ in chain_cfg if chain_cfg[K_].get("expose")]
        if len(exposed) > 1:
            raise Undecided("T20 expose: more than one exposed chain in %s" % it["path"])
        if exposed:
            rty = chain_cfg[exposed[0]]["returns"]
            done_ty, done_val = "VxOut<%s>" % rty, "VxOut { chain: Ghost(vx_chain) }"
            ed.insert(f["body_open"] + 1, " let ghost mut vx_chain: Option<%s> = None; " % rty, order=-21)
        else:
            done_ty, done_val = "VxDone", "VxDone::Done"
        ed.insert(f["body_open"], " -> (vx_done: %s) " % done_ty, order=-8)
        ed.insert(f["body_open"] + 1, " { ", order=-20)
        ed.insert(f["body_close"], " }; %s " % done_val, order=90)
        nret = 0
        for r_ in f["returns"]:
            where = chain_of(r_)
            if in_foreign_closure(r_) or (where and where[1] == "block"):
                continue
            if where and where[1] == "map":
                raise Undecided("unsupported construct: `return` inside the `map` closure of an actor future chain of %s" % it["path"])
            if data[r_["start"]:r_["end"]].strip() != b"return":
                raise Undecided("unsupported construct: `return` with a value in the unit function %s" % it["path"])
            ed.insert(r_["end"], " " + done_val, order=-3)
            nret += 1
        tlog.append({"t": "T20", "item": it["path"], "note": "unit result of the now-async handler replaced by the one-value type VxDone (%d bare `return;` rewritten): Verus keeps the contract of an async fn only when its result is not `()`" % nret})
    if C.flag(ckey, "skip_body"):
        # contract proved in another unit: only the signature + contract are emitted here
        ed2 = Edit()
        ed2.ins = [i for i in ed.ins if i[0] <= f["body_open"]]
        ed2.rep = [r_ for r_ in ed.rep if r_[1] <= f["body_open"]]
        ed2.replace(f["body_open"], f["body_close"] + 1, "{ unimplemented!() }")
        ed = ed2
    out = ed.apply(data, s, e)
    for an, av in (it.get("_assoc") or {}).items():
        out = re.sub(rb"\bSelf\s*::\s*" + an + rb"\b", av, out)
    if canary:
        out = re.sub(rb"\bfn\s+" + f["name"].encode() + rb"\b", b"fn " + f["name"].encode() + b"_vxcanary", out, count=1)
    if pre_attrs:
        out = pre_attrs.encode() + out
    if lifted and not canary:
        out = out + b"\n" + b"\n".join(reversed(lifted))
    return out


def _other_branch(data, a, b):
    """True when the text between two statements leaves the block of the first one (a closing brace that is not matched by an
    opening one in between): the second statement then belongs to another branch / match arm or to an enclosing block"""
    depth = 0
    for ch in data[a:b].decode(errors="replace"):
        if ch == "{":
            depth += 1
        elif ch == "}":
            depth -= 1
            if depth < 0:
                return True
    return False


def split_top(s):
    """split at commas that are not nested in <>, (), []"""
    out, depth, cur = [], 0, ""
    for ch in s:
        if ch in "<([":
            depth += 1
        elif ch in ">)]":
            depth -= 1
        if ch == "," and depth == 0:
            out.append(cur)
            cur = ""
        else:
            cur += ch
    out.append(cur)
    return out


def sha(b):
    return hashlib.sha256(b).hexdigest()[:16]


def find_lazy_static(data, items, name):
    """T6: locate `static ref NAME: TY = EXPR;` inside a lazy_static! block; returns (ty, expr, abs_start, abs_end)"""
    for it in items:
        if it["kind"] != "macro" or not it["path"].endswith("lazy_static"):
            continue
        body = data[it["body"]["start"]:it["body"]["end"]].decode()
        m = re.search(r"static\s+ref\s+" + re.escape(name) + r"\s*:\s*", body)
        if not m:
            continue
        i = m.end()
        depth = 0
        ty_end = None
        while i < len(body):
            c = body[i]
            if c in "<([{":
                depth += 1
            elif c in ">)]}":
                depth -= 1
            elif c == "=" and depth == 0:
                ty_end = i
                break
            i += 1
        if ty_end is None:
            continue
        j = ty_end + 1
        depth = 0
        instr = False
        while j < len(body):
            c = body[j]
            if instr:
                if c == "\\":
                    j += 1
                elif c == '"':
                    instr = False
            elif c == '"':
                instr = True
            elif c in "([{":
                depth += 1
            elif c in ")]}":
                depth -= 1
            elif c == ";" and depth == 0:
                break
            j += 1
        ty = body[m.end():ty_end].strip()
        expr = body[ty_end + 1:j].strip()
        return ty, expr, it["body"]["start"] + m.start(), it["body"]["start"] + j + 1
    raise Undecided("lost anchor: lazy_static `%s` not found" % name)


LAZY_TMPL = """pub struct VxLazy_%(n)s {}
exec static %(n)s: VxLazy_%(n)s = VxLazy_%(n)s {};
pub open spec fn vx_lit_%(n)s() -> Seq<char> { "%(lit)s"@ }
impl std::ops::Deref for VxLazy_%(n)s {
    type Target = Arc<String>;
    #[verifier::external_body]
    fn deref(&self) -> (r: &Arc<String>)
        ensures (**r)@ == vx_lit_%(n)s()
    { unimplemented!() }
}
"""


def emit_lazy_static(name, ty, expr, tlog):
    """T6: a lazy_static of an Arc<String> literal becomes a static with a Deref whose contract is the literal"""
    m = re.match(r'^Arc::new\(\s*"((?:[^"\\]|\\.)*)"\s*\.\s*(?:to_string|to_owned)\(\)\s*\)$', expr)
    if not (m and re.sub(r"\s", "", ty) == "Arc<String>"):
        raise Undecided("T6: unsupported lazy_static initialiser for %s: %s = %s" % (name, ty, expr))
    lit = m.group(1)
    tlog.append({"t": "T6", "item": name, "note": "lazy_static literal %r modelled as a static with Deref contract" % lit})
    return (LAZY_TMPL % {"n": name, "lit": lit}).encode()


import threading
_ASSEMBLE_LOCK = threading.Lock()


def assemble_unit(unit_dir, repo=None, canary=False):
    """returns dict(text, manifest, transformations, fn_lines, unit)
    (the per-unit settings STRUCTURAL / DERIVED_DEFAULT / CRASH_ACTIVE are module globals and check.py assembles units from several
    threads: one unit is assembled at a time; the Verus runs stay parallel)"""
    with _ASSEMBLE_LOCK:
        return _assemble_unit(unit_dir, repo, canary)


def _assemble_unit(unit_dir, repo=None, canary=False):
    repo = repo or REPO
    unit = tomllib.load(open(os.path.join(unit_dir, "unit.toml"), "rb"))
    C = Contracts(open(os.path.join(unit_dir, "contracts.vs")).read()) if os.path.exists(os.path.join(unit_dir, "contracts.vs")) else Contracts("")
    # contracts proved in another unit and only *used* here (modular verification: callers see the contract, not the body)
    wanted = set()
    for src_ in unit.get("source", []):
        wanted |= set(src_["items"])
    for other in unit.get("contracts_from", []):
        OC = Contracts(open(os.path.join(VERIF, "units", other, "contracts.vs")).read(), other + "/contracts.vs")
        for item in OC.items():
            if item in wanted and item not in C.sections and item not in C.flags:
                if item in OC.sections:
                    C.sections[item] = dict(OC.sections[item])
                if item in OC.flags:
                    C.flags[item] = dict(OC.flags[item])
    global CRASH_ACTIVE
    CRASH_ACTIVE = (ACTIVE_PROP is None) or (ACTIVE_PROP in unit.get("crashpoints_for", []))
    STRUCTURAL.clear()
    STRUCTURAL.update(unit.get("structural", []))
    DERIVED_DEFAULT.clear()
    DERIVED_DEFAULT.update(unit.get("derived_default", []))
    for item in unit.get("assumed", []):
        if item not in wanted:
            raise Undecided("unit.toml: assumed item %s is not listed in a source" % item)
        # keep only the contract, drop proof hints: the body is not verified here
        sec = C.sections.get(item, {})
        C.sections[item] = {k: v for k, v in sec.items() if k in ("spec", "attrs")}
        C.flags.setdefault(item, {})["external"] = [[]]
        C.flags[item]["skip_body"] = [[]]
        C.flags[item].pop("t8", None); C.flags[item].pop("t10", None); C.flags[item].pop("foriter", None)
    tlog = []
    manifest = []
    pieces = []
    header = ["#![allow(unused_imports, unused_variables, dead_code, unused_mut, non_snake_case, unused_parens, unused_assignments, non_camel_case_types, unreachable_code, non_upper_case_globals)]"]
    if unit.get("features"):
        header.insert(0, "#![feature(%s)]" % ", ".join(unit["features"]))
    pieces.append("\n".join(header) + "\n")
    pieces.append("use vstd::prelude::*;\nuse vstd::std_specs::iter::IteratorSpec;\n")
    for u_ in unit.get("uses", []):
        pieces.append("use %s;\n" % u_)
    for sh in unit.get("shims", []):
        p = os.path.join(VERIF, "shims", sh + ".rs")
        pieces.append("// ---- shim %s ----\n" % sh + open(p).read() + "\n")
    for sp in unit.get("spec", []):
        p = os.path.join(unit_dir, sp)
        pieces.append("// ---- spec %s ----\n" % sp + open(p).read() + "\n")
    for et in unit.get("expect_text", []):
        # the hand-written model of a macro-generated item is only valid while the macro input is unchanged
        pth = os.path.join(repo, et["file"])
        txt = open(pth).read() if os.path.exists(pth) else ""
        norm = lambda x: re.sub(r"\s+", " ", x)
        if norm(et["contains"]) not in norm(txt):
            raise Undecided("model out of date: %s no longer contains `%s` (%s)" % (et["file"], et["contains"], et.get("why", "")))
        tlog.append({"t": "T6", "item": et["file"], "note": "macro input checked verbatim: " + et["contains"][:60]})
    for sb in unit.get("same_block", []):
        # an assumed contract that is proved in another unit: the clause text between `<<abstract:NAME` and `>>abstract` must be the same
        def blocks(path_):
            txt_ = open(os.path.join(VERIF, path_)).read()
            out_ = {}
            for m_ in re.finditer(r"<<abstract:(\w+)[^\n]*\n(.*?)//\s*>>abstract", txt_, re.S):
                out_[m_.group(1)] = re.sub(r"\s+", " ", m_.group(2)).strip().rstrip(",")
            return out_
        ba, bb = blocks(sb["a"]), blocks(sb["b"])
        for nm in sb["names"]:
            if nm not in ba or nm not in bb or ba[nm] != bb[nm]:
                raise Undecided("assumed contract out of sync: block `%s` of %s and %s differ" % (nm, sb["a"], sb["b"]))
        tlog.append({"t": "T7", "item": sb["a"], "note": "assumed contract blocks %s are textually those proved in %s" % (sb["names"], sb["b"])})
    used_items = set()
    canary_fns = []
    body = []
    for src in unit.get("source", []):
        path = os.path.join(VERIF if src.get("root") == "verif" else repo, src["file"])   # root = "verif": a reference function kept in /verif
        if not os.path.exists(path):
            raise Undecided("lost anchor: file %s does not exist" % src["file"])
        data, items = extract(path)
        cur_impl = None
        for sel in src["items"]:
            trait = None
            ckey = sel
            if sel.startswith("lazy_static:"):
                nm = sel.split(":", 1)[1]
                ty, expr, a, b = find_lazy_static(data, items, nm)
                if cur_impl is not None:
                    body.append(b"}\n")
                    cur_impl = None
                raw = data[a:b]
                body.append(("// ---- lazy_static %s [%s:%d..%d sha %s]\n" % (nm, src["file"], a, b, sha(raw))).encode())
                body.append(emit_lazy_static(nm, ty, expr, tlog))
                manifest.append({"item": sel, "kind": "lazy_static", "file": src["file"], "span": [a, b],
                                 "sha256_16": sha(raw), "anchors": [], "external": False})
                used_items.add(ckey)
                continue
            m = re.match(r"^(.+)@(.+)$", sel)   # Type::method@Trait  = method of `impl Trait for Type`
            if m:
                trait = m.group(2)
                sel_path = m.group(1)
            else:
                sel_path = sel
            it = sel_item(items, sel_path, trait)
            used_items.add(ckey)
            if it["kind"] == "impl_fn":
                hdr = "impl%s %s" % ((it.get("impl_generics") or ""), it["self_ty"])
                if trait is None:
                    for im in items:
                        if im["kind"] == "impl" and im["start"] == it.get("impl_start") and not im.get("trait"):
                            hdr = im["header"].strip()
                if cur_impl != hdr:
                    if cur_impl is not None:
                        body.append(b"}\n")
                    body.append((hdr + " {\n").encode())
                    cur_impl = hdr
                if trait is not None:
                    tlog.append({"t": "T11", "item": sel, "note": "trait impl method emitted in an inherent impl"})
                    # associated types of the trait impl (`type Result = ..;`) are substituted into the lifted signature
                    assoc = {}
                    for ai in items:
                        if ai["kind"] == "impl_type" and ai.get("self_ty") == it["self_ty"] and re.sub(r"\s+", "", ai.get("trait") or "") == re.sub(r"\s+", "", trait):
                            mm = re.match(rb"\s*type\s+(\w+)\s*=\s*(.*?);\s*$", data[ai["start"]:ai["end"]], re.S)
                            if mm:
                                assoc[mm.group(1)] = mm.group(2)
                    it = dict(it)
                    it["_assoc"] = assoc
            else:
                if cur_impl is not None:
                    body.append(b"}\n")
                    cur_impl = None
            raw = data[it["start"]:it["end"]]
            anchors_used = set()
            if it["kind"] in ("fn", "impl_fn"):
                txt = emit_fn(data, it, ckey, C, tlog, anchors_used)
                for rn in C.flag(ckey, "rename"):
                    old, new = it["fn"]["name"], rn[0]
                    txt = re.sub(rb"\bfn\s+" + old.encode() + rb"\b", b"fn " + new.encode(), txt, count=1)
                    tlog.append({"t": "T11", "item": sel, "note": "renamed to %s" % new})
                if canary and not C.flag(ckey, "external") and not C.flag(ckey, "nocanary"):
                    ctxt = emit_fn(data, it, ckey, C, [], set(), canary=True)
                    cname = (C.flag(ckey, "rename") or [[it["fn"]["name"]]])[0][0]
                    if C.flag(ckey, "rename"):
                        ctxt = re.sub(rb"\bfn\s+" + it["fn"]["name"].encode() + rb"_vxcanary\b", b"fn " + cname.encode() + b"_vxcanary", ctxt, count=1)
                    txt = txt + b"\n" + ctxt
                    qual = (re.sub(r"<.*>$", "", it["self_ty"]) + "::" if it["kind"] == "impl_fn" else "") + cname + "_vxcanary"
                    canary_fns.append(qual)
            elif it["kind"] in ("struct", "enum"):
                txt = strip_attrs(data, it, tlog)
                pre = C.get(ckey, "attrs")
                if pre:
                    txt = pre.encode() + txt
            elif it["kind"] == "const":
                txt = raw
                t2 = re.sub(rb"^pub\(crate\)\s+const", b"pub const", txt)
                t2 = re.sub(rb":\s*&\s*str\s*=", b": &'static str =", t2)
                if t2 != txt:
                    tlog.append({"t": "T9", "item": it["path"]})
                txt = t2
            elif it["kind"] == "type":
                txt = raw
                if not raw.lstrip().startswith(b"pub "):
                    txt = b"pub " + re.sub(rb"^\s*pub\s*\([^)]*\)\s*", b"", raw.lstrip())
                    tlog.append({"t": "T15", "item": it["path"], "note": "type alias visibility widened to pub"})
            else:
                txt = raw
            body.append(("// ---- %s %s [%s:%d..%d sha %s]\n" % (it["kind"], sel, src["file"], it["start"], it["end"], sha(raw))).encode())
            body.append(txt + b"\n")
            manifest.append({"item": sel, "kind": it["kind"], "file": src["file"], "span": [it["start"], it["end"]],
                             "sha256_16": sha(raw), "anchors": sorted(anchors_used),
                             "external": bool(C.flag(ckey, "external")),
                             "proved_elsewhere": sel in unit.get("assumed", [])})
        if cur_impl is not None:
            body.append(b"}\n")
            cur_impl = None
    unused = [i for i in C.items() if i not in used_items]
    if unused:
        raise Undecided("contracts.vs has sections for items not listed in unit.toml: %s" % unused)
    pieces.append("verus! {\n" + b"".join(body).decode() + "\n} // verus!\n")
    for sp in unit.get("post", []):
        p = os.path.join(unit_dir, sp)
        pieces.append("// ---- post %s ----\n" % sp + open(p).read() + "\n")
    pieces.append("fn main() {}\n")
    text = "".join(pieces)
    return {"text": text, "manifest": manifest, "transformations": tlog, "unit": unit, "canary_fns": canary_fns}
