#!/usr/bin/env python3
"""./check <Cxx> [--tier quick|thorough] [--replay FILE] [--rebaseline] [--repo DIR]

Decides one property of /verif/properties.jsonl on the current /repo working tree by
re-extracting the real functions, splicing the sidecar contracts and running the
deductive verifier (Verus; Kani companions where registered).  Verdict policy: DESIGN.md §4.
exit 0 = every baseline obligation generated and discharged (known findings are printed)
exit 1 = VIOLATION line(s)            exit 2 = undecided (never an alarm)
"""
import argparse
import concurrent.futures as cf
import glob
import hashlib
import json
import os
import re
import shutil
import sys
import tempfile
import time
import tomllib

sys.path.insert(0, os.path.dirname(os.path.abspath(__file__)))
import assemble
import runner
from assemble import Undecided, VERIF

BASELINE = os.path.join(VERIF, "baseline_obligations.json")
KNOWN = os.path.join(VERIF, "known_findings.json")


def load_units():
    units = {}
    for p in sorted(glob.glob(os.path.join(VERIF, "units", "*", "unit.toml"))):
        u = tomllib.load(open(p, "rb"))
        units[u["name"]] = u
    return units


def fn_props(ucfg, fn):
    tags = ucfg.get("tags", {})
    base = fn[:-len("_vxcanary")] if fn.endswith("_vxcanary") else fn
    if base in tags:
        return tags[base]
    # `only_tagged`: a property that is served by this unit ONLY through the functions whose [tags] entry names it
    return [p for p in ucfg["properties"] if p not in ucfg.get("only_tagged", [])]


def err_props(err):
    """clause-level tags:  `// @C12 @C11` at the end of a contract line"""
    t = set(re.findall(r"@(C\d\d+)", err.get("clause", "") + " " + err.get("clause2", "")))
    return t


def load_json(p, default):
    if os.path.exists(p):
        return json.load(open(p))
    return default


def trusted_scan(text):
    """mechanical scan of the generated file for everything that is assumed rather than proved"""
    out = []
    lines = text.split("\n")
    heads = runner.fn_line_map(text)
    for i, l in enumerate(lines, 1):
        if re.search(r"#\[verifier::external_body\]|verifier::external_body", l):
            # name of the next fn / struct
            nm = None
            for k in range(i - 1, min(i + 6, len(lines))):
                m = re.search(r"\bfn\s+(\w+)|\bstruct\s+(\w+)", lines[k])
                if m:
                    nm = m.group(1) or m.group(2)
                    break
            out.append("external_body: %s" % nm)
        m = re.search(r"assume_specification\s*(<[^\[]*>)?\s*\[\s*([^\]]+)\]", l)
        if m:
            out.append("assume_specification: %s" % m.group(2).strip())
        if re.search(r"\bassume\s*\(", l) and not l.strip().startswith("//"):
            out.append("assume(..) at generated line %d in %s" % (i, runner.fn_at(heads, i)))
        if re.search(r"\badmit\s*\(", l) and not l.strip().startswith("//"):
            out.append("admit() at generated line %d in %s" % (i, runner.fn_at(heads, i)))
        if "exec_allows_no_decreases_clause" in l:
            out.append("termination not proved (exec_allows_no_decreases_clause) near generated line %d: %s" % (i, runner.fn_at(heads, i + 2)))
        if re.search(r"\baxiom\b|broadcast proof fn axiom_", l) and "fn " in l and "external_body" not in l:
            pass
    # de-duplicate, keep order
    seen = set()
    res = []
    for o in out:
        if o not in seen:
            seen.add(o)
            res.append(o)
    return res


def run_property(prop, tier, repo, scratch, units, only_units=None):
    """returns dict with per-unit results"""
    mine = [u for u in units.values() if prop in u["properties"]]
    assemble.ACTIVE_PROP = prop
    if only_units:
        mine = [u for u in mine if u["name"] in only_units]
    jobs = []
    results = {}
    with cf.ThreadPoolExecutor(max_workers=8) as ex:
        futs = {}
        for u in mine:
            futs[ex.submit(runner.run_unit, u["name"], scratch, repo, None, False)] = (u["name"], "main")
            futs[ex.submit(runner.run_unit, u["name"], scratch, repo, None, True)] = (u["name"], "canary")
        for f in cf.as_completed(futs):
            name, kind = futs[f]
            try:
                r = f.result()
            except Undecided as e:
                r = runner.UnitResult()
                r.unit = name
                r.undecided = str(e)
                r.unit_cfg = units[name]
                r.canary_fns = []
            results[(name, kind)] = r
    return mine, results


def match_known(known, prop, unit, fn, err):
    for k in known.get("findings", []):
        if k["property"] != prop or k["unit"] != unit or k["obligation"] != fn:
            continue
        if k.get("kind") and k["kind"] not in err["msg"]:
            continue
        cc = k.get("clause_contains")
        if cc and cc not in (err["clause"] + " " + err.get("clause2", "")):
            continue
        return k
    return None


def write_replay(prop, unit, fn, errs, res, note, cex=None):
    os.makedirs(os.path.join(VERIF, "replays"), exist_ok=True)
    h = hashlib.sha256((unit + fn + "".join(e["text"] for e in errs)).encode()).hexdigest()[:10]
    path = os.path.join(VERIF, "replays", "%s-%s-%s-%s.json" % (prop, unit, re.sub(r"\W+", "_", fn), h))
    man = [m for m in res.manifest if m["item"].split("::")[-1] == fn.split("::")[-1]]
    # extracted function text from the generated file
    heads = runner.fn_line_map(res.text)
    lines = res.text.split("\n")
    start = end = None
    for idx, (ln, q) in enumerate(heads):
        if q == fn:
            start = ln
            end = heads[idx + 1][0] - 1 if idx + 1 < len(heads) else len(lines)
            break
    body = "\n".join(lines[start - 1:end]) if start else ""
    j = {
        "property": prop, "unit": unit, "failed_obligation": fn,
        "failing_clauses": [{"message": e["msg"], "clause": e["clause"], "related": e.get("clause2", "")} for e in errs],
        "extraction": man,
        "verified_text_of_function_with_contract": body,
        "verifier_cmd": res.cmd,
        "verifier_output": "\n\n".join(e["text"] for e in errs) or res.stderr[-4000:],
        "counterexample": cex,
        "note": note,
        "how_to_replay": "cd /verif && ./check %s --replay %s" % (prop, path),
    }
    json.dump(j, open(path, "w"), indent=1)
    return path


def decide(prop, tier, repo, seed, only_units=None, quiet=False):
    t0 = time.time()
    units = load_units()
    baseline = load_json(BASELINE, {})
    known = load_json(KNOWN, {"findings": [], "fixed": []})
    scratch = tempfile.mkdtemp(prefix="vx_%s_" % prop)
    out_lines = []
    status = 0
    ev = {"property_id": prop, "tier": tier, "seed": seed, "level": "proof", "coverage": {}, "assumptions": [], "wall_s": 0.0, "violations": 0}
    try:
        mine, results = run_property(prop, tier, repo, scratch, units, only_units)
        if not mine:
            print("UNDECIDED: no unit serves property %s" % prop)
            return 2
        undecided = []
        fallback_violations = []
        bounded_runs = []
        obligations = []   # dicts
        violations = []
        known_hits = []
        fn_under_contract = []
        transformations = []
        trusted = []
        vac = []
        smt_ms = 0
        cmds = []
        for u in mine:
            name = u["name"]
            main = results[(name, "main")]
            can = results[(name, "canary")]
            if main.undecided:
                undecided.append("unit %s: %s" % (name, main.undecided))
                fb = u.get("fallback")
                if fb and prop in fb.get("properties", u["properties"]):
                    # bounded stand-in (never counted as proved): the contract is replayed natively on the real code over a stated, bounded input space
                    import native
                    try:
                        rc, out = native.run_native([(fb["module_file"], os.path.join(VERIF, "units", name, fb["test"]))], fb["filter"], repo=repo)
                    except Exception as e:
                        rc, out = None, str(e)
                    bounded_runs.append({"unit": name, "bound": fb["bound"], "ran": rc is not None, "passed": rc == 0, "label": "bounded stand-in, not proof"})
                    if rc is not None and rc != 0 and ("panicked" in out or "VX-FALLBACK" in out or "test result: FAILED" in out):
                        msg = [l for l in out.split("\n") if "VX-FALLBACK" in l or "panicked" in l][:4]
                        fallback_violations.append((name, fb, msg, out))
                    elif rc == 0:
                        undecided.append("unit %s: bounded fallback (%s) found no failing input; still undecided" % (name, fb["bound"]))
                continue
            smt_ms += main.smt_ms
            cmds.append(main.cmd)
            base = baseline.get(name, {}).get("fns", {})
            failing = [f for f, d in main.funcs.items() if not d["success"]]
            # triage: re-run with 3x rlimit and another seed before believing a failure
            retried = None
            if failing:
                try:
                    retried = runner.run_unit(name, scratch, repo, rlimit=(u.get("rlimit") or 10) * 3, canary=False,
                                              extra=["--smt-option", "smt.random_seed=%d" % (seed % 1000 + 7)])
                except Undecided as e:
                    retried = None
                if retried is not None and not retried.undecided:
                    still = [f for f in failing if not retried.funcs.get(f, {"success": False})["success"]]
                    flipped = [f for f in failing if f not in still]
                    if flipped:
                        ev["assumptions"].append("unstable proof (verified only at 3x rlimit / other seed): %s in unit %s" % (flipped, name))
                    for f in flipped:
                        main.funcs[f] = retried.funcs[f]
                    # use the retried diagnostics for those still failing
                    main.errors = [e for e in retried.errors]
                    main.rlimit_fns = retried.rlimit_fns
                    failing = still
            for f in base:
                if prop not in fn_props(u, f):
                    continue
                if f not in main.funcs:
                    undecided.append("unit %s: baseline obligation `%s` was not generated (function removed/renamed or no longer reaches the solver)" % (name, f))
                    continue
                d = main.funcs[f]
                obligations.append({"name": "%s/%s" % (name, f), "engine": "verus", "backend": "z3 (Verus SMT encoding)", "mode": d["mode"],
                                    "ms": round(d["ms"], 1), "rlimit": d["rlimit"], "discharged": bool(d["success"])})
            extra = [f for f in main.funcs if f not in base]
            for f in failing:
                if prop not in fn_props(u, f):
                    continue
                if f not in base:
                    # a function that is not a baseline obligation fails: machinery/baseline out of date
                    undecided.append("unit %s: `%s` fails but is not a baseline obligation" % (name, f))
                    continue
                errs = [e for e in main.errors if e["fn"] == f]
                mine_errs = [e for e in errs if not err_props(e) or prop in err_props(e)]
                if prop in u.get("strict_tags", []):
                    # this unit serves the property only through the clauses explicitly tagged with it
                    mine_errs = [e for e in errs if prop in err_props(e)]
                if errs and not mine_errs and prop in u.get("strict_tags", []):
                    # every failing clause belongs to another property — but a failed assertion is ASSUMED from there on, so a
                    # clause of this property further down in the same function may be masked: no verdict for this property here
                    undecided.append("unit %s: `%s` fails clauses of other properties; the clauses tagged %s behind them are not decided by this run" % (name, f, prop))
                    continue
                if errs and not mine_errs:
                    # every failing clause belongs to another property
                    for o in obligations:
                        if o["name"] == "%s/%s" % (name, f):
                            o["discharged"] = True
                            o["note"] = "fails only clauses tagged for other properties"
                    continue
                if f in main.rlimit_fns and not mine_errs:
                    undecided.append("unit %s: `%s` hit the solver resource limit (no refutation)" % (name, f))
                    continue
                unknown = []
                hits = []
                for e in mine_errs:
                    k = match_known(known, prop, name, f, e)
                    if k:
                        hits.append((k, e))
                    else:
                        unknown.append(e)
                if not mine_errs:
                    unknown = [{"fn": f, "msg": "obligation failed (no diagnostic could be attributed)", "clause": "", "clause2": "", "text": main.stderr[-3000:]}]
                for (k, e) in hits:
                    known_hits.append((k, name, f))
                if unknown:
                    violations.append((name, f, unknown, main))
                else:
                    for o in obligations:
                        if o["name"] == "%s/%s" % (name, f):
                            o["known_finding"] = True
            # vacuity guards
            if can.undecided:
                undecided.append("unit %s (canary build): %s" % (name, can.undecided))
            else:
                for cfn in can.canary_fns:
                    if prop not in fn_props(u, cfn):
                        continue
                    d = can.funcs.get(cfn)
                    if d is None:
                        undecided.append("unit %s: canary `%s` was not generated" % (name, cfn))
                    elif d["success"]:
                        undecided.append("unit %s: VACUOUS — `%s` verifies `ensures false` (contradictory precondition or unreachable exit)" % (name, cfn))
                    else:
                        vac.append(cfn)
            for m in main.manifest:
                if m["kind"] in ("fn", "impl_fn"):
                    fn_under_contract.append({"unit": name, "item": m["item"], "file": m["file"], "span": m["span"], "sha256_16": m["sha256_16"],
                                              "assumed_contract": m["external"], "anchors": m["anchors"]})
            transformations += [dict(t, unit=name) for t in main.transformations]
            trusted += ["[%s] %s" % (name, t) for t in trusted_scan(main.text)]
            ev["assumptions"] += ["[%s] %s" % (name, a) for a in u.get("assumptions", [])]
        # ---- bounded stand-ins that ALWAYS run ([[bounded]] in unit.toml): functions that cannot be brought within the verifier's
        #      reach (iterator adapters, f32, actix middleware).  Labelled bounded, never counted as proved.
        import native as _native
        bjobs = []
        for u in mine:
            for bd in u.get("bounded", []):
                if prop in bd.get("properties", u["properties"]) and os.path.isdir(os.path.join(repo, "src")) and not os.environ.get("VERIF_SKIP_BOUNDED"):
                    bjobs.append((u, bd))
        if bjobs:
            mods = [(bd["module_file"], os.path.join(VERIF, "units", u["name"], bd["test"])) for (u, bd) in bjobs]
            try:
                rc, out = _native.run_native(mods, bjobs[0][1]["filter"], repo=repo, extra_args=[bd["filter"] for (_, bd) in bjobs[1:]], shared=True)
            except Exception as e:
                rc, out = None, str(e)
            for (u, bd) in bjobs:
                # (with --nocapture a test's own output can follow `test name ... ` on the same line: use the summary blocks)
                failed = rc not in (0, None) and re.search(r"^\s+\S*%s\s*$" % re.escape(bd["filter"]), out, re.M) is not None
                ok = rc is not None and not failed and re.search(r"test \S*%s \.\.\. " % re.escape(bd["filter"]), out) is not None \
                    and re.search(r"test result: (ok|FAILED)\. [1-9]", out) is not None
                bounded_runs.append({"unit": u["name"], "stands_for": bd.get("stands_for", ""), "bound": bd["bound"], "ran": rc is not None,
                                     "passed": bool(ok), "label": "bounded stand-in (always run), not proof"})
                if failed:
                    # failing probes are reported one per line `VX-BOUNDED-FAIL <METHOD> <route> ...`; a probe listed under a recorded finding
                    # (known_findings.json, kind "bounded") is a KNOWN-FINDING, anything else a violation
                    fl = [l.strip() for l in out.split("\n") if l.strip().startswith("VX-BOUNDED-FAIL")]
                    other = [l.strip() for l in out.split("\n") if l.strip().startswith("VX-BOUNDED ") ]
                    # a stand-in that serves several properties may say which probe kind (2nd word of the line) speaks for which
                    # property: a failing probe of another property is not an alarm of this one
                    pp = bd.get("probe_properties")
                    if pp and fl:
                        mine_fl = [l for l in fl if prop in pp.get((l.split() + ["", ""])[1], [prop])]
                        if not mine_fl:
                            bounded_runs[-1]["passed"] = True
                            bounded_runs[-1]["note"] = "%d failing probe(s), all of kinds that speak for other properties: %s" % (len(fl), sorted(set((l.split() + ["", ""])[1] for l in fl)))
                            continue
                        fl = mine_fl
                    kb = [k for k in known.get("findings", []) if k.get("kind") == "bounded" and prop in (k.get("properties") or [k["property"]]) and k.get("filter") == bd["filter"]]
                    unmatched, hit = [], set()
                    for l in fl:
                        key = " ".join(l.split()[1:3])
                        ks = [k for k in kb if key in k.get("inputs", [])]
                        if ks:
                            hit.update(k["id"] for k in ks)
                        else:
                            unmatched.append(l)
                    if fl and not unmatched and not other:
                        for k in kb:
                            if k["id"] in hit:
                                known_hits.append((k, u["name"], "bounded:" + bd["filter"]))
                        bounded_runs[-1]["passed"] = True
                        bounded_runs[-1]["known_findings"] = sorted(hit)
                        bounded_runs[-1]["failing_probes_all_recorded"] = len(fl)
                    else:
                        msg = (unmatched + other)[:6] or [l for l in out.split("\n") if "VX-BOUNDED" in l or "panicked" in l][:4]
                        fallback_violations.append((u["name"], {"bound": bd["bound"], "module_file": bd["module_file"], "test": bd["test"], "filter": bd["filter"]}, msg, out))
                elif not ok:
                    undecided.append("unit %s: bounded stand-in %s did not run to a verdict: %s" % (u["name"], bd["filter"], out[-600:]))
        # ---- thorough tier: the bounded stand-ins run unconditionally (they exercise the real code natively over a stated domain)
        if tier == "thorough":
            import native
            for u in mine:
                fb = u.get("fallback")
                if not fb or prop not in fb.get("properties", u["properties"]) or any(b["unit"] == u["name"] for b in bounded_runs):
                    continue
                try:
                    rc, out = native.run_native([(fb["module_file"], os.path.join(VERIF, "units", u["name"], fb["test"]))], fb["filter"], repo=repo)
                except Exception as e:
                    rc, out = None, str(e)
                bounded_runs.append({"unit": u["name"], "bound": fb["bound"], "ran": rc is not None, "passed": rc == 0, "label": "bounded stand-in, not proof (thorough tier: run in addition to the proof)"})
                if rc is not None and rc != 0 and ("panicked" in out or "VX-FALLBACK" in out or "test result: FAILED" in out):
                    msg = [l for l in out.split("\n") if "VX-FALLBACK" in l or "panicked" in l][:4]
                    fallback_violations.append((u["name"], fb, msg, out))
        # ---- concrete-history corpus (lib/corpus.py): on a failed obligation (to look for a concrete failing history on the real
        #      code) and always in the thorough tier.  Tests, not proof.
        corpus_info = None
        corpus_violations = []
        if (violations or tier == "thorough") and os.path.exists(os.path.join(repo, "Cargo.toml")):
            import corpus
            try:
                ran, failing, cout = corpus.run(prop, repo)
                known_ids = set(k.get("id") for k in known.get("findings", []) if prop in (k.get("properties") or [k["property"]]))
                corpus_info = {"label": "regression histories on the real crate (cargo test); testing, not proof", "ran": ran,
                               "failing": failing, "when": "thorough tier" if tier == "thorough" else "after a failed obligation"}
                for fl in failing:
                    if fl["id"] in known_ids:
                        k = [k for k in known["findings"] if k.get("id") == fl["id"]][0]
                        known_hits.append((k, k["unit"], k["obligation"]))
                    else:
                        corpus_violations.append((fl, cout))
            except Exception as e:
                corpus_info = {"error": str(e)[:800]}
        # ---- verdict
        seen_known = set()
        for (k, name, f) in known_hits:
            key = (k.get("id"), k["property"], k["unit"], k["obligation"], k.get("clause_contains"))
            if key in seen_known:
                continue
            seen_known.add(key)
            out_lines.append("KNOWN-FINDING: property=%s %s [%s/%s]" % (prop, k["what"], name, f))
        if violations:
            status = 1
            for (name, f, errs, res) in violations:
                cex = None
                note = "no-failing-input-found"
                path = write_replay(prop, name, f, errs, res, "Verus refuted or could not discharge a baseline obligation generated from the current source; "
                                    "no concrete failing input is produced by this back end.", cex)
                out_lines.append("obligation failed: %s/%s — %s" % (name, f, "; ".join(sorted(set(e["msg"] + (" :: " + e["clause"] if e["clause"] else "") for e in errs)))[:600]))
                out_lines.append("VIOLATION property=%s replay=%s %s" % (prop, path, note))
        seen_replays = set()
        if fallback_violations:
            status = 1
            for (name, fb, msg, out) in fallback_violations:
                os.makedirs(os.path.join(VERIF, "replays"), exist_ok=True)
                h = hashlib.sha256(out.encode()).hexdigest()[:10]
                path = os.path.join(VERIF, "replays", "%s-%s-%s-%s.json" % (prop, name, re.sub(r"\W+", "_", fb.get("filter", "fallback")), h))
                if path in seen_replays:
                    continue
                seen_replays.add(path)
                json.dump({"property": prop, "unit": name, "failed_obligation": "bounded native replay of the unit's contracts (%s)" % fb["bound"],
                           "reason": "the deductive check of this unit is undecided on the current source (unsupported construct / lost anchor); the contracts were replayed natively on the real code",
                           "failing_input": msg, "native_output_tail": out[-3000:],
                           "how_to_replay": "cd /verif && python3 lib/native.py %s units/%s/%s %s" % (fb["module_file"], name, fb["test"], fb["filter"])}, open(path, "w"), indent=1)
                out_lines.append("bounded stand-in failed for unit %s: %s" % (name, " | ".join(msg)[:500]))
                out_lines.append("VIOLATION property=%s replay=%s" % (prop, path))
                ev["violations"] = ev.get("violations", 0) + 1
        for (fl, cout) in corpus_violations:
            status = 1
            os.makedirs(os.path.join(VERIF, "replays"), exist_ok=True)
            h = hashlib.sha256(fl["test"].encode()).hexdigest()[:10]
            path = os.path.join(VERIF, "replays", "%s-corpus-%s-%s.json" % (prop, fl["id"], h))
            ent = [e for e in __import__("corpus").entries(prop) if e["id"] == fl["id"]]
            json.dump({"property": prop, "failed_obligation": "concrete history %s (%s) fails on the real crate" % (fl["id"], fl["test"]),
                       "failing_input": fl, "test_file": ent[0]["test_file"] if ent else None,
                       "native_output_tail": cout[-3000:],
                       "how_to_replay": ("cd /verif && python3 lib/native.py %s %s %s" % (ent[0]["module_file"], ent[0]["test_file"], ent[0]["filter"])) if ent else ""},
                      open(path, "w"), indent=1)
            out_lines.append("concrete failing history on the real code: %s — %s" % (fl["test"], fl["message"][:300]))
            out_lines.append("VIOLATION property=%s replay=%s" % (prop, path))
        if status != 1 and undecided:
            status = 2
        n_obl = len([o for o in obligations if not o.get("known_finding")])
        n_dis = len([o for o in obligations if o["discharged"] and not o.get("known_finding")])
        ev["violations"] = len(violations) + len(fallback_violations) + len(corpus_violations)
        ev["wall_s"] = round(time.time() - t0, 2)
        samples = [o for o in obligations[:3]]
        cov = {
            "obligations": n_obl, "discharged": n_dis,
            "checker_cmd": " ; ".join(cmds) if cmds else "verus",
            "trusted_base": sorted(set(trusted)),
            "obligation_unit": "one Verus function-level SMT query (exec function with its contract and loop invariants, or proof lemma); overflow/bounds/termination conditions of a function are part of its query",
            "obligation_list": obligations,
            "known_finding_obligations": [o["name"] for o in obligations if o.get("known_finding")],
            "bounded": bounded_runs,
            "concrete_history_corpus": corpus_info,
            "functions_under_contract": fn_under_contract,
            "transformations": transformations,
            "vacuity": {"canaries_that_failed_as_required": len(vac), "rule": "each contracted function is duplicated with `ensures false`; the duplicate must NOT verify"},
            "solver_time_ms": smt_ms,
            "samples": samples,
            "undecided": undecided,
            "exhaustive": False,
        }
        ev["coverage"] = cov
        if status == 2 and n_dis == 0:
            ev["level"] = "other"
            cov["explanation"] = "undecided: " + "; ".join(undecided)[:2000]
        if undecided and status != 1:
            for u_ in undecided:
                out_lines.append("UNDECIDED: " + u_[:1500])
        return status, out_lines, ev
    finally:
        shutil.rmtree(scratch, ignore_errors=True)


def rebaseline(repo):
    units = load_units()
    scratch = tempfile.mkdtemp(prefix="vx_base_")
    base = {}
    try:
        for name, u in units.items():
            r = runner.run_unit(name, scratch, repo)
            if r.undecided:
                print("unit %s undecided: %s" % (name, r.undecided))
                return 2
            base[name] = {"fns": {f: d["mode"] for f, d in sorted(r.funcs.items())},
                          "failing_at_baseline": sorted(f for f, d in r.funcs.items() if not d["success"])}
            print("unit %-14s %3d obligations, %d failing %s" % (name, len(r.funcs), len(base[name]["failing_at_baseline"]), base[name]["failing_at_baseline"]))
        json.dump(base, open(BASELINE, "w"), indent=1, sort_keys=True)
    finally:
        shutil.rmtree(scratch, ignore_errors=True)
    return 0


def main():
    ap = argparse.ArgumentParser()
    ap.add_argument("prop", nargs="?")
    ap.add_argument("--tier", default=os.environ.get("VERIF_TIER", "quick"))
    ap.add_argument("--replay")
    ap.add_argument("--rebaseline", action="store_true")
    ap.add_argument("--repo", default=os.environ.get("VERIF_REPO", "/repo"))
    ap.add_argument("--no-evidence", action="store_true")
    ap.add_argument("--units")
    a = ap.parse_args()
    assemble.REPO = a.repo
    seed = int(os.environ.get("VERIF_SEED", "0") or 0)
    if a.rebaseline:
        sys.exit(rebaseline(a.repo))
    if not a.prop:
        ap.error("property id required")
    only = a.units.split(",") if a.units else None
    if a.replay:
        rj = json.load(open(a.replay))
        only = [rj["unit"]]
        print("replaying obligation %s/%s of property %s" % (rj["unit"], rj["failed_obligation"], rj["property"]))
    import extra_checks
    try:
        status, lines, ev = decide(a.prop, a.tier, a.repo, seed, only)
        status, lines, ev = extra_checks.run(a.prop, a.tier, a.repo, seed, status, lines, ev, only)
    except Undecided as e:
        print("UNDECIDED: %s" % e)
        sys.exit(2)
    for l in lines:
        print(l)
    if not a.no_evidence and not a.replay and not only:
        os.makedirs(os.path.join(VERIF, "evidence"), exist_ok=True)
        json.dump(ev, open(os.path.join(VERIF, "evidence", a.prop + ".json"), "w"), indent=1)
    c = ev["coverage"]
    print("%s: %s — %d/%d obligations discharged, %d violation(s), %.1fs" % (
        a.prop, {0: "PASS", 1: "FAIL", 2: "UNDECIDED"}[status], c.get("discharged", 0), c.get("obligations", 0), ev["violations"], ev["wall_s"]))
    sys.exit(status)


if __name__ == "__main__":
    main()
