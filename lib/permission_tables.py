"""C17 table lemmas over data re-extracted from the source text on every run (DESIGN §5 C17, T6).

Reads the `lazy_static!` role tables of src/user/permission.rs (M_* modules, R_* groups), the HTTP method
constants of src/common/constant.rs and the routes registered in src/console/api.rs; interns every string to
an integer (injective by construction — checked here) and emits a Verus file whose lemmas are

  L1  every entry of the VISITOR table has method GET, except the session / self-service allow-list
  L2  the DEVELOPER table has no user-management entry and no transfer export/import entry (and no wildcard path)
  L3  on every registered console route: visitor may => developer may => manager may   (matcher semantics of
      PathResource::match_url: "" method = every method, "" path = every path)

The allow-list and the classification of "user management" / "transfer" paths come from the property statement,
not from the code.  A failing lemma is a VIOLATION of C17 and the concrete offending (role, path, method) entries
computed here are written to the replay file and replayed natively against the real UserRole::match_url_by_roles.
"""
import os
import re

from assemble import Undecided

L1_ALLOW_SUFFIX = ["/login/login", "/login/captcha", "/login/logout", "/login/config", "/login/oauth2/login", "/user/reset_password"]
CONSOLE_PREFIXES = ["/rnacos/api/console/v2", "/rnacos/api/console"]
USER_SELF = ["/user/info", "/user/web_resources", "/user/reset_password"]


def strip_comments(src):
    out = []
    i = 0
    n = len(src)
    while i < n:
        c = src[i]
        if c == '"':
            j = i + 1
            while j < n and src[j] != '"':
                if src[j] == "\\":
                    j += 1
                j += 1
            out.append(src[i:j + 1])
            i = j + 1
        elif src.startswith("//", i):
            j = src.find("\n", i)
            i = n if j < 0 else j
        elif src.startswith("/*", i):
            j = src.find("*/", i + 2)
            i = n if j < 0 else j + 2
        else:
            out.append(c)
            i += 1
    return "".join(out)


def balanced(src, open_idx):
    """index just past the paren matching src[open_idx] == '('"""
    depth = 0
    i = open_idx
    n = len(src)
    while i < n:
        c = src[i]
        if c == '"':
            j = i + 1
            while j < n and src[j] != '"':
                if src[j] == "\\":
                    j += 1
                j += 1
            i = j + 1
            continue
        if c == "(":
            depth += 1
        elif c == ")":
            depth -= 1
            if depth == 0:
                return i + 1
        i += 1
    raise Undecided("unbalanced parentheses while reading tables")


def read_consts(repo):
    txt = strip_comments(open(os.path.join(repo, "src/common/constant.rs")).read())
    consts = {}
    for m in re.finditer(r'pub\s+const\s+(\w+)\s*:\s*&\s*(?:\'static\s+)?str\s*=\s*("([^"]*)"|(\w+))\s*;', txt):
        consts[m.group(1)] = m.group(3) if m.group(3) is not None else ("@" + m.group(4))
    for k in list(consts):
        seen = 0
        while isinstance(consts[k], str) and consts[k].startswith("@") and seen < 5:
            consts[k] = consts.get(consts[k][1:], None)
            seen += 1
            if consts[k] is None:
                raise Undecided("cannot resolve constant %s" % k)
    return consts


def read_tables(repo):
    consts = read_consts(repo)
    txt = strip_comments(open(os.path.join(repo, "src/user/permission.rs")).read())
    modules = {}
    for m in re.finditer(r"static\s+ref\s+(M_\w+)\s*:\s*ModuleResource\s*=\s*ModuleResource::new\s*\(", txt):
        end = balanced(txt, m.end() - 1)
        body = txt[m.end():end]
        entries = []
        for e in re.finditer(r'(?:R|Resource)::Path\s*\(\s*"([^"]*)"\s*,\s*("([^"]*)"|(\w+))\s*\)', body):
            meth = e.group(3) if e.group(3) is not None else consts.get(e.group(4))
            if meth is None:
                raise Undecided("unknown method constant %s in %s" % (e.group(4), m.group(1)))
            entries.append((e.group(1), meth))
        n_paths = len(re.findall(r"::Path\s*\(", body))
        if n_paths != len(entries):
            raise Undecided("module %s: %d Path entries but only %d could be read" % (m.group(1), n_paths, len(entries)))
        modules[m.group(1)] = entries
    groups = {}
    for m in re.finditer(r"static\s+ref\s+(R_\w+)\s*:\s*Arc<GroupResource>\s*=\s*Arc::new\s*\(\s*GroupResource::new\s*\(", txt):
        end = balanced(txt, m.end() - 1)
        body = txt[m.end():end]
        mods = re.findall(r"&\s*(M_\w+)", body)
        for x in mods:
            if x not in modules:
                raise Undecided("group %s refers to unknown module %s" % (m.group(1), x))
        groups[m.group(1)] = mods
    for g in ("R_VISITOR", "R_DEVELOPER", "R_MANAGER"):
        if g not in groups:
            raise Undecided("lost anchor: role table %s" % g)
    # role -> table mapping is the verified UserRole::get_resources (unit permission): 2 visitor, 1 developer, 0 manager
    roles = {2: "R_VISITOR", 1: "R_DEVELOPER", 0: "R_MANAGER"}
    tables = {}
    for r, g in roles.items():
        t = []
        for mod in groups[g]:
            for e in modules[mod]:
                if e not in t:
                    t.append(e)
        tables[r] = t
    return tables, modules, groups


def read_routes(repo):
    txt = strip_comments(open(os.path.join(repo, "src/console/api.rs")).read())
    routes = []
    for m in re.finditer(r'web::scope\s*\(\s*"([^"]*)"\s*\)', txt):
        prefix = m.group(1)
        # the scope's chain lives inside the enclosing `config.service(` call
        k = txt.rfind("service(", 0, m.start())
        if k < 0:
            continue
        end = balanced(txt, k + len("service"))
        chain = txt[m.end():end]
        for rm in re.finditer(r'web::resource\s*\(\s*"([^"]*)"\s*\)', chain):
            nxt = re.search(r"web::resource\s*\(", chain[rm.end():])
            seg = chain[rm.end(): rm.end() + nxt.start()] if nxt else chain[rm.end():]
            meths = re.findall(r"web::(get|post|put|delete|patch|head)\s*\(\s*\)", seg)
            for me in meths:
                routes.append((prefix + rm.group(1), me.upper()))
    if not routes:
        raise Undecided("no console routes could be read from src/console/api.rs")
    return sorted(set(routes))


def grants(table, p, m):
    pp = p if p != "" else "/"
    return any((tm == "" or tm == m) and (tp == "" or tp == pp) for (tp, tm) in table)


def l1_allowed(p):
    return any(p == pre + suf for pre in CONSOLE_PREFIXES for suf in L1_ALLOW_SUFFIX)


def is_user_mgmt(p):
    if p in ("/manage/user", "/rnacos/manage/user"):
        return True
    for pre in CONSOLE_PREFIXES:
        if p.startswith(pre + "/user/") and not any(p == pre + s for s in USER_SELF):
            # v2 prefix also starts with the v1 prefix: only classify with the longest matching prefix
            if pre == "/rnacos/api/console" and p.startswith("/rnacos/api/console/v2/"):
                continue
            return True
    return False


def is_transfer(p):
    return "/transfer/" in p or p.endswith("/manage/transfer")


def analyse(repo):
    tables, modules, groups = read_tables(repo)
    routes = read_routes(repo)
    strings = []

    def sid(s):
        if s not in strings:
            strings.append(s)
        return strings.index(s)
    for s in ("", "/", "GET", "POST"):
        sid(s)
    for r in tables:
        for (p, m) in tables[r]:
            sid(p), sid(m)
    for (p, m) in routes:
        sid(p), sid(m)
    assert len(set(strings)) == len(strings)
    bad = {"L1": [], "L2": [], "L3": []}
    for (p, m) in tables[2]:
        if m != "GET" and not l1_allowed(p):
            bad["L1"].append({"role": "2 (visitor)", "path": p, "method": m or "*", "why": "non-GET entry reaches the visitor role"})
    for (p, m) in tables[1]:
        if p == "" or is_user_mgmt(p) or is_transfer(p):
            bad["L2"].append({"role": "1 (developer)", "path": p or "*", "method": m or "*", "why": "user-management / transfer entry reaches the developer role"})
    for (p, m) in routes:
        gv, gd, gm = grants(tables[2], p, m), grants(tables[1], p, m), grants(tables[0], p, m)
        if gv and not gd:
            bad["L3"].append({"path": p, "method": m, "why": "visitor may, developer may not"})
        if gd and not gm:
            bad["L3"].append({"path": p, "method": m, "why": "developer may, manager may not"})
    return {"tables": tables, "routes": routes, "strings": strings, "bad": bad, "modules": modules, "groups": groups}


def emit_verus(an):
    S = an["strings"]
    sid = {s: i for i, s in enumerate(S)}
    EMPTY, SLASH, GET = sid[""], sid["/"], sid["GET"]
    out = ["use vstd::prelude::*;", "verus! {", "// generated by lib/permission_tables.py from src/user/permission.rs, src/common/constant.rs, src/console/api.rs",
           "// string interning (injective by construction):"]
    for i, s in enumerate(S):
        out.append("//   %d = %r" % (i, s))

    def disj(items):
        return " || ".join(items) if items else "false"
    for r in (0, 1, 2):
        out.append("pub open spec fn tbl_%d(p: int, m: int) -> bool { %s }" % (r, disj(["(p == %d && m == %d)" % (sid[p], sid[m]) for (p, m) in an["tables"][r]])))
        terms = []
        for (tp, tm) in an["tables"][r]:
            c = []
            if tm != "":
                c.append("m == %d" % sid[tm])
            if tp != "":
                c.append("pp == %d" % sid[tp])
            terms.append("(" + (" && ".join(c) if c else "true") + ")")
        out.append("/// matcher semantics of PathResource::match_url over table %d (an empty request path means \"/\")" % r)
        out.append("pub open spec fn grants_%d(p: int, m: int) -> bool { let pp = if p == %d { %d } else { p }; %s }" % (r, EMPTY, SLASH, disj(terms)))
    out.append("pub open spec fn l1_allowed(p: int) -> bool { %s }" % disj(["p == %d" % i for i, s in enumerate(S) if l1_allowed(s)]))
    out.append("pub open spec fn user_mgmt(p: int) -> bool { %s }" % disj(["p == %d" % i for i, s in enumerate(S) if is_user_mgmt(s)]))
    out.append("pub open spec fn transfer(p: int) -> bool { %s }" % disj(["p == %d" % i for i, s in enumerate(S) if is_transfer(s)]))
    out.append("pub open spec fn registered(p: int, m: int) -> bool { %s }" % disj(["(p == %d && m == %d)" % (sid[p], sid[m]) for (p, m) in an["routes"]]))
    out.append("""
/// L1: a visitor can never change data — every visitor entry is a GET, except the session / self-service allow-list
pub proof fn lemma_L1_visitor_read_only()
    ensures forall|p: int, m: int| #[trigger] tbl_2(p, m) ==> (m == %d || l1_allowed(p))
{}
/// L2: a developer can never manage users or use the full-data transfer export/import
pub proof fn lemma_L2_developer_no_user_no_transfer()
    ensures forall|p: int, m: int| #[trigger] tbl_1(p, m) ==> (p != %d && !user_mgmt(p) && !transfer(p))
{}
/// L3: on every registered route, whatever a lower role may do a higher role may do too
pub proof fn lemma_L3_role_order_on_registered_routes()
    ensures forall|p: int, m: int| #[trigger] registered(p, m) ==> ((grants_2(p, m) ==> grants_1(p, m)) && (grants_1(p, m) ==> grants_0(p, m)))
{}
/// vacuity guard: the tables are not empty and the matcher is satisfiable
pub proof fn lemma_tables_nonempty()
    ensures exists|p: int, m: int| tbl_2(p, m), exists|p: int, m: int| registered(p, m) && grants_0(p, m)
{
    assert(tbl_2(%d, %d));
    assert(registered(%d, %d) && grants_0(%d, %d));
}
} // verus!
fn main() {}
""" % (GET, EMPTY,
       sid[an["tables"][2][0][0]], sid[an["tables"][2][0][1]],
       *(lambda pm: (sid[pm[0]], sid[pm[1]], sid[pm[0]], sid[pm[1]]))(next((pm for pm in an["routes"] if grants(an["tables"][0], pm[0], pm[1])), an["routes"][0]))))
    return "\n".join(out)
